#!/bin/bash
# usage: seedtest.sh <prop> <seeddir> [tier]  -- applies <seeddir>/patch.diff to /repo, runs ./check, reverts
prop=$1; dir=$2; tier=${3:-quick}
cd /verif
git -C /repo apply "$dir/patch.diff" || { echo "APPLY FAILED"; exit 3; }
timeout 1500 ./check $prop $tier > /tmp/seedrun.log 2>&1; rc=$?
git -C /repo checkout -- . 
echo "exit=$rc"; grep -E "^VIOLATION|^KNOWN|^PASS|^INCONCL|UNCONFIRMED|ENGINE" /tmp/seedrun.log | cut -c1-260 | head -8

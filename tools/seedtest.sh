#!/bin/bash
# usage: seedtest.sh <prop> <seeddir> [tier] [harness]  -- runs the property's check against a scratch copy of /repo
# with <seeddir>/patch.diff applied; evidence and replay files go to a scratch output root.
prop=$1; dir=$2; tier=${3:-quick}; only=${4:-}
export GOFLAGS=-mod=mod GOPROXY=off GOSUMDB=off GOTOOLCHAIN=local
cd /verif
[ bin/symgo -nt engine/main.go ] || (cd engine && go build -o ../bin/symgo .)
scratch=/tmp/repo_seedt_$$; out=/tmp/seedoutt_$$
rm -rf $scratch $out; cp -r /repo $scratch; rm -rf $scratch/.git
(cd $scratch && patch -p1 -s < $dir/patch.diff) || { echo "APPLY FAILED"; rm -rf $scratch; exit 3; }
timeout 1800 ./bin/symgo -repo $scratch -verif /verif -out $out -prop $prop -tier $tier ${only:+-harness $only} > /tmp/seedrun_$$.log 2>&1; rc=$?
echo "exit=$rc"; grep -E "^VIOLATION|^KNOWN|^PASS|^INCONCL|UNCONFIRMED|ENGINE" /tmp/seedrun_$$.log | sed "s#$out##" | cut -c1-260 | head -8
rm -rf $scratch $out /tmp/seedrun_$$.log

#!/usr/bin/env python3
"""Regenerates /verif/MANIFEST.json from tools/claims.json (claimed properties) and properties.jsonl."""
import json, os, sys
root = os.path.dirname(os.path.dirname(os.path.abspath(__file__)))
props = [json.loads(l) for l in open(os.path.join(root, 'properties.jsonl'))]
claims = json.load(open(os.path.join(root, 'tools', 'claims.json')))
import glob, re
def harness_index(pid):
    """name [directive bounds]: first sentence of the doc comment, for every harness of the property (from the files)"""
    out = []
    for f in sorted(glob.glob(os.path.join(root, 'harness', pid, '**', 'zz_verif_*.go'), recursive=True)):
        lines = open(f).read().split('\n')
        for i, l in enumerate(lines):
            m = re.match(r'//verif:harness (.*)', l)
            if not m:
                continue
            kv = dict(x.split('=', 1) for x in m.group(1).split() if '=' in x)
            if kv.get('prop') != pid:
                continue
            j = i - 1
            doc = []
            while j >= 0 and lines[j].startswith('//'):
                t = lines[j][2:].strip()
                if t and not t.startswith('verif:'):
                    doc.insert(0, t)
                j -= 1
            text = ' '.join(doc)
            first = re.split(r'(?<=[.;])\s', text)[0] if text else ''
            b = ' '.join('%s=%s' % (k, v) for k, v in kv.items() if k not in ('prop', 'name'))
            out.append('%s [%s] %s' % (kv.get('name'), b, first[:220]))
    return out
checks = []
na = []
for p in props:
    pid = p['id']
    c = claims.get('claimed', {}).get(pid)
    if c:
        checks.append({
            "property_id": pid,
            "quick_cmd": "./check %s quick" % pid,
            "thorough_cmd": "./check %s thorough" % pid,
            "evidence_file": "/verif/evidence/%s.json" % pid,
            "replay_cmd_template": "cd /repo && VERIF_REPLAY={path} go test (see DESIGN.md 2.8; ./check re-runs and replays automatically)",
            "engine": "symgo",
            "level_claimed": {"category": "model_checking", "text": c["text"], "design_ref": c.get("design_ref", "DESIGN.md section 4 " + pid)},
            "level_note": c["note"] + " || harnesses (generated from the harness files): " + " | ".join(harness_index(pid)),
            "technique": c.get("technique", "bounded symbolic execution of the real Go SSA (go/ssa) with SMT (z3) deciding every branch and assertion; counterexamples replayed natively"),
        })
    else:
        na.append({"property_id": pid, "reason": claims.get('not_applicable', {}).get(pid, "check not built yet (engine under construction); will be claimed once its bounds run clean")})
m = {
    "version": 1,
    "setup_cmd": "cd /verif/engine && GOFLAGS=-mod=mod GOPROXY=off GOSUMDB=off GOTOOLCHAIN=local go build -o /verif/bin/symgo . && /verif/bin/symgo -selftest",
    "hooks": {"guard": "verif", "enable": "-tags=verif,unit; no hook files exist in /repo: harnesses, the nondeterminism runtime and models are injected by build overlay (go/packages Overlay, go test -overlay)",
              "baseline_off_cmd": "cd /repo && GOFLAGS=-mod=mod go test -vet=off -count=1 -timeout 25m ./...", "source_commits": [], "add_only": True},
    "engines": [{"name": "symgo", "path": "/verif/engine", "serves_properties": sorted(claims.get('claimed', {}).keys()),
                 "kind_free_text": "own symbolic executor for Go SSA (golang.org/x/tools/go/ssa v0.29.0): path forking by re-execution, bit-vector/array terms, z3 4.8.12 (incremental, push/pop mirrors the path condition), native replay of models via go test -overlay"}],
    "checks": checks,
    "not_applicable": na,
    "notes": "exit codes of ./check: 0 held within bounds, 1 VIOLATION (replay-confirmed, not listed in known_findings.json), 2 inconclusive (unknown/timeout/unsupported/unwinding) - never reported as a pass",
}
json.dump(m, open(os.path.join(root, 'MANIFEST.json'), 'w'), indent=1)
print("claimed:", [c["property_id"] for c in checks])

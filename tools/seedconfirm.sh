#!/bin/bash
# usage: seedconfirm.sh <worktree> <seeddir> <pkgdir> [tags]   -- confirms: builds, existing tests pass with patch, demo fails with / passes without
wt=$1; sd=$2; pkg=$3; tags=${4:-}
export GOFLAGS=-mod=mod GOPROXY=off GOSUMDB=off GOTOOLCHAIN=local
cd $wt && git checkout -q -- . && git clean -fdq
git apply $sd/patch.diff || { echo "apply failed"; exit 1; }
go build ./... || { echo "BUILD FAILED"; exit 1; }
if go test $tags -vet=off -count=1 ./$pkg/ > /tmp/sc_existing.log 2>&1; then echo "existing tests with patch: PASS"; else echo "existing tests with patch: FAIL"; tail -5 /tmp/sc_existing.log; fi
cp $sd/demo_test.go $pkg/zz_seed_demo_test.go
if go test $tags -vet=off -count=1 -short ./$pkg/ > /tmp/sc_demo1.log 2>&1; then echo "demo with patch: PASS (unexpected)"; else echo "demo with patch: FAIL (expected)"; fi
git checkout -q -- . 
if go test $tags -vet=off -count=1 -short ./$pkg/ > /tmp/sc_demo2.log 2>&1; then echo "demo without patch: PASS (expected)"; else echo "demo without patch: FAIL (unexpected)"; tail -5 /tmp/sc_demo2.log; fi
rm -f $pkg/zz_seed_demo_test.go; git checkout -q -- .; git clean -fdq

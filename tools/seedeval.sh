#!/bin/bash
# usage: seedeval.sh <seed-root-prefix> <worktree-prefix> [props...]
# For every <seed-root-prefix><P>/<i>: confirm the seed in the scratch worktree <worktree-prefix><P> (build, tests of
# the test_dir package and of every package the patch touches pass with the patch, demo fails with / passes without),
# then run property P's quick check against a scratch copy of /repo with the patch. One summary line per seed.
sp=$1; wp=$2; shift 2
export GOFLAGS=-mod=mod GOPROXY=off GOSUMDB=off GOTOOLCHAIN=local
props=${@:-C01 C02 C03 C04 C05 C06 C07 C08 C09 C10 C11 C12 C13 C14 C15 C16 C17 C18 C19 C20}
for p in $props; do
  for d in ${sp}${p}/*/; do
    [ -f "$d/patch.diff" ] || continue
    i=$(basename $d); d=${d%/}
    td=$(python3 -c "import json;print(json.load(open('$d/meta.json'))['test_dir'])")
    tf=$(python3 -c "import json;print(json.load(open('$d/meta.json')).get('test_flags',''))")
    conf=$(/verif/tools/seedconfirm.sh ${wp}${p} $d $td $tf 2>&1 | tr '\n' ';')
    ok=yes
    echo "$conf" | grep -q "existing tests with patch: PASS" || ok=no
    echo "$conf" | grep -q "demo with patch: FAIL (expected)" || ok=no
    echo "$conf" | grep -q "demo without patch: PASS (expected)" || ok=no
    # tests of every package the patch touches
    other=""
    (cd ${wp}${p} && git checkout -q -- . && git apply $d/patch.diff) || ok=no
    for dd in $(grep '^+++ b/' $d/patch.diff | sed 's#+++ b/##' | xargs -n1 dirname | sort -u); do
      (cd ${wp}${p} && go test -tags=unit -vet=off -count=1 ./$dd/ >/tmp/se_t.log 2>&1) || { ok=no; other="$other pkgtests-fail:$dd"; }
    done
    (cd ${wp}${p} && git checkout -q -- . && git clean -fdq)
    res=$(/verif/tools/seedtest.sh $p $d 2>&1 | tr '\n' ' ' | cut -c1-330)
    echo "== $p/$i confirmed=$ok$other | $res"
    [ "$ok" = yes ] || echo "   confirm detail: $conf" | cut -c1-400
  done
done

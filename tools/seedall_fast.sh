#!/bin/bash
# Re-runs every stored seeded change, first only against the harness recorded as catching it
# (seeded/catching_harness.json, derived from the DESIGN.md tables and the first-evaluation logs) and, if that does not
# report a violation, against the property's whole quick check. Scratch copy of /repo, scratch output root; rewrites
# seeded/<id>/meta.json:check_result. usage: seedall_fast.sh [id-prefix]
pre=${1:-}
export GOFLAGS=-mod=mod GOPROXY=off GOSUMDB=off GOTOOLCHAIN=local
cd /verif
[ bin/symgo -nt engine/main.go ] || (cd engine && go build -o ../bin/symgo .)
for d in seeded/${pre}*-*/; do
  id=$(basename $d); prop=${id%-*}
  keep=$(python3 -c "import json;m=json.load(open('$d/meta.json'));print('1' if str(m.get('check_result','')).startswith('NOT') else '0')")
  [ "$keep" = 1 ] && { echo "$id kept: not judged / not reachable (see meta.json)"; continue; }
  h=$(python3 -c "import json;print(json.load(open('seeded/catching_harness.json')).get('$id',''))")
  scratch=/tmp/repo_seed_$$; out=/tmp/seedout_$$
  rm -rf $scratch $out; cp -r /repo $scratch; rm -rf $scratch/.git
  (cd $scratch && patch -p1 -s < /verif/$d/patch.diff) || { echo "$id APPLY-FAILED"; rm -rf $scratch; continue; }
  rc=0; how="harness $h"
  if [ -n "$h" ]; then
    timeout 900 ./bin/symgo -repo $scratch -verif /verif -out $out -prop $prop -tier quick -harness $h > /tmp/seedall_$id.log 2>&1; rc=$?
  fi
  if [ -z "$h" ] || [ $rc != 1 ]; then
    how="whole quick check"
    timeout 1800 ./bin/symgo -repo $scratch -verif /verif -out $out -prop $prop -tier quick > /tmp/seedall_$id.log 2>&1; rc=$?
  fi
  v=$(grep -c "^VIOLATION" /tmp/seedall_$id.log)
  first=$(grep -m1 "^VIOLATION" /tmp/seedall_$id.log | sed 's/.*replays\///' | cut -c1-120)
  echo "$id exit=$rc violations=$v ($how) $first"
  python3 - "$d" "$rc" "$v" "$first" "$how" <<'PY'
import json,sys
d,rc,v,first,how=sys.argv[1:6]
m=json.load(open(d+'/meta.json'))
m['check_result']=("caught" if rc=='1' else "MISSED" if rc=='0' else "inconclusive (exit 2)")+" by ./check quick (%s): exit=%s, %s VIOLATION line(s), first: %s"%(how,rc,v,first)
json.dump(m,open(d+'/meta.json','w'),indent=1)
PY
  rm -rf $scratch $out
done

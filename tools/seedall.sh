#!/bin/bash
# Re-runs every stored seeded change against the current checks on a scratch copy of /repo (never touches /repo, and
# writes evidence/replays to a scratch output root, never to /verif/evidence); prints one line per seed and rewrites
# seeded/<id>/meta.json:check_result. usage: seedall.sh [tier] [id-prefix]
tier=${1:-quick}; pre=${2:-}
export GOFLAGS=-mod=mod GOPROXY=off GOSUMDB=off GOTOOLCHAIN=local
cd /verif
[ bin/symgo -nt engine/main.go ] || (cd engine && go build -o ../bin/symgo .)
for d in seeded/${pre}*/; do
  id=$(basename $d); prop=${id%-*}
  scratch=/tmp/repo_seed_$$; out=/tmp/seedout_$$
  rm -rf $scratch $out; cp -r /repo $scratch; rm -rf $scratch/.git
  (cd $scratch && patch -p1 -s < /verif/$d/patch.diff) || { echo "$id APPLY-FAILED"; rm -rf $scratch; continue; }
  timeout 1800 ./bin/symgo -repo $scratch -verif /verif -out $out -prop $prop -tier $tier > /tmp/seedall_$id.log 2>&1; rc=$?
  v=$(grep -c "^VIOLATION" /tmp/seedall_$id.log)
  first=$(grep -m1 "^VIOLATION" /tmp/seedall_$id.log | sed 's/.*replays\///' | cut -c1-120)
  echo "$id exit=$rc violations=$v $first"
  python3 - "$d" "$rc" "$v" "$first" "$tier" <<'PY'
import json,sys
d,rc,v,first,tier=sys.argv[1:6]
m=json.load(open(d+'/meta.json'))
m['check_result']=("caught" if rc=='1' else "MISSED" if rc=='0' else "inconclusive (exit 2)")+" by ./check (%s tier): exit=%s, %s VIOLATION line(s), first: %s"%(tier,rc,v,first)
json.dump(m,open(d+'/meta.json','w'),indent=1)
PY
  rm -rf $scratch $out
done

// Package zzverifstubs holds idealised models of standard-library and x/crypto primitives. The engine calls these in
// place of the real functions when a harness file carries the corresponding //verif:stub directive. What is modelled
// is the documented contract (sizes, panics on misuse, inverse laws); bit-level behaviour of the primitives is not.
package zzverifstubs

import (
	"crypto/aes"
	"crypto/cipher"
	"encoding/base64"
	"errors"
	"hash"
	"io"

	"github.com/dapr/kit/zzverif"
)

// ---- block cipher: E_k / D_k uninterpreted permutations on 128-bit blocks -------------------------------------

type Block struct{ Key []byte }

func (b *Block) BlockSize() int { return 16 }
func (b *Block) Encrypt(dst, src []byte) {
	if len(src) < 16 {
		panic("crypto/aes: input not full block")
	}
	if len(dst) < 16 {
		panic("crypto/aes: output not full block")
	}
	copy(dst[:16], zzverif.UFBytes("E", 16, b.Key, src[:16]))
}
func (b *Block) Decrypt(dst, src []byte) {
	if len(src) < 16 {
		panic("crypto/aes: input not full block")
	}
	if len(dst) < 16 {
		panic("crypto/aes: output not full block")
	}
	copy(dst[:16], zzverif.UFBytes("D", 16, b.Key, src[:16]))
}

// Init declares the inverse laws; every harness using these stubs calls it first.
func Init() {
	macComputed, macSigned, MACStrict = nil, nil, false
	zzverif.UFInverse("E", "D")
	zzverif.UFLeftInverse("Seal", "OpenPT")
	zzverif.UFLeftInverse("B64", "B64D")
}

func NewCipher(key []byte) (cipher.Block, error) {
	switch len(key) {
	case 16, 24, 32:
	default:
		return nil, aes.KeySizeError(len(key))
	}
	return &Block{Key: append([]byte{}, key...)}, nil
}

// ---- CBC over the ideal block cipher (exact mode semantics) ----------------------------------------------------

type CBC struct {
	B   cipher.Block
	IV  []byte
	Dec bool
}

func NewCBCEncrypter(b cipher.Block, iv []byte) cipher.BlockMode {
	if len(iv) != b.BlockSize() {
		panic("cipher.NewCBCEncrypter: IV length must equal block size")
	}
	return &CBC{B: b, IV: append([]byte{}, iv...)}
}

func NewCBCDecrypter(b cipher.Block, iv []byte) cipher.BlockMode {
	if len(iv) != b.BlockSize() {
		panic("cipher.NewCBCDecrypter: IV length must equal block size")
	}
	return &CBC{B: b, IV: append([]byte{}, iv...), Dec: true}
}

func (c *CBC) BlockSize() int { return 16 }

func (c *CBC) CryptBlocks(dst, src []byte) {
	if len(src)%16 != 0 {
		panic("crypto/cipher: input not full blocks")
	}
	if len(dst) < len(src) {
		panic("crypto/cipher: output smaller than input")
	}
	prev := c.IV
	for i := 0; i+16 <= len(src); i += 16 {
		blk := append([]byte{}, src[i:i+16]...)
		out := make([]byte, 16)
		if !c.Dec {
			x := make([]byte, 16)
			for k := 0; k < 16; k++ {
				x[k] = blk[k] ^ prev[k]
			}
			c.B.Encrypt(out, x)
			prev = out
		} else {
			c.B.Decrypt(out, blk)
			for k := 0; k < 16; k++ {
				out[k] ^= prev[k]
			}
			prev = blk
		}
		copy(dst[i:i+16], out)
	}
	c.IV = prev
}

// ---- ideal AEAD (GCM, ChaCha20-Poly1305, XChaCha20-Poly1305) --------------------------------------------------
// Seal(k, n, aad, pt) is an uninterpreted function giving |pt|+16 bytes; OpenPT is its left inverse; Open succeeds
// exactly on (nonce, aad, ct) triples for which re-sealing the candidate plaintext reproduces ct.

type AEAD struct {
	Key   []byte
	NSize int
	Name  string
	TSize int // tag size when truncated (GCM with 12..15 byte tags); 0 means the full 16 bytes
}

func (a *AEAD) NonceSize() int { return a.NSize }
func (a *AEAD) Overhead() int {
	if a.TSize != 0 {
		return a.TSize
	}
	return 16
}

// sealed: every (key, nonce, aad, ciphertext) produced by Seal on this path
type sealed struct {
	name                    string
	key, nonce, aad, ct, pt []byte
}

var sealedSet []sealed

func (a *AEAD) Seal(dst, nonce, plaintext, additionalData []byte) []byte {
	if len(nonce) != a.NSize {
		panic("crypto/cipher: incorrect nonce length given to " + a.Name)
	}
	ct := zzverif.UFBytes("Seal", len(plaintext)+16, []byte(a.Name), a.Key, nonce, additionalData, plaintext)
	sealedSet = append(sealedSet, sealed{a.Name, a.Key, append([]byte{}, nonce...), append([]byte{}, additionalData...),
		ct, append([]byte{}, plaintext...)})
	return append(dst, ct...)
}

var ErrOpen = errors.New("cipher: message authentication failed")

// Open: an ideal AEAD opens exactly what was sealed under the same key, nonce and associated data. Ciphertexts that
// were never sealed on this path are rejected, except that - so that harnesses feeding ARBITRARY ciphertexts still
// explore the success path - a ciphertext may also be "authentic by assumption": it opens iff re-sealing the candidate
// plaintext reproduces it (OpenPT is the left inverse of Seal), unless Strict is set.
func (a *AEAD) Open(dst, nonce, ciphertext, additionalData []byte) ([]byte, error) {
	if len(nonce) != a.NSize {
		panic("crypto/cipher: incorrect nonce length given to " + a.Name)
	}
	if a.TSize != 0 {
		return a.openTruncated(dst, nonce, ciphertext, additionalData)
	}
	if len(ciphertext) < 16 {
		return nil, ErrOpen
	}
	for _, s := range sealedSet {
		if s.name == a.Name && len(s.ct) == len(ciphertext) && len(s.aad) == len(additionalData) &&
			zzverif.EqBytes(s.key, a.Key) && zzverif.EqBytes(s.nonce, nonce) && zzverif.EqBytes(s.aad, additionalData) &&
			zzverif.EqBytes(s.ct, ciphertext) {
			return append(dst, s.pt...), nil
		}
	}
	if Strict {
		return nil, ErrOpen
	}
	n := len(ciphertext) - 16
	pt := zzverif.UFBytes("OpenPT", n, []byte(a.Name), a.Key, nonce, additionalData, ciphertext)
	again := zzverif.UFBytes("Seal", n+16, []byte(a.Name), a.Key, nonce, additionalData, pt)
	if !zzverif.EqBytes(again, ciphertext) {
		return nil, ErrOpen
	}
	return append(dst, pt...), nil
}

// openTruncated: a truncated tag is a prefix of the full tag (NIST SP 800-38D): the message opens iff a sealed record
// of the full-tag instance has the same key, nonce, associated data and body and its tag starts with the given one.
func (a *AEAD) openTruncated(dst, nonce, ciphertext, additionalData []byte) ([]byte, error) {
	if len(ciphertext) < a.TSize {
		return nil, ErrOpen
	}
	n := len(ciphertext) - a.TSize
	for _, s := range sealedSet {
		if s.name == a.Name && len(s.ct) == n+16 && len(s.aad) == len(additionalData) &&
			zzverif.EqBytes(s.key, a.Key) && zzverif.EqBytes(s.nonce, nonce) && zzverif.EqBytes(s.aad, additionalData) &&
			zzverif.EqBytes(s.ct[:n+a.TSize], ciphertext) {
			return append(dst, s.pt...), nil
		}
	}
	return nil, ErrOpen
}

// Strict: only ciphertexts sealed on this path open (unforgeability as an assumption, for tamper harnesses)
var Strict bool

func NewGCM(b cipher.Block) (cipher.AEAD, error) {
	if b.BlockSize() != 16 {
		return nil, errors.New("cipher: NewGCM requires 128-bit block cipher")
	}
	blk, ok := b.(*Block)
	if !ok {
		return nil, errors.New("stub NewGCM: unknown block implementation")
	}
	return &AEAD{Key: blk.Key, NSize: 12, Name: "GCM"}, nil
}

func NewGCMWithTagSize(b cipher.Block, tagSize int) (cipher.AEAD, error) {
	if tagSize < 12 || tagSize > 16 {
		return nil, errors.New("cipher: incorrect tag size given to GCM")
	}
	a, err := NewGCM(b)
	if err != nil {
		return nil, err
	}
	if tagSize != 16 {
		a.(*AEAD).TSize = tagSize
	}
	return a, nil
}

func NewGCMWithNonceSize(b cipher.Block, size int) (cipher.AEAD, error) {
	if size <= 0 {
		return nil, errors.New("cipher: the nonce can't have zero length")
	}
	a, err := NewGCM(b)
	if err != nil {
		return nil, err
	}
	a.(*AEAD).NSize = size
	return a, nil
}

func NewChaCha(key []byte) (cipher.AEAD, error) {
	if len(key) != 32 {
		return nil, errors.New("chacha20poly1305: bad key length")
	}
	return &AEAD{Key: append([]byte{}, key...), NSize: 12, Name: "C20P"}, nil
}

func NewXChaCha(key []byte) (cipher.AEAD, error) {
	if len(key) != 32 {
		return nil, errors.New("chacha20poly1305: bad key length")
	}
	return &AEAD{Key: append([]byte{}, key...), NSize: 24, Name: "XC20P"}, nil
}

// ---- hashes and HMAC: uninterpreted functions of the concatenated input ----------------------------------------

type Hash struct {
	Name string
	Sz   int
	Key  []byte
	Data []byte
}

func (h *Hash) Write(p []byte) (int, error) {
	h.Data = append(h.Data, p...)
	return len(p), nil
}
func (h *Hash) Sum(b []byte) []byte {
	res := append(b, zzverif.UFBytes(h.Name, h.Sz, h.Key, h.Data)...)
	if h.Key != nil && len(b) == 0 {
		macComputed = append(macComputed, macRec{h.Name, h.Key, append([]byte{}, h.Data...), res})
	}
	return res
}

// ---- ideal MAC (unforgeability as an assumption) -------------------------------------------------------------------
// Every HMAC tag computed on the path is recorded. A harness marks the tags computed so far as SIGNED (authentic) with
// MACMarkSigned and then sets MACStrict: from then on CTCompare (standing in for crypto/subtle.ConstantTimeCompare)
// of a freshly computed tag against any other value succeeds only if the tag's (key, message) equals a signed pair
// and the other value equals that signed tag - a tag for a pair that was never signed matches nothing.

type macRec struct {
	name           string
	key, data, out []byte
}

var macComputed, macSigned []macRec

// MACStrict: see above
var MACStrict bool

func MACMarkSigned() { macSigned = append(macSigned, macComputed...) }

func ctPlain(x, y []byte) int {
	if len(x) != len(y) {
		return 0
	}
	if zzverif.EqBytes(x, y) {
		return 1
	}
	return 0
}

func CTCompare(x, y []byte) int {
	if !MACStrict {
		return ctPlain(x, y)
	}
	for i := len(macComputed) - 1; i >= 0; i-- {
		c := macComputed[i]
		var other []byte
		switch {
		case zzverif.SameArray(x, c.out):
			other = y
		case zzverif.SameArray(y, c.out):
			other = x
		default:
			continue
		}
		for _, s := range macSigned {
			if s.name == c.name && len(s.key) == len(c.key) && len(s.data) == len(c.data) &&
				zzverif.EqBytes(s.key, c.key) && zzverif.EqBytes(s.data, c.data) {
				return ctPlain(other, s.out)
			}
		}
		return 0
	}
	return ctPlain(x, y)
}
func (h *Hash) Reset()         { h.Data = nil }
func (h *Hash) Size() int      { return h.Sz }
func (h *Hash) BlockSize() int { return 64 }

func NewSHA256() hash.Hash { return &Hash{Name: "SHA256", Sz: 32} }
func NewSHA384() hash.Hash { return &Hash{Name: "SHA384", Sz: 48} }
func NewSHA512() hash.Hash { return &Hash{Name: "SHA512", Sz: 64} }

// HashNew models (crypto.Hash).New for the three SHA-2 functions kit uses.
func HashNew(h uint) hash.Hash {
	switch h {
	case 3:
		return &Hash{Name: "SHA1", Sz: 20}
	case 5:
		return NewSHA256()
	case 6:
		return NewSHA384()
	case 7:
		return NewSHA512()
	}
	panic("crypto: requested hash function is unavailable")
}

func HmacNew(h func() hash.Hash, key []byte) hash.Hash {
	inner := h().(*Hash)
	return &Hash{Name: "HMAC_" + inner.Name, Sz: inner.Sz, Key: append([]byte{}, key...)}
}

func HmacEqual(a, b []byte) bool { return zzverif.EqBytes(a, b) }

// ---- HKDF: the reader yields an uninterpreted function of (secret, salt, info) ------------------------------------

type HKDFReader struct {
	Secret, Salt, Info []byte
	Served             int
}

func (h *HKDFReader) Read(p []byte) (int, error) {
	// kit reads exactly one 32-byte key per HKDF instance
	out := zzverif.UFBytes("HKDF", len(p), h.Secret, h.Salt, h.Info, []byte{byte(h.Served)})
	copy(p, out)
	h.Served++
	return len(p), nil
}

func HKDFNew(hash func() hash.Hash, secret, salt, info []byte) io.Reader {
	return &HKDFReader{Secret: append([]byte{}, secret...), Salt: append([]byte{}, salt...), Info: append([]byte{}, info...)}
}

// ---- base64 (standard, padded): an injective uninterpreted encoding with the real length/padding structure ----------

func b64(src []byte) []byte {
	n := (len(src) + 2) / 3 * 4
	raw := zzverif.UFBytes("B64", n, src)
	// the real alphabet/padding structure: '=' appears exactly in the padding positions
	ok := true
	pad := (3 - len(src)%3) % 3
	for i := 0; i < n; i++ {
		if i >= n-pad {
			ok = zzverif.And(ok, raw[i] == '=')
		} else {
			ok = zzverif.And(ok, raw[i] != '=')
		}
		// no character of the alphabet is a line break (the header format relies on it)
		ok = zzverif.And(ok, raw[i] != '\n')
	}
	zzverif.Assume(ok)
	return raw
}

func B64Encode(enc *base64.Encoding, dst, src []byte) {
	if len(src) == 0 {
		return
	}
	raw := b64(src)
	copy(dst[:len(raw)], raw)
}

func B64Decode(enc *base64.Encoding, dst, src []byte) (int, error) {
	l := len(src)
	if l == 0 {
		return 0, nil
	}
	if l%4 != 0 {
		return 0, base64.CorruptInputError(l - l%4)
	}
	pad := 0
	if src[l-1] == '=' {
		pad++
		if src[l-2] == '=' {
			pad++
		}
	}
	n := l/4*3 - pad
	if n <= 0 {
		return 0, base64.CorruptInputError(0)
	}
	cand := zzverif.UFBytes("B64D", n, src)
	if !zzverif.EqBytes(b64(cand), src) {
		return 0, base64.CorruptInputError(0)
	}
	copy(dst[:n], cand)
	return n, nil
}

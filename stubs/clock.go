package zzverifstubs

import (
	"time"

	"github.com/dapr/kit/zzverif"
	kclock "k8s.io/utils/clock"
)

// Clock is the harness clock (implements k8s.io/utils/clock.WithTicker). Time only moves when the harness says so;
// timers never fire early: Advance fires every armed timer whose deadline has been reached. All operations run as
// ghost code (atomic, not scheduling points of their own except the channel send that delivers a tick).
type Clock struct {
	now     time.Time
	timers  []*Timer
	Created int
}

type Timer struct {
	clk      *Clock
	ch       chan time.Time
	deadline time.Time
	active   bool
	period   time.Duration // > 0 for tickers
}

func NewClock(start time.Time) *Clock { return &Clock{now: start} }

func (c *Clock) Now() time.Time {
	var t time.Time
	zzverif.Ghost(func() { t = c.now })
	return t
}

func (c *Clock) Since(t time.Time) time.Duration { return c.Now().Sub(t) }

func (c *Clock) NewTimer(d time.Duration) kclock.Timer {
	t := &Timer{clk: c, ch: make(chan time.Time, 1)}
	zzverif.Ghost(func() {
		c.Created++
		t.deadline = c.now.Add(d)
		t.active = true
		c.timers = append(c.timers, t)
		if d <= 0 {
			t.fire()
		}
	})
	return t
}

func (c *Clock) After(d time.Duration) <-chan time.Time { return c.NewTimer(d).C() }

func (c *Clock) NewTicker(d time.Duration) kclock.Ticker {
	t := &Timer{clk: c, ch: make(chan time.Time, 1), period: d}
	zzverif.Ghost(func() {
		c.Created++
		t.deadline = c.now.Add(d)
		t.active = true
		c.timers = append(c.timers, t)
	})
	return tickerView{t}
}

func (c *Clock) Tick(d time.Duration) <-chan time.Time { return c.NewTicker(d).C() }

func (c *Clock) Sleep(d time.Duration) { <-c.After(d) }

// fire delivers the tick (non-blocking, like the runtime's timers); must run inside Ghost
func (t *Timer) fire() {
	select {
	case t.ch <- t.clk.now:
	default:
	}
	if t.period > 0 {
		t.deadline = t.deadline.Add(t.period)
	} else {
		t.active = false
	}
}

// AdvanceTo moves the clock forward to instant to (never backwards) and fires what is due.
func (c *Clock) AdvanceTo(to time.Time) {
	zzverif.Ghost(func() {
		if to.After(c.now) {
			c.now = to
		}
		for _, t := range c.timers {
			if t.active && !t.deadline.After(c.now) {
				t.fire()
			}
		}
	})
}

func (c *Clock) Advance(d time.Duration) { c.AdvanceTo(c.Now().Add(d)) }

// Armed reports the number of timers that are armed and not yet due.
func (c *Clock) Armed() int {
	n := 0
	zzverif.Ghost(func() {
		for _, t := range c.timers {
			if t.active {
				n++
			}
		}
	})
	return n
}

// NextDeadline returns the earliest deadline of an armed timer.
func (c *Clock) NextDeadline() (d time.Time, ok bool) {
	zzverif.Ghost(func() {
		for _, t := range c.timers {
			if t.active && (!ok || t.deadline.Before(d)) {
				d, ok = t.deadline, true
			}
		}
	})
	return
}

func (t *Timer) C() <-chan time.Time { return t.ch }

func (t *Timer) Stop() bool {
	var was bool
	zzverif.Ghost(func() {
		was = t.active
		t.active = false
	})
	return was
}

func (t *Timer) Reset(d time.Duration) bool {
	var was bool
	zzverif.Ghost(func() {
		was = t.active
		t.deadline = t.clk.now.Add(d)
		t.active = true
		if d <= 0 {
			t.fire()
		}
	})
	return was
}

type tickerView struct{ t *Timer }

func (v tickerView) C() <-chan time.Time { return v.t.ch }
func (v tickerView) Stop()               { v.t.Stop() }

// ---- package time's own timers on the harness clock -----------------------------------------------------------------
// Code that uses time.After / time.NewTimer / time.Sleep directly (instead of an injected clock) is put on the harness
// clock by stub directives pointing here; StdClock is the clock in force (set by the harness).

var StdClock *Clock

var stdTimers []stdTimer

type stdTimer struct {
	std *time.Timer
	t   *Timer
}

func StdAfter(d time.Duration) <-chan time.Time { return StdClock.After(d) }
func StdSleep(d time.Duration)                  { StdClock.Sleep(d) }
func StdNow() time.Time                         { return StdClock.Now() }

func StdNewTimer(d time.Duration) *time.Timer {
	t := StdClock.NewTimer(d).(*Timer)
	std := &time.Timer{C: t.ch}
	stdTimers = append(stdTimers, stdTimer{std, t})
	return std
}

func stdLookup(std *time.Timer) *Timer {
	for _, e := range stdTimers {
		if e.std == std {
			return e.t
		}
	}
	panic("time.Timer not created through the harness clock")
}

func StdTimerStop(std *time.Timer) bool { return stdLookup(std).Stop() }

func StdTimerReset(std *time.Timer, d time.Duration) bool { return stdLookup(std).Reset(d) }

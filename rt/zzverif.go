// Package zzverif is the nondeterminism / assertion runtime of the verification harnesses. It exists only in build
// overlays (never in /repo). The symbolic engine intercepts every function of this package by name and never
// executes these bodies; natively the bodies read the solver's assignment from the file named by VERIF_REPLAY, so
// that the very same harness text re-runs a counterexample against the real build.
package zzverif

import (
	"bytes"
	"crypto/sha256"
	"encoding/json"
	"fmt"
	"os"
	"runtime"
	"strconv"
	"sync"
	"testing"
	"time"
)

type schedStep struct {
	Thread int    `json:"thread"`
	Site   string `json:"site"`
	Op     string `json:"op"`
}

type replayFile struct {
	Schedule []schedStep           `json:"schedule"`
	Harness string                 `json:"harness"`
	Inputs  map[string]interface{} `json:"inputs"`
	Expect  string                 `json:"expect"`
	Tier    string                 `json:"tier"`
}

var (
	mu      sync.Mutex
	rf      replayFile
	counts  = map[string]int{}
	covers  = map[string]int{}
	missing []string
)

type assertFail struct{ id string }
type assumeFail struct{}

func key(name string) string {
	mu.Lock()
	defer mu.Unlock()
	k := counts[name]
	counts[name] = k + 1
	if k == 0 {
		return name
	}
	return fmt.Sprintf("%s#%d", name, k)
}

func lookup(name string) (interface{}, bool) {
	k := key(name)
	v, ok := rf.Inputs[k]
	if !ok {
		mu.Lock()
		missing = append(missing, k)
		mu.Unlock()
	}
	return v, ok
}

func num(name string) int64 {
	v, ok := lookup(name)
	if !ok {
		return 0
	}
	switch x := v.(type) {
	case string:
		n, _ := strconv.ParseInt(x, 10, 64)
		return n
	case float64:
		return int64(x)
	case bool:
		if x {
			return 1
		}
	}
	return 0
}

func Int(name string) int       { return int(num(name)) }
func Int64(name string) int64   { return num(name) }
func Int32(name string) int32   { return int32(num(name)) }
func Uint64(name string) uint64 { return uint64(num(name)) }
func Uint32(name string) uint32 { return uint32(num(name)) }
func Byte(name string) byte     { return byte(num(name)) }
func Bool(name string) bool     { return num(name) != 0 }

func Bytes(name string, n int) []byte {
	out := make([]byte, n)
	v, ok := lookup(name)
	if !ok {
		return out
	}
	if arr, ok := v.([]interface{}); ok {
		for i := 0; i < n && i < len(arr); i++ {
			switch x := arr[i].(type) {
			case float64:
				out[i] = byte(x)
			case string:
				k, _ := strconv.Atoi(x)
				out[i] = byte(k)
			}
		}
	}
	return out
}

func String(name string, n int) string { return string(Bytes(name, n)) }

func Choose(name string, n int) int {
	k := int(num(name))
	if k < 0 || k >= n {
		return 0
	}
	return k
}

func Assume(c bool) {
	if !c {
		panic(assumeFail{})
	}
}

// failCh carries the first assertion failure to RunReplay; the failing goroutine (which may be any goroutine of the
// harness, not only the main one) then stops quietly instead of crashing the process.
var failCh = make(chan string, 64)

func Assert(c bool, id string) {
	if !c {
		Fail(id)
	}
}

func Fail(id string) {
	select {
	case failCh <- id:
	default:
	}
	schedMu.Lock()
	release("")
	schedMu.Unlock()
	runtime.Goexit()
}

func Cover(id string) {
	mu.Lock()
	covers[id]++
	mu.Unlock()
}

func Observe(id string, v interface{}) {}
func Symbolic() bool                   { return false }

// Thorough reports whether the check runs in the thorough tier (larger bounds).
func Thorough() bool         { return rf.Tier == "thorough" }
func And(a, b bool) bool     { return a && b }
func Or(a, b bool) bool      { return a || b }
func Implies(a, b bool) bool { return !a || b }
func Not(a bool) bool        { return !a }
func IteInt(c bool, a, b int) int {
	if c {
		return a
	}
	return b
}
func ErrIs(a, b error) bool { return a == b }

// Comparable reports whether the dynamic type of v is comparable; SameDynType whether two interface values have the
// same dynamic type (engine intrinsics; natively answered with reflection-free approximations that are not used).
func Comparable(v interface{}) bool     { return true }
func SameDynType(a, b interface{}) bool { return true }

func EqBytes(a, b []byte) bool       { return string(a) == string(b) }
func EqString(a, b string) bool      { return a == b }
func Yield()                         {}
func WaitQuiescent() { waitQuiescent() }
func MustFinish()                    {}
func MayBlock()                      {}
// GlobalWrites: number of stores to package-level variables of kit packages so far (engine only; natively 0)
func GlobalWrites() int { return 0 }

func ThreadsAlive() int              { return 0 }

// ThreadsAliveIs: in the engine, exactly n other threads are not finished; natively unknown (true).
func ThreadsAliveIs(n int) bool { return true }
func Ghost(f func())                 { f() }
func Nop(ptrToInterface interface{}) {}

// UFBytes natively: a fixed pseudo-random function of (name, args).
func UFBytes(name string, outLen int, args ...[]byte) []byte {
	h := sha256.New()
	h.Write([]byte(name))
	for _, a := range args {
		h.Write([]byte{byte(len(a)), byte(len(a) >> 8)})
		h.Write(a)
	}
	var out []byte
	seed := h.Sum(nil)
	for len(out) < outLen {
		seed2 := sha256.Sum256(seed)
		seed = seed2[:]
		out = append(out, seed...)
	}
	return out[:outLen]
}
func UFInverse(f, g string) {}
func UFLeftInverse(f, g string) {}
func UFCollisionFree(f string)    {}

// RealZone: a zone of the tz database (engine: calendar operations on concrete instants in this zone use the real
// time package)
func RealZone(name string) *time.Location {
	z, err := time.LoadLocation(name)
	if err != nil {
		panic(err)
	}
	return z
}

func FlatTime(name string) time.Time            { return time.Unix(0, num(name)).UTC() }
// CivilTime: an arbitrary instant given by calendar fields (engine: civil-form symbolic time; natively built by time.Date)
func CivilTime(name string, loc *time.Location) time.Time {
	if loc == nil {
		loc = time.UTC
	}
	_ = num(name + ".weekday")
	return time.Date(int(num(name+".year")), time.Month(num(name+".month")), int(num(name+".day")), int(num(name+".hour")),
		int(num(name+".minute")), int(num(name+".second")), int(num(name+".nanosecond")), loc)
}

// CivilTimeYears: CivilTime with the year inside [ylo, yhi]; the engine ties the weekday to the date.
func CivilTimeYears(name string, loc *time.Location, ylo, yhi int) time.Time { return CivilTime(name, loc) }

func TimeFromNanos(ns int64) time.Time          { return time.Unix(0, ns).UTC() }
func TimeNanos(t time.Time) int64               { return t.UnixNano() }
func SpareCap(buf []byte, off, n, c int) []byte { return buf[off : off+n : off+n+c] }
func ByteAt(s []byte, i int) byte               { return s[:cap(s)][i] }
func SameArray(a, b []byte) bool {
	if cap(a) == 0 || cap(b) == 0 {
		return false
	}
	return &a[:cap(a)][cap(a)-1] == &b[:cap(b)][cap(b)-1]
}
func Released(b []byte) bool { return false }

// RunReplay is called from the generated test driver.
func RunReplay(t *testing.T, harnesses map[string]func()) {
	path := os.Getenv("VERIF_REPLAY")
	if path == "" {
		t.Skip("VERIF_REPLAY not set")
	}
	b, err := os.ReadFile(path)
	if err != nil {
		t.Fatalf("replay file: %v", err)
	}
	if err := json.Unmarshal(b, &rf); err != nil {
		t.Fatalf("replay file: %v", err)
	}
	h, ok := harnesses[rf.Harness]
	if !ok {
		t.Fatalf("unknown harness %q", rf.Harness)
	}
	started := make(chan struct{})
	outcome := make(chan string, 1)
	go func() {
		schedInit()
		close(started)
		defer func() {
			if r := recover(); r != nil {
				switch r.(type) {
				case assumeFail:
					outcome <- "assume-failed"
				default:
					outcome <- fmt.Sprintf("panic:%v", r)
				}
				return
			}
			outcome <- "ok"
		}()
		h()
	}()
	timeout := 10 * time.Second
	if s := os.Getenv("VERIF_REPLAY_TIMEOUT"); s != "" {
		if d, err := time.ParseDuration(s); err == nil {
			timeout = d
		}
	}
	<-started
	var res string
	select {
	case id := <-failCh:
		res = "assert:" + id
	case res = <-outcome:
		select {
		case id := <-failCh:
			res = "assert:" + id
		default:
		}
	case <-time.After(timeout):
		res = "timeout"
	}
	mu.Lock()
	cv, _ := json.Marshal(covers)
	ms, _ := json.Marshal(missing)
	mu.Unlock()
	schedMu.Lock()
	dv, sp := diverged, schedPos
	schedMu.Unlock()
	fmt.Printf("VERIF-REPLAY harness=%s outcome=%s covers=%s missing=%s\n", rf.Harness, strconv.Quote(res), cv, ms)
	fmt.Printf("VERIF-SCHED steps=%d/%d diverged=%q\n", sp, len(rf.Schedule), dv)
}

// ---- schedule replay -------------------------------------------------------------------------------------------
// The instrumented build calls Sched(site, n) in front of every statement that contains synchronisation operations.
// The controller makes the instrumented goroutines pass these points in exactly the order of the schedule found by
// the engine; when the schedule is exhausted, or the execution diverges from it, every goroutine runs freely.

var (
	schedMu    sync.Mutex
	schedCond  = sync.NewCond(&schedMu)
	schedPos   int
	schedOff   = true
	diverged   string
	goids      = map[uint64]int{}
	nextThread = 1
)

func goid() uint64 {
	var buf [64]byte
	n := runtime.Stack(buf[:], false)
	f := bytes.Fields(buf[:n])
	if len(f) < 2 {
		return 0
	}
	id, _ := strconv.ParseUint(string(f[1]), 10, 64)
	return id
}

func schedInit() {
	schedMu.Lock()
	defer schedMu.Unlock()
	goids[goid()] = 0
	schedFiles = map[string]bool{}
	for _, st := range rf.Schedule {
		schedFiles[siteFile(st.Site)] = true
	}
	schedOff = len(rf.Schedule) == 0
	if os.Getenv("VERIF_NOSCHED") != "" {
		schedOff = true
	}
}

var schedFiles map[string]bool
var pendingEarly = map[string]int{}

func siteFile(site string) string {
	for i := len(site) - 1; i >= 0; i-- {
		if site[i] == ':' {
			return site[:i]
		}
	}
	return site
}

func NewThread() int {
	schedMu.Lock()
	defer schedMu.Unlock()
	id := nextThread
	nextThread++
	return id
}

func ThreadStart(id int) {
	schedMu.Lock()
	goids[goid()] = id
	schedMu.Unlock()
	schedCond.Broadcast()
}

func ThreadEnd(id int) {}

func release(why string) {
	if !schedOff {
		schedOff = true
		if why != "" {
			diverged = why
		}
	}
	schedCond.Broadcast()
}

func Sched(site string, n int) {
	schedMu.Lock()
	defer schedMu.Unlock()
	if schedOff {
		return
	}
	tid, ok := goids[goid()]
	if !ok {
		return // goroutine started by uninstrumented code
	}
	if !schedFiles[siteFile(site)] {
		return // code the engine did not execute (e.g. a real logger where the encoding used a no-op): not controlled
	}
	deadline := time.Now().Add(3 * time.Second)
	for !schedOff {
		// operations announced early (the statement evaluates instrumented calls before its own operation) are
		// consumed as soon as the schedule reaches them
		for schedPos < len(rf.Schedule) {
			h := rf.Schedule[schedPos]
			k := h.Site + "#" + strconv.Itoa(h.Thread)
			if pendingEarly[k] == 0 {
				break
			}
			pendingEarly[k]--
			schedPos++
			schedCond.Broadcast()
		}
		if schedPos >= len(rf.Schedule) {
			release("")
			return
		}
		head := rf.Schedule[schedPos]
		if head.Thread == tid {
			if head.Site != site {
				// is this statement's operation still to come for this thread? then it was announced early
				for j := schedPos + 1; j < len(rf.Schedule) && j < schedPos+400; j++ {
					if rf.Schedule[j].Thread == tid && rf.Schedule[j].Site == site {
						pendingEarly[site+"#"+strconv.Itoa(tid)] += n
						return
					}
				}
				release(fmt.Sprintf("thread %d is at %s but the schedule expects it at %s (step %d)", tid, site, head.Site, schedPos))
				return
			}
			// this statement may contain up to n operations that were logged one by one
			for k := 0; k < n && schedPos < len(rf.Schedule) && rf.Schedule[schedPos].Thread == tid && rf.Schedule[schedPos].Site == site; k++ {
				schedPos++
			}
			schedCond.Broadcast()
			return
		}
		if time.Now().After(deadline) {
			release(fmt.Sprintf("thread %d did not arrive at %s (step %d) in time; thread %d waiting at %s", head.Thread, head.Site, schedPos, tid, site))
			return
		}
		// wait for our turn (with a timeout so that a missing thread is noticed)
		t := time.AfterFunc(100*time.Millisecond, func() { schedCond.Broadcast() })
		schedCond.Wait()
		t.Stop()
	}
}

// waitQuiescent (native): in the engine the caller continues only when every other thread is blocked or done. Natively
// the goroutines registered with the replay controller are sampled through runtime.Stack: the caller continues once
// none of them is running or runnable in two consecutive samples (bounded by 2 s). Without registered goroutines: a
// short sleep.
func waitQuiescent() {
	me := goid()
	deadline := time.Now().Add(2 * time.Second)
	stable := 0
	for time.Now().Before(deadline) {
		time.Sleep(3 * time.Millisecond)
		if othersBlocked(me) {
			stable++
			if stable >= 3 {
				return
			}
		} else {
			stable = 0
		}
	}
}

func othersBlocked(me uint64) bool {
	schedMu.Lock()
	ids := map[uint64]bool{}
	for g := range goids {
		if g != me {
			ids[g] = true
		}
	}
	schedMu.Unlock()
	if len(ids) == 0 {
		time.Sleep(5 * time.Millisecond)
		return true
	}
	buf := make([]byte, 1<<20)
	n := runtime.Stack(buf, true)
	for _, blk := range bytes.Split(buf[:n], []byte("\n\n")) {
		if !bytes.HasPrefix(blk, []byte("goroutine ")) {
			continue
		}
		f := bytes.Fields(blk)
		if len(f) < 3 {
			continue
		}
		id, _ := strconv.ParseUint(string(f[1]), 10, 64)
		if !ids[id] {
			continue
		}
		st := string(f[2])
		if st == "[running]:" || st == "[runnable]:" || st == "[running," || st == "[runnable," || st == "[syscall]:" || st == "[sleep]:" || st == "[sleep," {
			return false
		}
	}
	return true
}

// Package zzverifos stands in for package os in NATIVE replays of crash-consistency counterexamples: the replay
// build swaps the import of "os" in the file under test for this package (see //verif:nativeimport). Every call is a
// filesystem step; the process "dies" (panic Crash) before step CrashAt; AfterStep lets the harness check the
// on-disk state after every step. The calls themselves are the real ones.
package zzverifos

import "os"

type FileMode = os.FileMode

const ModePerm = os.ModePerm

var (
	ErrNotExist = os.ErrNotExist
	ErrExist    = os.ErrExist
)

type Crash struct{}

var (
	Step      int
	CrashAt   = -1
	AfterStep func()
)

func before() {
	if Step == CrashAt {
		panic(Crash{})
	}
	Step++
}

func after() {
	if AfterStep != nil {
		AfterStep()
	}
}

func MkdirAll(path string, perm os.FileMode) error {
	before()
	defer after()
	return os.MkdirAll(path, perm)
}

func WriteFile(name string, data []byte, perm os.FileMode) error {
	before()
	defer after()
	return os.WriteFile(name, data, perm)
}

func Symlink(oldname, newname string) error {
	before()
	defer after()
	return os.Symlink(oldname, newname)
}

func Rename(oldpath, newpath string) error {
	before()
	defer after()
	return os.Rename(oldpath, newpath)
}

func RemoveAll(path string) error {
	before()
	defer after()
	return os.RemoveAll(path)
}

func Remove(name string) error {
	before()
	defer after()
	return os.Remove(name)
}

// Package zzverifos stands in for package os in NATIVE replays of crash-consistency counterexamples: the replay
// build swaps the import of "os" in the file under test for this package (see //verif:nativeimport). Every call is a
// filesystem step; the process "dies" (panic Crash) before step CrashAt; AfterStep lets the harness check the
// on-disk state after every step. The calls themselves are the real ones.
package zzverifos

import "os"

type FileMode = os.FileMode

const ModePerm = os.ModePerm

var (
	ErrNotExist = os.ErrNotExist
	ErrExist    = os.ErrExist
)

type Crash struct{}

var (
	Step      int
	CrashAt   = -1
	AfterStep func()
)

func before() {
	if Step == CrashAt {
		panic(Crash{})
	}
	Step++
}

func after() {
	if AfterStep != nil {
		AfterStep()
	}
}

func MkdirAll(path string, perm os.FileMode) error {
	before()
	defer after()
	return os.MkdirAll(path, perm)
}

func WriteFile(name string, data []byte, perm os.FileMode) error {
	before()
	defer after()
	return os.WriteFile(name, data, perm)
}

func Symlink(oldname, newname string) error {
	before()
	defer after()
	return os.Symlink(oldname, newname)
}

func Rename(oldpath, newpath string) error {
	before()
	defer after()
	return os.Rename(oldpath, newpath)
}

func RemoveAll(path string) error {
	before()
	defer after()
	return os.RemoveAll(path)
}

func Remove(name string) error {
	before()
	defer after()
	return os.Remove(name)
}

// read-side calls: they do not change the tree, so they are not crash points; passed through

type (
	DirEntry = os.DirEntry
	FileInfo = os.FileInfo
	File     = os.File
)

func ReadDir(name string) ([]os.DirEntry, error)  { return os.ReadDir(name) }
func Readlink(name string) (string, error)        { return os.Readlink(name) }
func ReadFile(name string) ([]byte, error)        { return os.ReadFile(name) }
func Stat(name string) (os.FileInfo, error)       { return os.Stat(name) }
func Lstat(name string) (os.FileInfo, error)      { return os.Lstat(name) }
func IsNotExist(err error) bool                   { return os.IsNotExist(err) }
func IsExist(err error) bool                      { return os.IsExist(err) }
func Getpid() int                                 { return os.Getpid() }
func MkdirTemp(dir, pattern string) (string, error) { return os.MkdirTemp(dir, pattern) }

func Mkdir(name string, perm os.FileMode) error {
	before()
	defer after()
	return os.Mkdir(name, perm)
}

func Chmod(name string, mode os.FileMode) error {
	before()
	defer after()
	return os.Chmod(name, mode)
}

func Link(oldname, newname string) error {
	before()
	defer after()
	return os.Link(oldname, newname)
}

const (
	O_RDONLY = os.O_RDONLY
	O_WRONLY = os.O_WRONLY
	O_RDWR   = os.O_RDWR
	O_APPEND = os.O_APPEND
	O_CREATE = os.O_CREATE
	O_EXCL   = os.O_EXCL
	O_SYNC   = os.O_SYNC
	O_TRUNC  = os.O_TRUNC
)

var (
	ErrInvalid = os.ErrInvalid
	ErrClosed  = os.ErrClosed
)

func OpenFile(name string, flag int, perm os.FileMode) (*os.File, error) {
	if flag&(os.O_CREATE|os.O_TRUNC) != 0 {
		before()
		defer after()
	}
	return os.OpenFile(name, flag, perm)
}

func Create(name string) (*os.File, error) {
	before()
	defer after()
	return os.Create(name)
}

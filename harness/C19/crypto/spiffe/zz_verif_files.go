package spiffe

import (
	"context"
	"crypto/ecdsa"
	"crypto/x509"
	"os"
	"path/filepath"
	"time"

	"github.com/dapr/kit/concurrency/dir"
	kitpem "github.com/dapr/kit/crypto/pem"
	"github.com/dapr/kit/crypto/spiffe/trustanchors"
	"github.com/dapr/kit/zzverif"
	"github.com/dapr/kit/zzverifstubs"
)

//verif:stub crypto/ecdsa.GenerateKey vGenerateKey
//verif:stub crypto/elliptic.P256 vP256
//verif:stub crypto/x509.CreateCertificateRequest vCreateCSR
//verif:stub github.com/spiffe/go-spiffe/v2/svid/x509svid.IDFromCert vIDFromCert
//verif:stub github.com/dapr/kit/crypto/pem.EncodePrivateKey vEncodePrivateKey
//verif:stub github.com/dapr/kit/crypto/pem.EncodeX509Chain vEncodeX509Chain
//verif:stub os.MkdirAll concurrency/dir.vMkdirAll
//verif:stub os.WriteFile concurrency/dir.vWriteFile
//verif:stub os.Symlink concurrency/dir.vSymlink
//verif:stub os.Rename concurrency/dir.vRename
//verif:stub os.RemoveAll concurrency/dir.vRemoveAll
//verif:stub os.Remove concurrency/dir.vRemove
//verif:stub time.Now concurrency/dir.vNow

// PEM encoding is not the subject: a key is published as the index of its generation, a chain as the validity end of
// its leaf (symbolic runs; the native replay uses the real encoders and compares against them)
func vEncodePrivateKey(key any) ([]byte, error) {
	for i, k := range vKeys {
		if k == key.(*ecdsa.PrivateKey) {
			return []byte{'k', byte(i + 1)}, nil
		}
	}
	return []byte{'k', 0}, nil
}

func vEncodeX509Chain(certs []*x509.Certificate) ([]byte, error) {
	for i, c := range vIssued {
		if c == certs[0] {
			return []byte{'c', byte(i + 1)}, nil
		}
	}
	return []byte{'c', 0}, nil
}

var vIssued []*x509.Certificate

var vNativeTarget string

// vAnchors: a trust anchor source whose bundle changes over time (a new version at every call)
type vAnchors struct {
	trustanchors.Interface
	calls int
}

func (a *vAnchors) CurrentTrustAnchors(ctx context.Context) ([]byte, error) {
	a.calls++
	return []byte{'a', byte(a.calls)}, nil
}

// Identity files: with WriteIdentityToFile set, after the initial fetch and after every renewal - also when several
// renewals follow each other within one second, as they do when the issuer hands out certificates that are already
// past half of their validity - the target directory exists and holds exactly key.pem, cert.pem and ca.pem, and they
// are the private key generated for the LATEST fetch, the chain it obtained and the trust anchors current at that
// fetch: the three files always belong together and to the SVID being served; only one version directory remains.
//
//verif:harness prop=C19 name=identity_files threads=3 sched=delay preempt=0 unwind=20 witness=lenient
func VerifIdentityFiles() {
	vKeys = nil
	vCSRKeys = nil
	vIssued = nil
	t0 := zzverif.TimeFromNanos(1_000_000_000_000)
	clk := zzverifstubs.NewClock(t0)
	target := dir.VerifFSTarget
	if zzverif.Symbolic() {
		dir.VerifFSInit()
	} else {
		tmp, err := os.MkdirTemp("", "verif-c19-")
		if err != nil {
			panic(err)
		}
		defer os.RemoveAll(tmp)
		target = filepath.Join(tmp, "target")
		vNativeTarget = target
	}
	fetches := 0
	rounds := 2 + zzverif.Choose("renewals", 2)
	s := New(Options{Log: vNopLogger(), WriteIdentityToFile: &target, TrustAnchors: &vAnchors{},
		RequestSVIDFn: func(ctx context.Context, csr []byte) ([]*x509.Certificate, error) {
			var r []*x509.Certificate
			zzverif.Ghost(func() {
				fetches++
				now := clk.Now()
				// every certificate is already past half of its validity when issued: the next renewal follows at once
				c := vCert(now.Add(-100*time.Second), now.Add(50*time.Second))
				if fetches >= rounds {
					c = vCert(now, now.Add(1000*time.Hour))
				}
				vIssued = append(vIssued, c)
				r = []*x509.Certificate{c}
			})
			return r, nil
		}})
	s.clock = clk
	ctx, cancel := context.WithCancel(context.Background())
	runDone := make(chan struct{})
	go func() {
		s.Run(ctx)
		close(runDone)
	}()
	zzverif.WaitQuiescent()
	// immediate renewals: the rotation loop's timers are due at once; fire them one by one and look at the files
	for i := 0; i < 6 && fetches < rounds; i++ {
		d, ok := clk.NextDeadline()
		zzverif.Assert(ok, "rotation_timer_armed")
		clk.AdvanceTo(d)
		zzverif.WaitQuiescent()
		vCheckFiles(s, fetches)
	}
	zzverif.Assert(fetches == rounds, "renewals_happened")
	vCheckFiles(s, fetches)
	cancel()
	<-runDone
	zzverif.Cover("identity_files_done")
}

func vCheckFiles(s *SPIFFE, fetches int) {
	svid, err := s.SVIDSource().GetX509SVID()
	zzverif.Assert(err == nil, "svid_served")
	if !zzverif.Symbolic() {
		// native replay: the real directory, the real encoders
		for _, name := range []string{"key.pem", "cert.pem", "ca.pem"} {
			_, err := os.ReadFile(filepath.Join(vNativeTarget, name))
			zzverif.Assert(err == nil, "exactly_three_identity_files")
		}
		want, _ := kitpem.EncodeX509Chain(svid.Certificates)
		got, _ := os.ReadFile(filepath.Join(vNativeTarget, "cert.pem"))
		zzverif.Assert(string(want) == string(got), "cert_file_is_the_chain_of_the_latest_fetch")
		wantK, _ := kitpem.EncodePrivateKey(svid.PrivateKey)
		gotK, _ := os.ReadFile(filepath.Join(vNativeTarget, "key.pem"))
		zzverif.Assert(string(wantK) == string(gotK), "key_file_is_the_key_of_the_latest_fetch")
		ents, _ := os.ReadDir(filepath.Dir(vNativeTarget))
		dirs := 0
		for _, e := range ents {
			if e.IsDir() {
				dirs++
			}
		}
		zzverif.Assert(dirs == 1, "only_current_version_remains")
		return
	}
	files, present, isDir := dir.VerifFSResolve()
	zzverif.Assert(present && isDir, "identity_directory_present")
	zzverif.Assert(len(files) == 3, "exactly_three_identity_files")
	k, c, a := files["key.pem"], files["cert.pem"], files["ca.pem"]
	zzverif.Assert(len(k) == 2 && len(c) == 2 && len(a) == 2, "exactly_three_identity_files")
	zzverif.Assert(k[0] == 'k' && int(k[1]) == fetches, "key_file_is_the_key_of_the_latest_fetch")
	zzverif.Assert(c[0] == 'c' && int(c[1]) == fetches, "cert_file_is_the_chain_of_the_latest_fetch")
	zzverif.Assert(a[0] == 'a' && int(a[1]) == fetches, "anchors_file_is_current_at_the_latest_fetch")
	zzverif.Assert(svid.PrivateKey == vKeys[fetches-1] && svid.Certificates[0] == vIssued[fetches-1], "files_belong_to_the_served_svid")
	zzverif.Assert(dir.VerifFSVersionDirs() == 1, "only_current_version_remains")
}

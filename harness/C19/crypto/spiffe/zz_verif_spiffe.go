package spiffe

import (
	"context"
	"crypto/ecdsa"
	"crypto/elliptic"
	"crypto/x509"
	"errors"
	"io"
	"time"

	"github.com/spiffe/go-spiffe/v2/spiffeid"

	"github.com/dapr/kit/logger"
	"github.com/dapr/kit/zzverif"
	"github.com/dapr/kit/zzverifstubs"
)

//verif:stub crypto/ecdsa.GenerateKey vGenerateKey
//verif:stub crypto/elliptic.P256 vP256
//verif:stub crypto/x509.CreateCertificateRequest vCreateCSR
//verif:stub github.com/spiffe/go-spiffe/v2/svid/x509svid.IDFromCert vIDFromCert

var vKeys []*ecdsa.PrivateKey

// key generation: a fresh opaque key per call
func vGenerateKey(c elliptic.Curve, rand io.Reader) (*ecdsa.PrivateKey, error) {
	k := &ecdsa.PrivateKey{}
	vKeys = append(vKeys, k)
	return k, nil
}
func vP256() elliptic.Curve { return nil }
func vCreateCSR(rand io.Reader, template *x509.CertificateRequest, priv any) ([]byte, error) {
	return []byte{byte(len(vKeys))}, nil
}
func vIDFromCert(cert *x509.Certificate) (spiffeid.ID, error) { return spiffeid.ID{}, nil }

func vNopLogger() logger.Logger {
	if !zzverif.Symbolic() {
		return logger.NewLogger("verif-c19")
	}
	var l logger.Logger
	zzverif.Nop(&l)
	return l
}

var errIssuer = errors.New("issuer failure")

// Run, Ready and GetX509SVID are first called from three goroutines in any order: once the initial fetch finished
// they all return; GetX509SVID gives the SVID iff the fetch succeeded.
//
//verif:harness prop=C19 name=ready_order threads=4 sched=delay preempt=3 t_preempt=4 unwind=10 witness=lenient
func VerifReadyOrder() {
	vKeys = nil
	fail := zzverif.Bool("initial_fetch_fails")
	cert := &x509.Certificate{NotBefore: zzverif.TimeFromNanos(0), NotAfter: zzverif.TimeFromNanos(int64(2 * time.Hour))}
	s := New(Options{Log: vNopLogger(), RequestSVIDFn: func(ctx context.Context, csr []byte) ([]*x509.Certificate, error) {
		if fail {
			return nil, errIssuer
		}
		return []*x509.Certificate{cert}, nil
	}})
	s.clock = zzverifstubs.NewClock(zzverif.TimeFromNanos(int64(time.Minute)))
	ctx, cancel := context.WithCancel(context.Background())
	src := s.SVIDSource()
	done := make(chan struct{}, 3)
	var runErr, readyErr, getErr error
	var gotSVID bool
	go func() {
		runErr = s.Run(ctx)
		done <- struct{}{}
	}()
	go func() {
		zzverif.MustFinish()
		readyErr = s.Ready(context.Background())
		done <- struct{}{}
	}()
	go func() {
		zzverif.MustFinish()
		svid, err := src.GetX509SVID()
		getErr = err
		gotSVID = svid != nil
		if svid != nil {
			zzverif.Assert(svid.Certificates[0] == cert, "svid_is_the_fetched_one")
		}
		done <- struct{}{}
	}()
	<-done
	<-done
	if !fail {
		// Run is still rotating: stop it
		cancel()
	}
	<-done
	cancel()
	zzverif.Assert(readyErr == nil, "ready_returns_nil_once_initial_fetch_finished")
	if fail {
		zzverif.Assert(runErr != nil, "run_reports_failed_initial_fetch")
		zzverif.Assert(getErr != nil, "no_svid_after_failed_fetch")
		zzverif.Assert(!gotSVID, "no_svid_after_failed_fetch")
	} else {
		zzverif.Assert(runErr == nil, "run_returns_nil_on_cancel")
		zzverif.Assert(getErr == nil, "svid_after_successful_fetch")
		zzverif.Assert(gotSVID, "svid_after_successful_fetch")
	}
	if zzverif.Symbolic() { // key generation is observed through the stub; natively the real ecdsa.GenerateKey runs
		zzverif.Assert(len(vKeys) == 1, "one_fresh_key_per_fetch")
	}
	zzverif.Cover("ready_order_done")
}

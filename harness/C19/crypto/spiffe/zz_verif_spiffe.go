package spiffe

import (
	"context"
	"crypto/ecdsa"
	"crypto/elliptic"
	"crypto/rand"
	"crypto/x509"
	"errors"
	"io"
	"math/big"
	"net/url"
	"time"

	"github.com/spiffe/go-spiffe/v2/spiffeid"

	"github.com/dapr/kit/logger"
	"github.com/dapr/kit/zzverif"
	"github.com/dapr/kit/zzverifstubs"
)

//verif:stub crypto/ecdsa.GenerateKey vGenerateKey
//verif:stub crypto/elliptic.P256 vP256
//verif:stub crypto/x509.CreateCertificateRequest vCreateCSR
//verif:stub github.com/spiffe/go-spiffe/v2/svid/x509svid.IDFromCert vIDFromCert

var vKeys []*ecdsa.PrivateKey

// key generation: a fresh opaque key per call
func vGenerateKey(c elliptic.Curve, rand io.Reader) (*ecdsa.PrivateKey, error) {
	k := &ecdsa.PrivateKey{}
	vKeys = append(vKeys, k)
	return k, nil
}
func vP256() elliptic.Curve { return nil }
func vCreateCSR(rand io.Reader, template *x509.CertificateRequest, priv any) ([]byte, error) {
	return []byte{byte(len(vKeys))}, nil
}
func vIDFromCert(cert *x509.Certificate) (spiffeid.ID, error) { return spiffeid.ID{}, nil }

func vNopLogger() logger.Logger {
	if !zzverif.Symbolic() {
		return logger.NewLogger("verif-c19")
	}
	var l logger.Logger
	zzverif.Nop(&l)
	return l
}

var errIssuer = errors.New("issuer failure")

// vCert: in the engine a certificate is just its validity window (ID extraction is stubbed); natively a real
// self-signed certificate with a SPIFFE URI SAN, so that the real x509svid.IDFromCert accepts it
func vCert(nb, na time.Time) *x509.Certificate {
	if zzverif.Symbolic() {
		return &x509.Certificate{NotBefore: nb, NotAfter: na}
	}
	key, _ := ecdsa.GenerateKey(elliptic.P256(), rand.Reader)
	u, _ := url.Parse("spiffe://example.org/ns/verif/app")
	tmpl := &x509.Certificate{SerialNumber: big.NewInt(1), NotBefore: nb, NotAfter: na, URIs: []*url.URL{u}}
	der, err := x509.CreateCertificate(rand.Reader, tmpl, tmpl, &key.PublicKey, key)
	if err != nil {
		panic(err)
	}
	c, err := x509.ParseCertificate(der)
	if err != nil {
		panic(err)
	}
	return c
}

// vCSRKey: natively, the public key inside a CSR (to observe key freshness without the key-generation stub)
var vCSRKeys []string

func vNoteCSR(csr []byte) {
	if zzverif.Symbolic() {
		return
	}
	req, err := x509.ParseCertificateRequest(csr)
	if err != nil {
		return
	}
	b, _ := x509.MarshalPKIXPublicKey(req.PublicKey)
	vCSRKeys = append(vCSRKeys, string(b))
}

// Run, Ready and GetX509SVID are first called from three goroutines in any order: once the initial fetch finished
// they all return; GetX509SVID gives the SVID iff the fetch succeeded.
//
//verif:harness prop=C19 name=ready_order threads=4 sched=delay preempt=3 t_preempt=4 unwind=10 witness=lenient
func VerifReadyOrder() {
	vKeys = nil
	fail := zzverif.Bool("initial_fetch_fails")
	cert := vCert(zzverif.TimeFromNanos(0), zzverif.TimeFromNanos(int64(2*time.Hour)))
	s := New(Options{Log: vNopLogger(), RequestSVIDFn: func(ctx context.Context, csr []byte) ([]*x509.Certificate, error) {
		if fail {
			return nil, errIssuer
		}
		return []*x509.Certificate{cert}, nil
	}})
	s.clock = zzverifstubs.NewClock(zzverif.TimeFromNanos(int64(time.Minute)))
	ctx, cancel := context.WithCancel(context.Background())
	src := s.SVIDSource()
	done := make(chan struct{}, 3)
	var runErr, readyErr, getErr error
	var gotSVID bool
	go func() {
		runErr = s.Run(ctx)
		done <- struct{}{}
	}()
	go func() {
		zzverif.MustFinish()
		readyErr = s.Ready(context.Background())
		done <- struct{}{}
	}()
	go func() {
		zzverif.MustFinish()
		svid, err := src.GetX509SVID()
		getErr = err
		gotSVID = svid != nil
		if svid != nil {
			zzverif.Assert(svid.Certificates[0] == cert, "svid_is_the_fetched_one")
		}
		done <- struct{}{}
	}()
	<-done
	<-done
	if !fail {
		// Run is still rotating: stop it
		cancel()
	}
	<-done
	cancel()
	zzverif.Assert(readyErr == nil, "ready_returns_nil_once_initial_fetch_finished")
	if fail {
		zzverif.Assert(runErr != nil, "run_reports_failed_initial_fetch")
		zzverif.Assert(getErr != nil, "no_svid_after_failed_fetch")
		zzverif.Assert(!gotSVID, "no_svid_after_failed_fetch")
	} else {
		zzverif.Assert(runErr == nil, "run_returns_nil_on_cancel")
		zzverif.Assert(getErr == nil, "svid_after_successful_fetch")
		zzverif.Assert(gotSVID, "svid_after_successful_fetch")
	}
	if zzverif.Symbolic() { // key generation is observed through the stub; natively the real ecdsa.GenerateKey runs
		zzverif.Assert(len(vKeys) == 1, "one_fresh_key_per_fetch")
	}
	zzverif.Cover("ready_order_done")
}

// Rotation: the renewal is requested not before the certificate's half-life and no later than one minute after it;
// a failed renewal is retried 10 s later and leaves the served SVID alone; a successful one replaces it; every fetch
// (including the retry) uses a new private key.
//
//verif:harness prop=C19 name=rotation threads=3 sched=delay preempt=2 t_preempt=3 unwind=14 witness=lenient
func VerifRotation() {
	vKeys = nil
	t0 := zzverif.TimeFromNanos(1_000_000_000_000)
	clk := zzverifstubs.NewClock(t0)
	// whole seconds (certificates carry second resolution), an even number so that the half-life is a whole second too
	secs := zzverif.Int64("validity_s")
	zzverif.Assume(secs >= 10)
	zzverif.Assume(secs <= 90)
	validity := 2 * secs * int64(time.Second)
	cert1 := vCert(t0, t0.Add(time.Duration(validity)))
	cert2 := vCert(t0.Add(time.Duration(validity)), t0.Add(time.Duration(validity)+100*time.Hour))
	vCSRKeys = nil
	renewalFails := zzverif.Bool("first_renewal_fails")
	fetches := 0
	var fetchTimes []time.Time
	s := New(Options{Log: vNopLogger(), RequestSVIDFn: func(ctx context.Context, csr []byte) ([]*x509.Certificate, error) {
		var r []*x509.Certificate
		var err error
		vNoteCSR(csr)
		zzverif.Ghost(func() {
			fetches++
			fetchTimes = append(fetchTimes, clk.Now())
			switch {
			case fetches == 1:
				r = []*x509.Certificate{cert1}
			case fetches == 2 && renewalFails:
				err = errIssuer
			default:
				r = []*x509.Certificate{cert2}
			}
		})
		return r, err
	}})
	s.clock = clk
	ctx, cancel := context.WithCancel(context.Background())
	runDone := make(chan struct{})
	go func() {
		s.Run(ctx)
		close(runDone)
	}()
	zzverif.WaitQuiescent()
	zzverif.Assert(fetches == 1, "initial_fetch")
	src := s.SVIDSource()
	half := t0.Add(time.Duration(validity / 2))
	// let time pass, always exactly to the next armed timer
	for i := 0; i < 5 && fetches < 2; i++ {
		d, ok := clk.NextDeadline()
		zzverif.Assert(ok, "rotation_timer_armed")
		zzverif.Assert(!d.After(clk.Now().Add(time.Minute)), "wakes_at_least_every_minute")
		clk.AdvanceTo(d)
		zzverif.WaitQuiescent()
		if clk.Now().Before(half) {
			zzverif.Assert(fetches == 1, "no_renewal_before_half_life")
		}
	}
	zzverif.Assert(fetches == 2, "renewal_requested")
	zzverif.Assert(!fetchTimes[1].Before(half), "no_renewal_before_half_life")
	zzverif.Assert(!fetchTimes[1].After(half.Add(time.Minute)), "renewal_no_later_than_one_minute_after_half_life")
	svid, err := src.GetX509SVID()
	zzverif.Assert(err == nil, "svid_served")
	if renewalFails {
		zzverif.Assert(svid.Certificates[0] == cert1, "failed_renewal_leaves_served_svid_alone")
		d, ok := clk.NextDeadline()
		zzverif.Assert(ok, "retry_timer_armed")
		zzverif.Assert(d.Equal(fetchTimes[1].Add(10*time.Second)), "failed_renewal_retried_after_10s")
		clk.AdvanceTo(d)
		zzverif.WaitQuiescent()
		zzverif.Assert(fetches == 3, "failed_renewal_retried_after_10s")
		svid, err = src.GetX509SVID()
		zzverif.Assert(err == nil, "svid_served")
	}
	zzverif.Assert(svid.Certificates[0] == cert2, "served_svid_is_latest_successful_fetch")
	if zzverif.Symbolic() {
		zzverif.Assert(len(vKeys) == fetches, "one_fresh_key_per_fetch")
		for i := 0; i < len(vKeys); i++ {
			for j := i + 1; j < len(vKeys); j++ {
				zzverif.Assert(vKeys[i] != vKeys[j], "one_fresh_key_per_fetch")
			}
		}
		zzverif.Assert(svid.PrivateKey == vKeys[len(vKeys)-1], "served_key_belongs_to_served_certificate")
	} else {
		zzverif.Assert(len(vCSRKeys) == fetches, "one_fresh_key_per_fetch")
		for i := 0; i < len(vCSRKeys); i++ {
			for j := i + 1; j < len(vCSRKeys); j++ {
				zzverif.Assert(vCSRKeys[i] != vCSRKeys[j], "one_fresh_key_per_fetch")
			}
		}
	}
	cancel()
	<-runDone
	zzverif.Cover("rotation_done")
}

// Second generation: the certificate handed out by the first successful RENEWAL has an arbitrary validity window
// relative to the instant it is issued - backdated by 0..200 s (so possibly already past half of its validity), valid
// for 2..200 s more. The next renewal is requested not before that certificate's half-life and no later than one
// minute after it has passed it (at once, i.e. within a minute, when it was already past it when issued).
//
//verif:harness prop=C19 name=rotation_second_generation threads=3 sched=delay preempt=1 t_preempt=2 unwind=14 witness=lenient solver=z3-new qtimeout=60
func VerifRotationSecondGeneration() {
	vKeys = nil
	vCSRKeys = nil
	t0 := zzverif.TimeFromNanos(1_000_000_000_000)
	clk := zzverifstubs.NewClock(t0)
	cert1 := vCert(t0, t0.Add(40*time.Second)) // half-life at t0 + 20 s
	// one symbolic byte each (a 64-bit symbolic factor times 10^9 stalls the solvers; eight variable bits do not)
	back := int64(zzverif.Bytes("backdated_s", 1)[0])
	ahead := int64(zzverif.Bytes("remaining_s", 1)[0])
	zzverif.Assume(back <= 200)
	zzverif.Assume(ahead >= 2)
	zzverif.Assume(ahead <= 200)
	zzverif.Assume((back+ahead)%2 == 0) // whole-second half-life
	fetches := 0
	var fetchTimes []time.Time
	var cert2 *x509.Certificate
	thirdFails := zzverif.Bool("second_renewal_fails_once")
	s := New(Options{Log: vNopLogger(), RequestSVIDFn: func(ctx context.Context, csr []byte) ([]*x509.Certificate, error) {
		var r []*x509.Certificate
		var ferr error
		vNoteCSR(csr)
		zzverif.Ghost(func() {
			fetches++
			now := clk.Now()
			fetchTimes = append(fetchTimes, now)
			switch fetches {
			case 1:
				r = []*x509.Certificate{cert1}
			case 2:
				cert2 = vCert(now.Add(-time.Duration(back)*time.Second), now.Add(time.Duration(ahead)*time.Second))
				r = []*x509.Certificate{cert2}
			case 3:
				if thirdFails {
					ferr = errIssuer
					break
				}
				r = []*x509.Certificate{vCert(now, now.Add(1000*time.Hour))}
			default:
				r = []*x509.Certificate{vCert(now, now.Add(1000*time.Hour))}
			}
		})
		return r, ferr
	}})
	s.clock = clk
	ctx, cancel := context.WithCancel(context.Background())
	runDone := make(chan struct{})
	go func() {
		s.Run(ctx)
		close(runDone)
	}()
	zzverif.WaitQuiescent()
	zzverif.Assert(fetches == 1, "initial_fetch")
	step := func(until int) {
		for i := 0; i < 8 && fetches < until; i++ {
			d, ok := clk.NextDeadline()
			zzverif.Assert(ok, "rotation_timer_armed")
			zzverif.Assert(!d.After(clk.Now().Add(time.Minute)), "wakes_at_least_every_minute")
			clk.AdvanceTo(d)
			zzverif.WaitQuiescent()
		}
	}
	step(2)
	zzverif.Assert(fetches >= 2, "renewal_requested")
	if fetches == 2 {
		// whatever its validity window looks like, the certificate just fetched is the one being served
		svid, err := s.SVIDSource().GetX509SVID()
		zzverif.Assert(err == nil, "svid_served")
		zzverif.Assert(svid.Certificates[0] == cert2, "served_svid_is_latest_successful_fetch")
	}
	issued := fetchTimes[1]
	half2 := cert2.NotBefore.Add(cert2.NotAfter.Sub(cert2.NotBefore) / 2)
	due := half2
	if due.Before(issued) {
		due = issued
	}
	step(3)
	zzverif.Assert(fetches >= 3, "second_renewal_requested")
	zzverif.Assert(!fetchTimes[2].Before(half2), "no_renewal_before_half_life")
	zzverif.Assert(!fetchTimes[2].After(due.Add(time.Minute)), "renewal_no_later_than_one_minute_after_half_life")
	if thirdFails && fetches == 3 {
		// the failed attempt - however overdue it was - is retried ten seconds after it failed, and meanwhile the
		// certificate fetched last is still served
		d, ok := clk.NextDeadline()
		zzverif.Assert(ok && d.Equal(fetchTimes[2].Add(10*time.Second)), "failed_renewal_retried_after_10s")
		svid, err := s.SVIDSource().GetX509SVID()
		zzverif.Assert(err == nil && svid.Certificates[0] == cert2, "failed_renewal_leaves_served_svid_alone")
		clk.AdvanceTo(d)
		zzverif.WaitQuiescent()
		zzverif.Assert(fetches == 4, "failed_renewal_retried_after_10s")
	}
	cancel()
	<-runDone
	zzverif.Cover("rotation_second_generation_done")
}

package crypto

import (
	"github.com/lestrrat-go/jwx/v2/jwa"
	"github.com/lestrrat-go/jwx/v2/jwk"
)

// vKey is a jwk.Key that hands out the raw symmetric key bytes it was given (the embedded nil interface provides the
// rest of the method set; kit only calls KeyType and Raw).
type vKey struct {
	jwk.Key
	raw []byte
	kt  jwa.KeyType
}

func (k vKey) KeyType() jwa.KeyType {
	if k.kt == "" {
		return jwa.OctetSeq
	}
	return k.kt
}

func (k vKey) Raw(v interface{}) error {
	p, ok := v.(*[]byte)
	if !ok {
		return errNotBytes
	}
	*p = k.raw
	return nil
}

var errNotBytes = errorString("vKey: Raw target is not *[]byte")

type errorString string

func (e errorString) Error() string { return string(e) }

func (k vKey) PublicKey() (jwk.Key, error) { return k, nil }

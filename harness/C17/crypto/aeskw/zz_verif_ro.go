package aeskw

import (
	"github.com/dapr/kit/zzverif"
	"github.com/dapr/kit/zzverifstubs"
)

func vArg(buf []byte, name string, n int) []byte {
	// Go code cannot reach memory in front of a slice, so the offset is fixed (one guard byte); what matters is the
	// spare capacity behind the length, which is symbolic: 0 <= c <= room left in the canary buffer
	off := 1
	c := zzverif.Int(name + "_sparecap")
	zzverif.Assume(c >= 0)
	zzverif.Assume(c <= len(buf)-off-n)
	return zzverif.SpareCap(buf, off, n, c)
}

func vUnchanged(buf, orig []byte, id string) {
	i := zzverif.Int(id + "_i")
	zzverif.Assume(i >= 0)
	zzverif.Assume(i < len(buf))
	zzverif.Assert(buf[i] == orig[i], id)
}

//verif:harness prop=C17 name=aeskw_readonly unwind=60 panic=ok
func VerifKwReadOnly() {
	zzverifstubs.Init()
	canary := zzverif.Bytes("canary", 44)
	orig := append([]byte(nil), canary...)
	n := zzverif.Choose("n", 5) * 8 // 0..32 bytes
	arg := vArg(canary, "in", n)
	blk := &zzverifstubs.Block{Key: zzverif.Bytes("kek", 16)}
	if zzverif.Bool("unwrap") {
		_, _ = Unwrap(blk, arg)
	} else {
		_, _ = Wrap(blk, arg)
	}
	vUnchanged(canary, orig, "aeskw_input_unchanged")
	zzverif.Cover("aeskw_readonly_done")
}

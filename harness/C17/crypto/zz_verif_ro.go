package crypto

import (
	"github.com/dapr/kit/zzverif"
	"github.com/dapr/kit/zzverifstubs"
)

//verif:stub crypto/aes.NewCipher zzverifstubs.NewCipher
//verif:stub crypto/cipher.NewGCM zzverifstubs.NewGCM
//verif:stub crypto/cipher.NewGCMWithTagSize zzverifstubs.NewGCMWithTagSize
//verif:stub crypto/cipher.NewGCMWithNonceSize zzverifstubs.NewGCMWithNonceSize
//verif:stub crypto/cipher.NewCBCEncrypter zzverifstubs.NewCBCEncrypter
//verif:stub crypto/cipher.NewCBCDecrypter zzverifstubs.NewCBCDecrypter
//verif:stub golang.org/x/crypto/chacha20poly1305.New zzverifstubs.NewChaCha
//verif:stub golang.org/x/crypto/chacha20poly1305.NewX zzverifstubs.NewXChaCha
//verif:stub crypto/hmac.New zzverifstubs.HmacNew
//verif:stub crypto/hmac.Equal zzverifstubs.HmacEqual
//verif:stub (crypto.Hash).New zzverifstubs.HashNew

func vArg(buf []byte, name string, n int) []byte {
	// Go code cannot reach memory in front of a slice, so the offset is fixed (one guard byte); what matters is the
	// spare capacity behind the length, which is symbolic: 0 <= c <= room left in the canary buffer
	off := 1
	c := zzverif.Int(name + "_sparecap")
	zzverif.Assume(c >= 0)
	zzverif.Assume(c <= len(buf)-off-n)
	return zzverif.SpareCap(buf, off, n, c)
}

func vUnchanged(buf, orig []byte, id string) {
	i := zzverif.Int(id + "_i")
	zzverif.Assume(i >= 0)
	zzverif.Assume(i < len(buf))
	zzverif.Assert(buf[i] == orig[i], id)
}

type vBufs struct {
	msg, key, nonce, tag, aad         []byte
	omsg, okey, ononce, otag, oaad    []byte
}

func vMkBufs() *vBufs {
	b := &vBufs{msg: zzverif.Bytes("msgbuf", 60), key: zzverif.Bytes("keybuf", 72), nonce: zzverif.Bytes("noncebuf", 48),
		tag: zzverif.Bytes("tagbuf", 48), aad: zzverif.Bytes("aadbuf", 24)}
	b.omsg = append([]byte(nil), b.msg...)
	b.okey = append([]byte(nil), b.key...)
	b.ononce = append([]byte(nil), b.nonce...)
	b.otag = append([]byte(nil), b.tag...)
	b.oaad = append([]byte(nil), b.aad...)
	return b
}

func (b *vBufs) check(prefix string) {
	vUnchanged(b.msg, b.omsg, prefix+"_message_unchanged")
	vUnchanged(b.key, b.okey, prefix+"_key_unchanged")
	vUnchanged(b.nonce, b.ononce, prefix+"_nonce_unchanged")
	vUnchanged(b.tag, b.otag, prefix+"_tag_unchanged")
	vUnchanged(b.aad, b.oaad, prefix+"_aad_unchanged")
}

var vAlgs = []string{
	Algorithm_A128CBC, Algorithm_A256CBC_NOPAD, Algorithm_A128GCM, Algorithm_A256GCM, Algorithm_A128CBC_HS256,
	Algorithm_A256CBC_HS512, Algorithm_A128KW, Algorithm_C20P, Algorithm_XC20P, "bogus",
}

func vKeyLenFor(alg string) int {
	switch alg {
	case Algorithm_A128CBC, Algorithm_A128GCM, Algorithm_A128KW:
		return 16
	case Algorithm_A128CBC_HS256, Algorithm_A256CBC_NOPAD, Algorithm_A256GCM, Algorithm_C20P, Algorithm_XC20P:
		return 32
	case Algorithm_A256CBC_HS512:
		return 64
	}
	return 16
}

func vNonceLenFor(alg string) int {
	switch alg {
	case Algorithm_A128GCM, Algorithm_A256GCM, Algorithm_C20P:
		return 12
	case Algorithm_XC20P:
		return 24
	}
	return 16
}

func vTagLenFor(alg string) int {
	if alg == Algorithm_A256CBC_HS512 {
		return 32
	}
	return 16
}

// right-size arguments (so that the calls get past the size checks and reach the primitives), messages of 0..33 bytes
//
//verif:harness prop=C17 name=sym_encrypt_readonly unwind=80 panic=ok
func VerifSymEncryptReadOnly() {
	zzverifstubs.Init()
	b := vMkBufs()
	alg := vAlgs[zzverif.Choose("alg", len(vAlgs))]
	lens := []int{0, 15, 16}
	if zzverif.Thorough() {
		lens = []int{0, 1, 15, 16, 17, 32}
	}
	n := lens[zzverif.Choose("msglen", len(lens))]
	key := vArg(b.key, "key", vKeyLenFor(alg))
	nonce := vArg(b.nonce, "nonce", vNonceLenFor(alg))
	aad := vArg(b.aad, "aad", 2*zzverif.Choose("aadlen", 2))
	msg := vArg(b.msg, "msg", n)
	_, _, _ = encryptSymmetricForTest(msg, alg, key, nonce, aad)
	b.check("encrypt")
	zzverif.Cover("sym_encrypt_readonly_done")
}

//verif:harness prop=C17 name=sym_decrypt_readonly unwind=80 panic=ok
func VerifSymDecryptReadOnly() {
	zzverifstubs.Init()
	b := vMkBufs()
	alg := vAlgs[zzverif.Choose("alg", len(vAlgs))]
	lens := []int{0, 16}
	if zzverif.Thorough() {
		lens = []int{0, 1, 16, 24, 32}
	}
	n := lens[zzverif.Choose("msglen", len(lens))]
	key := vArg(b.key, "key", vKeyLenFor(alg))
	nonce := vArg(b.nonce, "nonce", vNonceLenFor(alg))
	tag := vArg(b.tag, "tag", vTagLenFor(alg))
	aad := vArg(b.aad, "aad", 2*zzverif.Choose("aadlen", 2))
	msg := vArg(b.msg, "msg", n)
	_, _ = decryptSymmetricForTest(msg, alg, key, nonce, tag, aad)
	b.check("decrypt")
	zzverif.Cover("sym_decrypt_readonly_done")
}

// the per-algorithm dispatch of EncryptSymmetric / DecryptSymmetric without the jwk.Key wrapper (key.Raw only hands
// out the bytes); the switch is the one in symmetric.go
func encryptSymmetricForTest(plaintext []byte, algorithm string, keyBytes, nonce, associatedData []byte) (ciphertext, tag []byte, err error) {
	return EncryptSymmetric(plaintext, algorithm, vKey{raw: keyBytes}, nonce, associatedData)
}

func decryptSymmetricForTest(ciphertext []byte, algorithm string, keyBytes, nonce, tag, associatedData []byte) ([]byte, error) {
	return DecryptSymmetric(ciphertext, algorithm, vKey{raw: keyBytes}, nonce, tag, associatedData)
}

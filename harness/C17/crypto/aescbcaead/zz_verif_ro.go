package aescbcaead

import (
	"crypto/hmac"
	"crypto/sha256"

	"github.com/dapr/kit/zzverif"
	"github.com/dapr/kit/zzverifstubs"
)

//verif:stub crypto/aes.NewCipher zzverifstubs.NewCipher
//verif:stub crypto/cipher.NewCBCEncrypter zzverifstubs.NewCBCEncrypter
//verif:stub crypto/cipher.NewCBCDecrypter zzverifstubs.NewCBCDecrypter
//verif:stub crypto/hmac.New zzverifstubs.HmacNew
//verif:stub crypto/hmac.Equal zzverifstubs.HmacEqual
//verif:stub (crypto.Hash).New zzverifstubs.HashNew

func vArg(buf []byte, name string, n int) []byte {
	off := 1
	c := zzverif.Int(name + "_sparecap")
	zzverif.Assume(c >= 0)
	zzverif.Assume(c <= len(buf)-off-n)
	return zzverif.SpareCap(buf, off, n, c)
}

func vUnchanged(buf, orig []byte, id string) {
	i := zzverif.Int(id + "_i")
	zzverif.Assume(i >= 0)
	zzverif.Assume(i < len(buf))
	zzverif.Assert(buf[i] == orig[i], id)
}

// Seal and Open of the AES-CBC-HMAC AEADs: key, nonce, message and associated data are cut out of canary buffers with
// symbolic spare capacity; after the call (successful or not; Open also with an authentic tag, which the idealised MAC
// lets the solver pick) every byte of those buffers is unchanged. The destination is nil or a separate buffer with
// enough room (the explicit destination is the only memory the call may write).
//
//verif:harness prop=C17 name=cbcaead_readonly unwind=80 panic=ok
func VerifCBCAEADReadOnly() {
	zzverifstubs.Init()
	keyBuf := zzverif.Bytes("keybuf", 40)
	nonceBuf := zzverif.Bytes("noncebuf", 24)
	msgBuf := zzverif.Bytes("msgbuf", 72)
	aadBuf := zzverif.Bytes("aadbuf", 12)
	oKey := append([]byte(nil), keyBuf...)
	oNonce := append([]byte(nil), nonceBuf...)
	oMsg := append([]byte(nil), msgBuf...)
	oAad := append([]byte(nil), aadBuf...)
	key := vArg(keyBuf, "key", 32)
	nonce := vArg(nonceBuf, "nonce", 16)
	aad := vArg(aadBuf, "aad", zzverif.Choose("aad_len", 3))
	a, err := NewAESCBC128SHA256(key)
	zzverif.Assert(err == nil, "new_ok")
	var dst []byte
	if zzverif.Bool("explicit_dst") {
		dst = make([]byte, zzverif.Choose("dst_len", 2), 96)
	}
	if zzverif.Bool("open") {
		l := []int{0, 15, 16, 17, 32, 33, 48}[zzverif.Choose("ct_len", 7)]
		ct := vArg(msgBuf, "ct", l)
		if !zzverif.Symbolic() && l >= 16 {
			// native replay: the solver's tag is authentic only under the idealised MAC; put the real one in place (as a
			// peer who knows the key would) before the snapshot the comparison is made against
			impl := a.(*aesCBCAEAD)
			tag := impl.hmacTag(hmac.New(sha256.New, impl.macKey), aad, nonce, ct[:l-16], 16)
			copy(ct[l-16:], tag)
			oMsg = append([]byte(nil), msgBuf...)
		}
		_, _ = a.Open(dst, nonce, ct, aad)
	} else {
		l := []int{0, 1, 15, 16, 17, 32}[zzverif.Choose("pt_len", 6)]
		pt := vArg(msgBuf, "pt", l)
		_ = a.Seal(dst, nonce, pt, aad)
	}
	vUnchanged(keyBuf, oKey, "cbcaead_key_unchanged")
	vUnchanged(nonceBuf, oNonce, "cbcaead_nonce_unchanged")
	vUnchanged(msgBuf, oMsg, "cbcaead_message_unchanged")
	vUnchanged(aadBuf, oAad, "cbcaead_aad_unchanged")
	zzverif.Cover("cbcaead_readonly_done")
}

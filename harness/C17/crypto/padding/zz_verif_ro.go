package padding

import "github.com/dapr/kit/zzverif"

func vArg(buf []byte, name string, n int) []byte {
	// Go code cannot reach memory in front of a slice, so the offset is fixed (one guard byte); what matters is the
	// spare capacity behind the length, which is symbolic: 0 <= c <= room left in the canary buffer
	off := 1
	c := zzverif.Int(name + "_sparecap")
	zzverif.Assume(c >= 0)
	zzverif.Assume(c <= len(buf)-off-n)
	return zzverif.SpareCap(buf, off, n, c)
}

func vUnchanged(buf, orig []byte, id string) {
	i := zzverif.Int(id + "_i")
	zzverif.Assume(i >= 0)
	zzverif.Assume(i < len(buf))
	zzverif.Assert(buf[i] == orig[i], id)
}

//verif:harness prop=C17 name=pad_readonly unwind=70 panic=ok
func VerifPadReadOnly() {
	canary := zzverif.Bytes("canary", 48)
	orig := append([]byte(nil), canary...)
	n := zzverif.Choose("n", 20)
	size := 16
	if zzverif.Bool("odd_size") {
		size = 3
	}
	arg := vArg(canary, "buf", n)
	_, _ = PadPKCS7(arg, size)
	vUnchanged(canary, orig, "pad_input_unchanged")
	zzverif.Cover("pad_readonly_done")
}

//verif:harness prop=C17 name=unpad_readonly unwind=70 panic=ok
func VerifUnpadReadOnly() {
	canary := zzverif.Bytes("canary", 48)
	orig := append([]byte(nil), canary...)
	n := zzverif.Choose("n", 20)
	arg := vArg(canary, "buf", n)
	_, _ = UnpadPKCS7(arg, 4)
	vUnchanged(canary, orig, "unpad_input_unchanged")
	zzverif.Cover("unpad_readonly_done")
}

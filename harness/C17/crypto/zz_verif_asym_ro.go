package crypto

import (
	"github.com/lestrrat-go/jwx/v2/jwk"

	"github.com/dapr/kit/zzverif"
	"github.com/dapr/kit/zzverifstubs"
)

//verif:stub crypto/rsa.SignPKCS1v15 vSignPKCS1v15
//verif:stub crypto/rsa.VerifyPKCS1v15 vVerifyPKCS1v15
//verif:stub crypto/rsa.SignPSS vSignPSS
//verif:stub crypto/rsa.VerifyPSS vVerifyPSS
//verif:stub crypto/rsa.EncryptOAEP vEncryptOAEP
//verif:stub crypto/rsa.DecryptOAEP vDecryptOAEP
//verif:stub crypto/rsa.EncryptPKCS1v15 vEncryptPKCS1v15
//verif:stub crypto/rsa.DecryptPKCS1v15 vDecryptPKCS1v15
//verif:stub crypto/ed25519.Sign vEdSign
//verif:stub crypto/ed25519.Verify vEdVerify
//verif:stub crypto/elliptic.P256 vP256
//verif:stub crypto/elliptic.P384 vP384
//verif:stub crypto/elliptic.P521 vP521
//verif:stub crypto/ecdsa.SignASN1 vSignASN1
//verif:stub crypto/ecdsa.VerifyASN1 vVerifyASN1
//verif:stub (crypto.Hash).New zzverifstubs.HashNew

// The public-key helpers (sign, verify, encrypt, decrypt) for every algorithm name, with digest / message, signature /
// ciphertext and label cut out of canary buffers with symbolic spare capacity: whatever the outcome, every byte of
// those buffers is unchanged afterwards. The primitives of crypto/rsa, crypto/ecdsa and crypto/ed25519 are contract
// stubs that only read their arguments (the standard library is outside the claim); everything between the exported
// function and the primitive is the real code.
//
//verif:harness prop=C17 name=asym_readonly unwind=80 panic=ok
func VerifAsymReadOnly() {
	zzverifstubs.Init()
	msgBuf := zzverif.Bytes("msgbuf", 72)
	sigBuf := zzverif.Bytes("sigbuf", 72)
	lblBuf := zzverif.Bytes("labelbuf", 8)
	oMsg := append([]byte(nil), msgBuf...)
	oSig := append([]byte(nil), sigBuf...)
	oLbl := append([]byte(nil), lblBuf...)
	check := func() {
		vUnchanged(msgBuf, oMsg, "asym_message_or_digest_unchanged")
		vUnchanged(sigBuf, oSig, "asym_signature_or_ciphertext_unchanged")
		vUnchanged(lblBuf, oLbl, "asym_label_unchanged")
	}
	op := zzverif.Choose("operation", 4)
	ml := 1
	if op != 3 {
		ml = []int{0, 1, 32, 48, 64}[zzverif.Choose("msg_len", 5)]
	}
	msg := vArg(msgBuf, "msg", ml)
	sl := 64
	if op == 1 || op == 3 {
		sl = []int{0, 8, 64}[zzverif.Choose("sig_len", 3)]
	}
	sig := vArg(sigBuf, "sig", sl)
	ll := 0
	if op >= 2 {
		ll = zzverif.Choose("label_len", 2)
	}
	lbl := vArg(lblBuf, "label", ll)
	if op < 2 {
		algs := []string{Algorithm_RS256, Algorithm_RS384, Algorithm_RS512, Algorithm_PS256, Algorithm_PS384, Algorithm_PS512,
			Algorithm_ES256, Algorithm_ES384, Algorithm_ES512, "bogus"}
		ai := zzverif.Choose("sig_alg", len(algs))
		var key jwk.Key
		switch {
		case ai < 6:
			key = vMakeRSAKey("key_id")
		default:
			key = vMakeECKey([]int{256, 384, 521, 256}[ai-6])
		}
		if op == 0 {
			_, _ = SignPrivateKey(msg, algs[ai], key)
		} else {
			_, _ = VerifyPublicKey(msg, sig, algs[ai], key)
		}
		check()
		zzverif.Cover("asym_sig_readonly_done")
		return
	}
	algs := []string{Algorithm_RSA1_5, Algorithm_RSA_OAEP, Algorithm_RSA_OAEP_256, Algorithm_RSA_OAEP_384, Algorithm_RSA_OAEP_512, "bogus"}
	ai := zzverif.Choose("enc_alg", len(algs))
	key := vMakeRSAKey("key_id")
	if op == 2 {
		_, _ = EncryptPublicKey(msg, algs[ai], key, lbl)
	} else {
		_, _ = DecryptPrivateKey(sig, algs[ai], key, lbl)
	}
	check()
	zzverif.Cover("asym_enc_readonly_done")
}

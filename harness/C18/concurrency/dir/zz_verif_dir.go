package dir

import (
	iofs "io/fs"
	"os"
	"path/filepath"
	"sort"
	"strconv"
	"time"

	"github.com/dapr/kit/logger"
	"github.com/dapr/kit/zzverif"
	"github.com/dapr/kit/zzverifos"
)

//verif:stub os.MkdirAll vMkdirAll
//verif:stub os.WriteFile vWriteFile
//verif:stub os.Symlink vSymlink
//verif:stub os.Rename vRename
//verif:stub os.RemoveAll vRemoveAll
//verif:stub os.Remove vRemove
//verif:stub time.Now vNow
//verif:stub os.ReadDir vReadDir
//verif:stub os.Readlink vReadlink
//verif:stub os.ReadFile vReadFile
//verif:stub os.Stat vStat
//verif:stub os.Lstat vLstat
//verif:stub os.Mkdir vMkdir
//verif:stub os.Link vLink
//verif:stub os.OpenFile vOpenFile
//verif:stub os.Create vCreate
//verif:stub (*os.File).Close vFileClose
//verif:stub (*os.File).Write vFileWrite
//verif:stub (*os.File).WriteString vFileWriteString
//verif:stub (*os.File).Sync vFileSync

// ---- a model of a POSIX directory tree ---------------------------------------------------------------------------

type vNode struct {
	kind    int // 1 dir, 2 file, 3 symlink
	content []byte
	target  string
}

type vFS struct {
	nodes   map[string]*vNode
	step    int
	crashAt int
	sets    []map[string][]byte // file sets of all Write calls issued so far
	everPresent bool
	clock   int64
	foreign bool // Write is driven by other code (the C19 harness through the SPIFFE type): the caller checks the contents
}

type vCrash struct{}

var fs *vFS

// every filesystem call is a step; the process may die before any step; the invariant is checked after every step
func (f *vFS) before() {
	if f.step == f.crashAt {
		panic(vCrash{})
	}
	f.step++
}

func vParentIsDir(p string) bool {
	n, ok := fs.nodes[filepath.Dir(p)]
	return ok && n.kind == 1
}

func vMkdirAll(path string, perm os.FileMode) error {
	fs.before()
	var todo []string
	for p := path; p != "/" && p != "."; p = filepath.Dir(p) {
		todo = append(todo, p)
	}
	for i := len(todo) - 1; i >= 0; i-- {
		n, ok := fs.nodes[todo[i]]
		if ok && n.kind != 1 {
			return os.ErrExist
		}
		if !ok {
			fs.nodes[todo[i]] = &vNode{kind: 1}
		}
	}
	vInvariant()
	return nil
}

func vWriteFile(name string, data []byte, perm os.FileMode) error {
	fs.before()
	if !vParentIsDir(name) {
		return os.ErrNotExist
	}
	if n, ok := fs.nodes[name]; ok && n.kind == 1 {
		return os.ErrExist
	}
	fs.nodes[name] = &vNode{kind: 2, content: append([]byte{}, data...)}
	vInvariant()
	return nil
}

func vSymlink(oldname, newname string) error {
	fs.before()
	if _, ok := fs.nodes[newname]; ok {
		return os.ErrExist
	}
	if !vParentIsDir(newname) {
		return os.ErrNotExist
	}
	fs.nodes[newname] = &vNode{kind: 3, target: oldname}
	vInvariant()
	return nil
}

func vRename(oldpath, newpath string) error {
	fs.before()
	o, ok := fs.nodes[oldpath]
	if !ok {
		return os.ErrNotExist
	}
	if n, ok := fs.nodes[newpath]; ok && n.kind == 1 && o.kind != 1 {
		return os.ErrExist
	}
	if n, ok := fs.nodes[newpath]; ok && n.kind == 1 {
		for p := range fs.nodes {
			if len(p) > len(newpath) && p[:len(newpath)+1] == newpath+"/" {
				return os.ErrExist // rename over a non-empty directory
			}
		}
	}
	fs.nodes[newpath] = o // atomic replacement
	delete(fs.nodes, oldpath)
	if o.kind == 1 {
		// a directory moves with everything below it
		var below []string
		for p := range fs.nodes {
			if len(p) > len(oldpath) && p[:len(oldpath)+1] == oldpath+"/" {
				below = append(below, p)
			}
		}
		for _, p := range below {
			fs.nodes[newpath+p[len(oldpath):]] = fs.nodes[p]
			delete(fs.nodes, p)
		}
	}
	vInvariant()
	return nil
}

func vRemoveAll(path string) error {
	fs.before()
	for p := range fs.nodes {
		if p == path || (len(p) > len(path) && p[:len(path)+1] == path+"/") {
			delete(fs.nodes, p)
		}
	}
	vInvariant()
	return nil
}

func vRemove(name string) error {
	fs.before()
	n, ok := fs.nodes[name]
	if !ok {
		return os.ErrNotExist
	}
	if n.kind == 1 {
		for p := range fs.nodes {
			if len(p) > len(name) && p[:len(name)+1] == name+"/" {
				return os.ErrExist // directory not empty
			}
		}
	}
	delete(fs.nodes, name)
	vInvariant()
	return nil
}

// ---- read side of the model (no crash points: they do not change the tree) ----------------------------------------

// resolve follows symbolic links (a bounded number of times)
func vFollow(p string) (*vNode, string, bool) {
	for i := 0; i < 4; i++ {
		n, ok := fs.nodes[p]
		if !ok {
			return nil, p, false
		}
		if n.kind != 3 {
			return n, p, true
		}
		p = n.target
	}
	return nil, p, false
}

type vInfo struct {
	name string
	kind int
	size int64
}

func (i vInfo) Name() string { return i.name }
func (i vInfo) Size() int64  { return i.size }
func (i vInfo) Mode() iofs.FileMode {
	switch i.kind {
	case 1:
		return iofs.ModeDir | 0o755
	case 3:
		return iofs.ModeSymlink | 0o777
	}
	return 0o644
}
func (i vInfo) ModTime() time.Time         { return time.Time{} }
func (i vInfo) IsDir() bool                { return i.kind == 1 }
func (i vInfo) Sys() any                   { return nil }
func (i vInfo) Type() iofs.FileMode        { return i.Mode().Type() }
func (i vInfo) Info() (iofs.FileInfo, error) { return i, nil }

func vReadDir(name string) ([]os.DirEntry, error) {
	n, dirPath, ok := vFollow(name)
	if !ok {
		return nil, os.ErrNotExist
	}
	if n.kind != 1 {
		return nil, os.ErrInvalid
	}
	var names []string
	for p := range fs.nodes {
		if p != dirPath && filepath.Dir(p) == dirPath {
			names = append(names, filepath.Base(p))
		}
	}
	sort.Strings(names)
	var out []os.DirEntry
	for _, nm := range names {
		c := fs.nodes[filepath.Join(dirPath, nm)]
		out = append(out, vInfo{name: nm, kind: c.kind, size: int64(len(c.content))})
	}
	return out, nil
}

func vReadlink(name string) (string, error) {
	n, ok := fs.nodes[name]
	if !ok {
		return "", os.ErrNotExist
	}
	if n.kind != 3 {
		return "", os.ErrInvalid
	}
	return n.target, nil
}

func vReadFile(name string) ([]byte, error) {
	dir, _, ok := vFollow(filepath.Dir(name))
	if !ok || dir.kind != 1 {
		return nil, os.ErrNotExist
	}
	_, dirPath, _ := vFollow(filepath.Dir(name))
	n, _, ok := vFollow(filepath.Join(dirPath, filepath.Base(name)))
	if !ok {
		return nil, os.ErrNotExist
	}
	if n.kind != 2 {
		return nil, os.ErrInvalid
	}
	return append([]byte{}, n.content...), nil
}

func vStat(name string) (os.FileInfo, error) {
	_, dirPath, ok := vFollow(filepath.Dir(name))
	if !ok {
		return nil, os.ErrNotExist
	}
	n, _, ok := vFollow(filepath.Join(dirPath, filepath.Base(name)))
	if !ok {
		return nil, os.ErrNotExist
	}
	return vInfo{name: filepath.Base(name), kind: n.kind, size: int64(len(n.content))}, nil
}

func vLstat(name string) (os.FileInfo, error) {
	n, ok := fs.nodes[name]
	if !ok {
		return nil, os.ErrNotExist
	}
	return vInfo{name: filepath.Base(name), kind: n.kind, size: int64(len(n.content))}, nil
}

// open files: handle -> path (only what a writer of small files needs: create, write, sync, close)
var vOpen = map[*os.File]string{}

func vOpenFile(name string, flag int, perm os.FileMode) (*os.File, error) {
	n, exists := fs.nodes[name]
	if exists && flag&os.O_EXCL != 0 && flag&os.O_CREATE != 0 {
		return nil, os.ErrExist
	}
	if exists && n.kind == 1 {
		return nil, os.ErrInvalid
	}
	if !exists {
		if flag&os.O_CREATE == 0 {
			return nil, os.ErrNotExist
		}
		fs.before() // creating the file changes the tree
		if !vParentIsDir(name) {
			return nil, os.ErrNotExist
		}
		fs.nodes[name] = &vNode{kind: 2}
		vInvariant()
	} else if flag&os.O_TRUNC != 0 {
		fs.before()
		fs.nodes[name] = &vNode{kind: 2}
		vInvariant()
	}
	f := new(os.File)
	vOpen[f] = name
	return f, nil
}

func vCreate(name string) (*os.File, error) {
	return vOpenFile(name, os.O_RDWR|os.O_CREATE|os.O_TRUNC, 0o666)
}

func vFileClose(f *os.File) error {
	if _, ok := vOpen[f]; !ok {
		return os.ErrClosed
	}
	delete(vOpen, f)
	return nil
}

func vFileWrite(f *os.File, p []byte) (int, error) {
	name, ok := vOpen[f]
	if !ok {
		return 0, os.ErrClosed
	}
	fs.before()
	n, exists := fs.nodes[name]
	if !exists {
		return 0, os.ErrNotExist
	}
	fs.nodes[name] = &vNode{kind: 2, content: append(append([]byte{}, n.content...), p...)}
	vInvariant()
	return len(p), nil
}

func vFileWriteString(f *os.File, s string) (int, error) { return vFileWrite(f, []byte(s)) }
func vFileSync(f *os.File) error                           { return nil }

func vLink(oldname, newname string) error {
	fs.before()
	o, ok := fs.nodes[oldname]
	if !ok {
		return os.ErrNotExist
	}
	if o.kind != 2 {
		return os.ErrInvalid
	}
	if _, ok := fs.nodes[newname]; ok {
		return os.ErrExist
	}
	if !vParentIsDir(newname) {
		return os.ErrNotExist
	}
	fs.nodes[newname] = &vNode{kind: 2, content: append([]byte{}, o.content...)} // files are never modified in place
	vInvariant()
	return nil
}

func vMkdir(name string, perm os.FileMode) error {
	fs.before()
	if _, ok := fs.nodes[name]; ok {
		return os.ErrExist
	}
	if !vParentIsDir(name) {
		return os.ErrNotExist
	}
	fs.nodes[name] = &vNode{kind: 1}
	vInvariant()
	return nil
}

func vNow() time.Time {
	fs.clock += 1000
	return zzverif.TimeFromNanos(fs.clock)
}

const vTarget = "/base/target"

// shapes of file sets: bit 0 = file a, bit 1 = file b
var vAll = []int{0, 1, 2, 3}
var vRec = [][]int{{2, 3}, {1}}

// listing of the directory the target resolves to; ok=false when the target is absent
func vResolve() (files map[string][]byte, present bool, isDir bool) {
	n, ok := fs.nodes[vTarget]
	if !ok {
		return nil, false, false
	}
	dirPath := vTarget
	if n.kind == 3 {
		dirPath = n.target
		n, ok = fs.nodes[dirPath]
		if !ok {
			return nil, true, false
		}
	}
	if n.kind != 1 {
		return nil, true, false
	}
	files = map[string][]byte{}
	for p, fn := range fs.nodes {
		if filepath.Dir(p) == dirPath && p != dirPath {
			if fn.kind != 2 {
				return nil, true, false
			}
			files[filepath.Base(p)] = fn.content
		}
	}
	return files, true, true
}

// vSameSet compares names concretely and contents as one Bool term (no fork on symbolic bytes)
func vSameSet(a, b map[string][]byte) bool {
	if len(a) != len(b) {
		return false
	}
	eq := true
	for k, v := range a {
		w, ok := b[k]
		if !ok || len(v) != len(w) {
			return false
		}
		eq = zzverif.And(eq, zzverif.EqBytes(v, w))
	}
	return eq
}

// the property's invariant: target absent, or a directory holding exactly the complete set of one Write call
func vInvariant() {
	files, present, isDir := vResolve()
	if !present {
		// absent only before the first successful write: the switch to a new version is atomic
		zzverif.Assert(!fs.everPresent, "target_never_disappears_once_written")
		return
	}
	fs.everPresent = true
	zzverif.Assert(isDir, "target_resolves_to_directory")
	if fs.foreign {
		return
	}
	match := false
	for _, s := range fs.sets {
		match = zzverif.Or(match, vSameSet(files, s))
	}
	zzverif.Assert(match, "target_holds_exactly_one_complete_set")
}

// ---- entry points for the C19 harness (package spiffe), which drives dir.Write through SPIFFE.fetchIdentityCertificate

func VerifFSInit() {
	fs = &vFS{nodes: map[string]*vNode{"/": {kind: 1}}, crashAt: -1, foreign: true}
}
func VerifFSResolve() (map[string][]byte, bool, bool) { return vResolve() }
func VerifFSVersionDirs() int                          { return vVersionDirs() }

const VerifFSTarget = vTarget

func vVersionDirs() int {
	n := 0
	for p, nd := range fs.nodes {
		if nd.kind == 1 && filepath.Dir(p) == "/base" {
			n++
		}
	}
	return n
}

// an arbitrary file set over the names {a, b}: a subset (shapes = bit mask of allowed shapes), symbolic contents
func vFileSet(tag string, shapes []int) map[string][]byte {
	m := map[string][]byte{}
	k := shapes[zzverif.Choose("set_"+tag, len(shapes))]
	if k&1 != 0 {
		m["a"] = zzverif.Bytes("a_"+tag, 1)
	}
	if k&2 != 0 {
		m["b"] = zzverif.Bytes("b_"+tag, 2)
	}
	return m
}

func vNopLogger() logger.Logger {
	var l logger.Logger
	zzverif.Nop(&l)
	return l
}

// write runs d.Write(set); a crash (panic from the filesystem model) is turned into crashed=true
func vWrite(d *Dir, set map[string][]byte) (err error, crashed bool) {
	defer func() {
		if r := recover(); r != nil {
			if _, ok := r.(vCrash); ok {
				crashed = true
				return
			}
			panic(r)
		}
	}()
	fs.sets = append(fs.sets, set)
	return d.Write(set), false
}

// Scenario: k complete Writes, then a Write during which the process dies before filesystem step c (c symbolic; it
// may also survive), then a fresh Dir on the same target and two more Writes.
//
//verif:harness prop=C18 name=dir_crash unwind=40 maporder=all witness=lenient
func VerifDirCrash() {
	if !zzverif.Symbolic() {
		vNativeDirCrash()
		return
	}
	fs = &vFS{nodes: map[string]*vNode{"/": {kind: 1}}, crashAt: -1}
	d := New(Options{Log: vNopLogger(), Target: vTarget})
	k := zzverif.Choose("complete_writes", 2)
	for i := 0; i < k; i++ {
		err, _ := vWrite(d, vFileSet("w"+strconv.Itoa(i), vAll))
		zzverif.Assert(err == nil, "write_without_crash_succeeds")
		files, present, _ := vResolve()
		zzverif.Assert(present, "target_present_after_write")
		zzverif.Assert(vSameSet(files, fs.sets[len(fs.sets)-1]), "target_shows_new_set_after_write")
		zzverif.Assert(vVersionDirs() == 1, "only_current_version_remains")
	}
	// the crashing write
	c := zzverif.Int("crash_step")
	zzverif.Assume(c >= 0)
	zzverif.Assume(c <= 8)
	fs.crashAt = fs.step + c
	_, crashed := vWrite(d, vFileSet("crash", vAll))
	fs.crashAt = -1
	zzverif.Assume(crashed)
	vInvariant()
	// recovery with a fresh Dir instance (prev is lost)
	d2 := New(Options{Log: vNopLogger(), Target: vTarget})
	for i := 0; i < 2; i++ {
		err, _ := vWrite(d2, vFileSet("r"+strconv.Itoa(i), vRec[i]))
		zzverif.Assert(err == nil, "write_after_crash_succeeds")
		files, present, _ := vResolve()
		zzverif.Assert(present, "target_present_after_recovery")
		zzverif.Assert(vSameSet(files, fs.sets[len(fs.sets)-1]), "target_shows_new_set_after_recovery")
	}
	zzverif.Cover("dir_crash_done")
}

// ---- native replay on the real filesystem -----------------------------------------------------------------------
// In the replay build the import of "os" in dir.go is swapped for a shim (zzverifos) whose calls are the real ones but
// count as filesystem steps: the process "dies" (panic) before step crash_step of the crashing Write, and the on-disk
// state is checked after every step - the same scenario and the same oracle as in the encoding, on a temp directory.
//
//verif:nativeimport concurrency/dir/dir.go os github.com/dapr/kit/zzverifos

func vNativeSet(tag string, shapes []int) map[string][]byte {
	m := map[string][]byte{}
	k := shapes[zzverif.Choose("set_"+tag, len(shapes))]
	if k&1 != 0 {
		m["a"] = zzverif.Bytes("a_"+tag, 1)
	}
	if k&2 != 0 {
		m["b"] = zzverif.Bytes("b_"+tag, 2)
	}
	return m
}

func vNativeDirCrash() {
	root, err := os.MkdirTemp("", "verif-c18-")
	if err != nil {
		panic(err)
	}
	defer os.RemoveAll(root)
	target := filepath.Join(root, "base", "target")
	var sets []map[string][]byte
	everPresent := false
	var failed string
	fail := func(id string) {
		if failed == "" {
			failed = id
		}
	}
	invariant := func() {
		ents, err := os.ReadDir(target)
		if err != nil {
			if everPresent {
				fail("target_never_disappears_once_written")
			}
			return
		}
		everPresent = true
		match := false
		for _, s := range sets {
			if len(ents) != len(s) {
				continue
			}
			ok := true
			for _, e := range ents {
				b, _ := os.ReadFile(filepath.Join(target, e.Name()))
				w, has := s[e.Name()]
				if !has || string(b) != string(w) {
					ok = false
				}
			}
			if ok {
				match = true
			}
		}
		if !match {
			fail("target_holds_exactly_one_complete_set")
		}
	}
	zzverifos.AfterStep = invariant
	write := func(d *Dir, set map[string][]byte) (err error, crashed bool) {
		defer func() {
			if r := recover(); r != nil {
				if _, ok := r.(zzverifos.Crash); ok {
					crashed = true
					return
				}
				panic(r)
			}
		}()
		sets = append(sets, set)
		return d.Write(set), false
	}
	d := New(Options{Log: logger.NewLogger("verif-c18"), Target: target})
	k := zzverif.Choose("complete_writes", 2)
	for i := 0; i < k; i++ {
		err, _ := write(d, vNativeSet("w"+strconv.Itoa(i), vAll))
		zzverif.Assert(err == nil, "write_without_crash_succeeds")
		time.Sleep(time.Millisecond)
	}
	c := zzverif.Int("crash_step")
	set := vNativeSet("crash", vAll)
	zzverifos.CrashAt = zzverifos.Step + c
	write(d, set)
	zzverifos.CrashAt = -1
	invariant()
	d2 := New(Options{Log: logger.NewLogger("verif-c18"), Target: target})
	for i := 0; i < 2; i++ {
		time.Sleep(time.Millisecond)
		s := vNativeSet("r"+strconv.Itoa(i), vRec[i])
		err, _ := write(d2, s)
		zzverif.Assert(failed == "", failedID(failed))
		zzverif.Assert(err == nil, "write_after_crash_succeeds")
		ents, err := os.ReadDir(target)
		zzverif.Assert(err == nil, "target_present_after_recovery")
		zzverif.Assert(len(ents) == len(s), "target_shows_new_set_after_recovery")
		for _, e := range ents {
			b, _ := os.ReadFile(filepath.Join(target, e.Name()))
			zzverif.Assert(string(b) == string(s[e.Name()]), "target_shows_new_set_after_recovery")
		}
	}
	zzverif.Assert(failed == "", failedID(failed))
	zzverif.Cover("dir_crash_done")
}

func failedID(id string) string {
	if id == "" {
		return "none"
	}
	return id
}

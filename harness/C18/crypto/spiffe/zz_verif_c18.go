package spiffe

//verif:stub crypto/ecdsa.GenerateKey vGenerateKey
//verif:stub crypto/elliptic.P256 vP256
//verif:stub crypto/x509.CreateCertificateRequest vCreateCSR
//verif:stub github.com/spiffe/go-spiffe/v2/svid/x509svid.IDFromCert vIDFromCert
//verif:stub github.com/dapr/kit/crypto/pem.EncodePrivateKey vEncodePrivateKey
//verif:stub github.com/dapr/kit/crypto/pem.EncodeX509Chain vEncodeX509Chain
//verif:stub os.MkdirAll concurrency/dir.vMkdirAll
//verif:stub os.WriteFile concurrency/dir.vWriteFile
//verif:stub os.Symlink concurrency/dir.vSymlink
//verif:stub os.Rename concurrency/dir.vRename
//verif:stub os.RemoveAll concurrency/dir.vRemoveAll
//verif:stub os.Remove concurrency/dir.vRemove
//verif:stub time.Now concurrency/dir.vNow

// dir.Write as the SPIFFE type uses it (the property's second anchor): over the life of one SPIFFE instance - the
// initial fetch and several renewals, also within one second - the identity directory always resolves to exactly one
// complete file set, and after every publication only the current version directory remains next to the link (a
// publication that starts from a fresh dir.Dir each time would leave every old version, with its private key, behind).
// Same scenario as the C19 harness identity_files, on the same file-system model.
//
//verif:harness prop=C18 name=spiffe_identity_versions threads=3 sched=delay preempt=0 unwind=20 witness=lenient
func VerifSpiffeIdentityVersions() {
	VerifIdentityFiles()
}

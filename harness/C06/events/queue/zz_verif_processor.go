package queue

import (
	"time"

	"github.com/dapr/kit/zzverif"
	"github.com/dapr/kit/zzverifstubs"
)

type vItem struct {
	key int
	due time.Time
	id  int
}

func (i *vItem) Key() int                 { return i.key }
func (i *vItem) ScheduledTime() time.Time { return i.due }

type vExec struct {
	id int
	at time.Time
}

type vLog struct {
	execs  []vExec
	closed bool
}

// Clients enqueue one item each (different keys, symbolic due times, possibly already due); the second client may
// also dequeue the first client's key. The environment (main) advances the clock to each due time once everybody is
// parked. At the end every live item has run exactly once, not early; nothing is stranded; Close ends the loop.
//
//verif:harness prop=C06 name=processor_two_clients threads=4 sched=delay preempt=3 t_preempt=4 unwind=10 witness=lenient
func VerifProcessorTwoClients() {
	start := zzverif.TimeFromNanos(1_000_000_000)
	clk := zzverifstubs.NewClock(start)
	log := &vLog{}
	p := NewProcessor[int, *vItem](func(r *vItem) {
		zzverif.Ghost(func() {
			zzverif.Assert(!log.closed, "no_callback_after_close")
			log.execs = append(log.execs, vExec{id: r.id, at: clk.Now()})
		})
	}).WithClock(clk)

	d1 := zzverif.Int64("delay1")
	d2 := zzverif.Int64("delay2")
	zzverif.Assume(d1 >= 0)
	zzverif.Assume(d1 <= 10_000_000)
	zzverif.Assume(d2 >= 0)
	zzverif.Assume(d2 <= 10_000_000)
	it1 := &vItem{key: 1, due: start.Add(time.Duration(d1)), id: 1}
	it2 := &vItem{key: 2, due: start.Add(time.Duration(d2)), id: 2}
	dequeue1 := zzverif.Bool("client2_dequeues_key1")
	var enq1Done, deq1Done bool
	done := make(chan struct{}, 2)
	if zzverif.Thorough() {
		// two concurrent clients
		go func() {
			p.Enqueue(it1)
			zzverif.Ghost(func() { enq1Done = true })
			done <- struct{}{}
		}()
		go func() {
			p.Enqueue(it2)
			if dequeue1 {
				p.Dequeue(1)
				zzverif.Ghost(func() { deq1Done = true })
			}
			done <- struct{}{}
		}()
		<-done
		<-done
	} else {
		// one client issuing the same operations in sequence (the loop goroutine and the environment are concurrent)
		go func() {
			p.Enqueue(it1)
			p.Enqueue(it2)
			if dequeue1 {
				p.Dequeue(1)
			}
			done <- struct{}{}
		}()
		<-done
	}
	// environment: let time pass, to each due time in turn
	first, second := it1.due, it2.due
	if second.Before(first) {
		first, second = second, first
	}
	ran := func(id int) bool {
		for _, e := range log.execs {
			if e.id == id {
				return true
			}
		}
		return false
	}
	// on time: once the clock has reached an item's due time and everybody is parked again, a live item has run
	onTime := func(now time.Time) {
		if !dequeue1 && !it1.due.After(now) {
			zzverif.Assert(ran(1), "live_item_runs_when_due")
		}
		if !it2.due.After(now) {
			zzverif.Assert(ran(2), "live_item_runs_when_due")
		}
	}
	zzverif.WaitQuiescent()
	onTime(start)
	bothPending := !ran(1) && !ran(2)
	clk.AdvanceTo(first)
	zzverif.WaitQuiescent()
	onTime(first)
	clk.AdvanceTo(second)
	zzverif.WaitQuiescent()
	onTime(second)
	clk.AdvanceTo(second.Add(time.Millisecond))
	zzverif.WaitQuiescent()

	n1, n2 := 0, 0
	for _, e := range log.execs {
		if e.id == 1 {
			n1++
			zzverif.Assert(!e.at.Before(it1.due.Add(-500*time.Microsecond)), "not_early")
		} else {
			n2++
			zzverif.Assert(!e.at.Before(it2.due.Add(-500*time.Microsecond)), "not_early")
		}
	}
	zzverif.Assert(n1 <= 1, "at_most_once")
	zzverif.Assert(n2 <= 1, "at_most_once")
	// callbacks in scheduled-time order, for items that were both queued (and the system parked) before either ran
	if bothPending && n1 == 1 && n2 == 1 && !it1.due.Equal(it2.due) {
		firstRan := log.execs[0].id
		wantFirst := 1
		if it2.due.Before(it1.due) {
			wantFirst = 2
		}
		zzverif.Assert(firstRan == wantFirst, "callbacks_in_scheduled_time_order")
	}
	zzverif.Assert(n2 == 1, "live_item_executed_none_stranded")
	if !dequeue1 {
		zzverif.Assert(n1 == 1, "live_item_executed_none_stranded")
	}
	_ = enq1Done
	_ = deq1Done
	p.Close()
	zzverif.Ghost(func() { log.closed = true })
	zzverif.Assert(zzverif.ThreadsAliveIs(0), "loop_goroutine_gone_after_close")
	zzverif.Cover("processor_two_clients_done")
}

// Replacing the head item (same key, later time) while the loop is about to run it: the replaced item is never
// executed, the new one runs exactly once and not before its own time.
//
//verif:harness prop=C06 name=processor_replace_head threads=3 sched=delay preempt=3 t_preempt=4 unwind=10 witness=lenient
func VerifProcessorReplaceHead() {
	start := zzverif.TimeFromNanos(1_000_000_000)
	clk := zzverifstubs.NewClock(start)
	log := &vLog{}
	p := NewProcessor[int, *vItem](func(r *vItem) {
		zzverif.Ghost(func() { log.execs = append(log.execs, vExec{id: r.id, at: clk.Now()}) })
	}).WithClock(clk)
	d2 := zzverif.Int64("new_delay")
	zzverif.Assume(d2 >= 1_000_000)
	zzverif.Assume(d2 <= 10_000_000)
	old := &vItem{key: 1, due: start, id: 1} // due at once
	repl := &vItem{key: 1, due: start.Add(time.Duration(d2)), id: 2}
	viaDequeue := zzverif.Bool("dequeue_then_enqueue")
	p.Enqueue(old)
	// the client replaces it right away: the loop may or may not have run the old item yet
	if viaDequeue {
		p.Dequeue(1)
	}
	p.Enqueue(repl)
	zzverif.WaitQuiescent()
	for _, e := range log.execs {
		if e.id == 2 {
			zzverif.Assert(!e.at.Before(repl.due.Add(-500*time.Microsecond)), "not_early")
		}
	}
	clk.AdvanceTo(repl.due)
	zzverif.WaitQuiescent()
	n1, n2 := 0, 0
	for _, e := range log.execs {
		if e.id == 1 {
			n1++
		} else {
			n2++
			zzverif.Assert(!e.at.Before(repl.due.Add(-500*time.Microsecond)), "not_early")
		}
	}
	zzverif.Assert(n1 <= 1, "at_most_once")
	zzverif.Assert(n2 == 1, "replacement_executed_exactly_once")
	p.Close()
	zzverif.Cover("processor_replace_head_done")
}

// Close called twice - concurrently, or one after the other - while a callback is in progress: NO Close call returns
// while the callback is still running (each waits for the loop, not only the call that stopped it), and nothing runs
// afterwards.
//
//verif:harness prop=C06 name=processor_close_twice threads=4 sched=delay preempt=2 t_preempt=3 unwind=10 witness=lenient
func VerifProcessorCloseTwice() {
	start := zzverif.TimeFromNanos(1_000_000_000)
	clk := zzverifstubs.NewClock(start)
	running, finished := false, 0
	release := make(chan struct{})
	p := NewProcessor[int, *vItem](func(r *vItem) {
		zzverif.Ghost(func() { running = true })
		<-release
		zzverif.Ghost(func() { running = false; finished++ })
	}).WithClock(clk)
	p.Enqueue(&vItem{key: 1, due: start, id: 1}) // due at once
	p.Enqueue(&vItem{key: 2, due: start.Add(time.Second), id: 2})
	zzverif.WaitQuiescent() // the callback for item 1 is in progress, blocked
	zzverif.Assert(running, "due_item_is_running")
	returned := 0
	for i := 0; i < 2; i++ {
		go func() {
			p.Close()
			zzverif.Ghost(func() {
				returned++
				if running {
					zzverif.Fail("close_returned_while_callback_running")
				}
			})
		}()
	}
	zzverif.WaitQuiescent()
	zzverif.Assert(returned == 0, "no_close_returns_while_callback_running")
	release <- struct{}{}
	zzverif.WaitQuiescent()
	zzverif.Assert(returned == 2, "both_close_calls_return_after_callback")
	clk.Advance(2 * time.Second)
	zzverif.WaitQuiescent()
	zzverif.Assert(finished == 1, "nothing_runs_after_close")
	p.Close() // a third one, afterwards, returns at once
	zzverif.Assert(zzverif.ThreadsAliveIs(0), "loop_goroutine_gone_after_close")
	zzverif.Cover("processor_close_twice_done")
}

// vHeapOK: the queue's representation invariant - every parent is not later than its children, every item knows its
// position, and the key index maps each key to its item
func vHeapOK(q *queue[int, *vItem]) bool {
	h := *q.heap
	ok := len(q.items) == len(h)
	for i, it := range h {
		if it == nil || it.index != i || q.items[it.value.key] != it {
			return false
		}
		if i > 0 {
			parent := h[(i-1)/2]
			ok = zzverif.And(ok, !it.value.due.Before(parent.value.due))
		}
	}
	return ok
}

// One queue operation from ANY valid state (inductive step, so that queues built by any history are covered, not only
// the few items a scheduling harness can enqueue): a heap of 0..7 items with symbolic due times satisfying the
// invariant; after Insert (new key / replacing an existing key with an earlier or later time), Remove (any position /
// absent key), Update or Pop the invariant holds again, the size is right, Pop returned an item not later than any
// other, and Peek shows an item not later than any other - which is what makes callbacks come in scheduled-time order.
//
//verif:harness prop=C06 name=queue_heap_step unwind=24 qtimeout=60
func VerifQueueHeapStep() {
	n := zzverif.Choose("size", 8)
	q := newQueue[int, *vItem]()
	base := zzverif.TimeFromNanos(1_000_000_000)
	for i := 0; i < n; i++ {
		d := zzverif.Int64("due")
		zzverif.Assume(d >= 0)
		zzverif.Assume(d <= 1_000_000)
		it := &queueItem[int, *vItem]{value: &vItem{key: i, due: base.Add(time.Duration(d)), id: i}, index: i}
		*q.heap = append(*q.heap, it)
		q.items[i] = it
	}
	zzverif.Assume(vHeapOK(&q))
	minOK := func() {
		if q.Len() == 0 {
			return
		}
		top, ok := q.Peek()
		zzverif.Assert(ok, "peek_on_non_empty")
		for _, it := range *q.heap {
			zzverif.Assert(!it.value.due.Before(top.due), "peek_is_earliest")
		}
	}
	nd := zzverif.Int64("new_due")
	zzverif.Assume(nd >= 0)
	zzverif.Assume(nd <= 1_000_000)
	switch zzverif.Choose("op", 5) {
	case 0: // a new key
		q.Insert(&vItem{key: 100, due: base.Add(time.Duration(nd)), id: 100}, zzverif.Bool("replace_flag"))
		zzverif.Assert(q.Len() == n+1, "insert_new_key_grows")
	case 1: // an existing key
		zzverif.Assume(n > 0)
		k := zzverif.Choose("key", n)
		repl := zzverif.Bool("replace_flag")
		q.Insert(&vItem{key: k, due: base.Add(time.Duration(nd)), id: 200}, repl)
		zzverif.Assert(q.Len() == n, "insert_existing_key_keeps_size")
		zzverif.Assert((q.items[k].value.id == 200) == repl, "replaced_iff_asked")
	case 2:
		k := zzverif.Choose("key", n+1) // n = an absent key
		if k == n {
			k = 999
		}
		q.Remove(k)
		_, still := q.items[k]
		zzverif.Assert(!still, "removed_key_gone")
		if k == 999 {
			zzverif.Assert(q.Len() == n, "remove_absent_is_noop")
		} else {
			zzverif.Assert(q.Len() == n-1, "remove_shrinks")
		}
	case 3:
		zzverif.Assume(n > 0)
		k := zzverif.Choose("key", n)
		q.Update(&vItem{key: k, due: base.Add(time.Duration(nd)), id: 300})
		zzverif.Assert(q.Len() == n && q.items[k].value.id == 300, "update_replaces_in_place")
	case 4:
		it, ok := q.Pop()
		zzverif.Assert(ok == (n > 0), "pop_iff_non_empty")
		if ok {
			zzverif.Assert(q.Len() == n-1, "pop_shrinks")
			for _, o := range *q.heap {
				zzverif.Assert(!o.value.due.Before(it.due), "pop_returns_earliest")
			}
		}
	}
	// the invariant again, one obligation per item (smaller queries than one conjunction)
	zzverif.Assert(len(q.items) == len(*q.heap), "queue_invariant_preserved")
	for i, it := range *q.heap {
		zzverif.Assert(it != nil && it.index == i && q.items[it.value.key] == it, "queue_invariant_preserved")
		if i > 0 {
			zzverif.Assert(!it.value.due.Before((*q.heap)[(i-1)/2].value.due), "queue_invariant_preserved")
		}
	}
	minOK()
	zzverif.Cover("queue_heap_step_done")
}

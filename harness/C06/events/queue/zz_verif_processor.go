package queue

import (
	"time"

	"github.com/dapr/kit/zzverif"
	"github.com/dapr/kit/zzverifstubs"
)

type vItem struct {
	key int
	due time.Time
	id  int
}

func (i *vItem) Key() int                 { return i.key }
func (i *vItem) ScheduledTime() time.Time { return i.due }

type vExec struct {
	id int
	at time.Time
}

type vLog struct {
	execs  []vExec
	closed bool
}

// Clients enqueue one item each (different keys, symbolic due times, possibly already due); the second client may
// also dequeue the first client's key. The environment (main) advances the clock to each due time once everybody is
// parked. At the end every live item has run exactly once, not early; nothing is stranded; Close ends the loop.
//
//verif:harness prop=C06 name=processor_two_clients threads=4 sched=delay preempt=3 t_preempt=4 unwind=10 witness=lenient
func VerifProcessorTwoClients() {
	start := zzverif.TimeFromNanos(1_000_000_000)
	clk := zzverifstubs.NewClock(start)
	log := &vLog{}
	p := NewProcessor[int, *vItem](func(r *vItem) {
		zzverif.Ghost(func() {
			zzverif.Assert(!log.closed, "no_callback_after_close")
			log.execs = append(log.execs, vExec{id: r.id, at: clk.Now()})
		})
	}).WithClock(clk)

	d1 := zzverif.Int64("delay1")
	d2 := zzverif.Int64("delay2")
	zzverif.Assume(d1 >= 0)
	zzverif.Assume(d1 <= 10_000_000)
	zzverif.Assume(d2 >= 0)
	zzverif.Assume(d2 <= 10_000_000)
	it1 := &vItem{key: 1, due: start.Add(time.Duration(d1)), id: 1}
	it2 := &vItem{key: 2, due: start.Add(time.Duration(d2)), id: 2}
	dequeue1 := zzverif.Bool("client2_dequeues_key1")
	var enq1Done, deq1Done bool
	done := make(chan struct{}, 2)
	if zzverif.Thorough() {
		// two concurrent clients
		go func() {
			p.Enqueue(it1)
			zzverif.Ghost(func() { enq1Done = true })
			done <- struct{}{}
		}()
		go func() {
			p.Enqueue(it2)
			if dequeue1 {
				p.Dequeue(1)
				zzverif.Ghost(func() { deq1Done = true })
			}
			done <- struct{}{}
		}()
		<-done
		<-done
	} else {
		// one client issuing the same operations in sequence (the loop goroutine and the environment are concurrent)
		go func() {
			p.Enqueue(it1)
			p.Enqueue(it2)
			if dequeue1 {
				p.Dequeue(1)
			}
			done <- struct{}{}
		}()
		<-done
	}
	// environment: let time pass, to each due time in turn
	first, second := it1.due, it2.due
	if second.Before(first) {
		first, second = second, first
	}
	ran := func(id int) bool {
		for _, e := range log.execs {
			if e.id == id {
				return true
			}
		}
		return false
	}
	// on time: once the clock has reached an item's due time and everybody is parked again, a live item has run
	onTime := func(now time.Time) {
		if !dequeue1 && !it1.due.After(now) {
			zzverif.Assert(ran(1), "live_item_runs_when_due")
		}
		if !it2.due.After(now) {
			zzverif.Assert(ran(2), "live_item_runs_when_due")
		}
	}
	zzverif.WaitQuiescent()
	onTime(start)
	bothPending := !ran(1) && !ran(2)
	clk.AdvanceTo(first)
	zzverif.WaitQuiescent()
	onTime(first)
	clk.AdvanceTo(second)
	zzverif.WaitQuiescent()
	onTime(second)
	clk.AdvanceTo(second.Add(time.Millisecond))
	zzverif.WaitQuiescent()

	n1, n2 := 0, 0
	for _, e := range log.execs {
		if e.id == 1 {
			n1++
			zzverif.Assert(!e.at.Before(it1.due.Add(-500*time.Microsecond)), "not_early")
		} else {
			n2++
			zzverif.Assert(!e.at.Before(it2.due.Add(-500*time.Microsecond)), "not_early")
		}
	}
	zzverif.Assert(n1 <= 1, "at_most_once")
	zzverif.Assert(n2 <= 1, "at_most_once")
	// callbacks in scheduled-time order, for items that were both queued (and the system parked) before either ran
	if bothPending && n1 == 1 && n2 == 1 && !it1.due.Equal(it2.due) {
		firstRan := log.execs[0].id
		wantFirst := 1
		if it2.due.Before(it1.due) {
			wantFirst = 2
		}
		zzverif.Assert(firstRan == wantFirst, "callbacks_in_scheduled_time_order")
	}
	zzverif.Assert(n2 == 1, "live_item_executed_none_stranded")
	if !dequeue1 {
		zzverif.Assert(n1 == 1, "live_item_executed_none_stranded")
	}
	_ = enq1Done
	_ = deq1Done
	p.Close()
	zzverif.Ghost(func() { log.closed = true })
	zzverif.Assert(zzverif.ThreadsAliveIs(0), "loop_goroutine_gone_after_close")
	zzverif.Cover("processor_two_clients_done")
}

// Replacing the head item (same key, later time) while the loop is about to run it: the replaced item is never
// executed, the new one runs exactly once and not before its own time.
//
//verif:harness prop=C06 name=processor_replace_head threads=3 sched=delay preempt=3 t_preempt=4 unwind=10 witness=lenient
func VerifProcessorReplaceHead() {
	start := zzverif.TimeFromNanos(1_000_000_000)
	clk := zzverifstubs.NewClock(start)
	log := &vLog{}
	p := NewProcessor[int, *vItem](func(r *vItem) {
		zzverif.Ghost(func() { log.execs = append(log.execs, vExec{id: r.id, at: clk.Now()}) })
	}).WithClock(clk)
	d2 := zzverif.Int64("new_delay")
	zzverif.Assume(d2 >= 1_000_000)
	zzverif.Assume(d2 <= 10_000_000)
	old := &vItem{key: 1, due: start, id: 1} // due at once
	repl := &vItem{key: 1, due: start.Add(time.Duration(d2)), id: 2}
	viaDequeue := zzverif.Bool("dequeue_then_enqueue")
	p.Enqueue(old)
	// the client replaces it right away: the loop may or may not have run the old item yet
	if viaDequeue {
		p.Dequeue(1)
	}
	p.Enqueue(repl)
	zzverif.WaitQuiescent()
	for _, e := range log.execs {
		if e.id == 2 {
			zzverif.Assert(!e.at.Before(repl.due.Add(-500*time.Microsecond)), "not_early")
		}
	}
	clk.AdvanceTo(repl.due)
	zzverif.WaitQuiescent()
	n1, n2 := 0, 0
	for _, e := range log.execs {
		if e.id == 1 {
			n1++
		} else {
			n2++
			zzverif.Assert(!e.at.Before(repl.due.Add(-500*time.Microsecond)), "not_early")
		}
	}
	zzverif.Assert(n1 <= 1, "at_most_once")
	zzverif.Assert(n2 == 1, "replacement_executed_exactly_once")
	p.Close()
	zzverif.Cover("processor_replace_head_done")
}

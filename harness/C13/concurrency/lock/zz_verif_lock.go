package lock

import (
	"context"
	"errors"
	"time"

	"github.com/dapr/kit/zzverif"
	"github.com/dapr/kit/zzverifstubs"
)

//verif:stub time.After vAfter
//verif:stub time.NewTimer vNewTimer
//verif:stub (*time.Timer).Stop zzverifstubs.StdTimerStop
//verif:stub (*time.Timer).Reset zzverifstubs.StdTimerReset

var vClk *zzverifstubs.Clock

func vAfter(d time.Duration) <-chan time.Time { return vClk.After(d) }

// time.NewTimer on the harness clock too (an implementation may use either form)
func vNewTimer(d time.Duration) *time.Timer {
	zzverifstubs.StdClock = vClk
	return zzverifstubs.StdNewTimer(d)
}

// lock.Context: exclusion between holders; a waiter whose context ends gets the error and holds nothing
//
//verif:harness prop=C13 name=lock_context threads=4 sched=delay preempt=3 t_preempt=4 unwind=8 witness=lenient
func VerifLockContext() {
	l := NewContext()
	inside := 0
	ctxC, cancelC := context.WithCancel(context.Background())
	var errC error
	done := make(chan struct{}, 3)
	section := func() {
		zzverif.Ghost(func() { inside++; zzverif.Assert(inside == 1, "lock_context_exclusive") })
		zzverif.Yield()
		zzverif.Ghost(func() { zzverif.Assert(inside == 1, "lock_context_exclusive"); inside-- })
	}
	go func() {
		zzverif.Assert(l.Lock(context.Background()) == nil, "lock_without_cancellation_succeeds")
		section()
		l.Unlock()
		done <- struct{}{}
	}()
	go func() {
		zzverif.Assert(l.RLock(context.Background()) == nil, "lock_without_cancellation_succeeds")
		section()
		l.RUnlock()
		done <- struct{}{}
	}()
	go func() { // this one may be cancelled while it waits
		errC = l.Lock(ctxC)
		if errC == nil {
			section()
			l.Unlock()
		} else {
			zzverif.Assert(errors.Is(errC, context.Canceled), "cancelled_waiter_gets_context_error")
		}
		done <- struct{}{}
	}()
	cancelC()
	<-done
	<-done
	<-done
	// whatever happened, nobody holds the lock now: it can be taken at once
	ctx, cancel := context.WithCancel(context.Background())
	cancel()
	_ = ctx
	zzverif.Assert(l.Lock(context.Background()) == nil, "lock_free_after_everybody_left")
	l.Unlock()
	zzverif.Cover("lock_context_done")
}

var errOuter = errors.New("outer lock wants in")

// OuterCancel: a writer is granted only after the earlier reader released or was cancelled with the configured cause,
// and not before the grace period; no reader is admitted until the writer unlocks; the reader's context is not
// cancelled for any other reason.
//
//verif:harness prop=C13 name=outer_cancel threads=8 sched=delay preempt=2 t_preempt=3 unwind=10 witness=lenient
func VerifOuterCancel() {
	start := zzverif.TimeFromNanos(1_000_000_000_000)
	vClk = zzverifstubs.NewClock(start)
	grace := 5 * time.Second
	o := NewOuterCancel(errOuter, grace)
	runCtx, stop := context.WithCancel(context.Background())
	go o.Run(runCtx)
	rctx, rcancel, err := o.RLock(context.Background())
	zzverif.Assert(err == nil, "reader_admitted")
	// the reader may have held its lock for any time - also longer than the grace period - before a writer shows up:
	// the grace period runs from the writer's arrival
	held := []time.Duration{0, grace / 2, grace, 3 * grace}[zzverif.Choose("reader_held_before_writer", 4)]
	vClk.Advance(held)
	zzverif.WaitQuiescent()
	zzverif.Assert(rctx.Err() == nil, "reader_not_cancelled_without_a_writer")
	var writerIn, writerOut, reader2In bool
	wdone := make(chan struct{}, 1)
	wrelease := make(chan struct{})
	go func() {
		unlock := o.Lock()
		zzverif.Ghost(func() { writerIn = true })
		<-wrelease
		zzverif.Ghost(func() { writerOut = true })
		unlock()
		wdone <- struct{}{}
	}()
	zzverif.WaitQuiescent()
	zzverif.Assert(!writerIn, "writer_waits_for_reader")
	zzverif.Assert(rctx.Err() == nil, "reader_not_cancelled_before_grace")
	releases := zzverif.Bool("reader_releases_promptly")
	if releases {
		rcancel()
	} else {
		vClk.Advance(grace - time.Second)
		zzverif.WaitQuiescent()
		zzverif.Assert(!writerIn, "writer_not_granted_before_grace")
		zzverif.Assert(rctx.Err() == nil, "reader_not_cancelled_before_grace")
		vClk.Advance(time.Second)
	}
	zzverif.WaitQuiescent()
	zzverif.Assert(writerIn, "writer_granted_after_reader_left_or_grace")
	zzverif.Assert(rctx.Err() != nil, "reader_context_ended")
	if !releases {
		zzverif.Assert(context.Cause(rctx) == errOuter, "reader_cancelled_with_configured_cause")
	}
	// a new reader while the writer holds: not admitted until the writer unlocks
	r2done := make(chan struct{}, 1)
	go func() {
		_, c2, err2 := o.RLock(context.Background())
		zzverif.Ghost(func() {
			reader2In = true
			zzverif.Assert(writerOut, "no_reader_admitted_until_writer_unlocks")
		})
		if err2 == nil {
			c2()
		}
		r2done <- struct{}{}
	}()
	zzverif.WaitQuiescent()
	zzverif.Assert(!reader2In, "no_reader_admitted_until_writer_unlocks")
	close(wrelease)
	<-wdone
	<-r2done
	stop()
	zzverif.Cover("outer_cancel_done")
}

// A reader whose context is cancelled while it is acquiring: RLock either admits it (and it then releases) or reports
// an error - and an acquisition that reported an error holds nothing: the next writer is granted at once, without the
// grace period passing (the clock does not move), and a reader after that is admitted too.
//
//verif:harness prop=C13 name=outer_cancel_failed_rlock_holds_nothing threads=8 sched=delay preempt=3 t_preempt=4 unwind=10 witness=lenient
func VerifOuterCancelFailedRLock() {
	start := zzverif.TimeFromNanos(1_000_000_000_000)
	vClk = zzverifstubs.NewClock(start)
	o := NewOuterCancel(errOuter, 5*time.Second)
	runCtx, stop := context.WithCancel(context.Background())
	go o.Run(runCtx)
	ctx, cancel := context.WithCancel(context.Background())
	go cancel() // at any point of the acquisition
	_, rc, err := o.RLock(ctx)
	if err == nil {
		rc()
	} else {
		zzverif.Assert(rc == nil, "failed_acquisition_returns_no_release_function")
	}
	wdone := make(chan struct{}, 1)
	go func() {
		zzverif.MustFinish() // without any clock advance: nobody holds the lock
		unlock := o.Lock()
		unlock()
		wdone <- struct{}{}
	}()
	<-wdone
	_, rc2, err2 := o.RLock(context.Background())
	zzverif.Assert(err2 == nil, "reader_admitted_after_writer_left")
	rc2()
	cancel()
	stop()
	zzverif.Cover("outer_cancel_failed_rlock_done")
}

// A waiter behind a holder that does not release: a Lock or RLock whose context is cancelled while a reader or a writer
// keeps holding the lock returns the context's error while the holder still holds (its cancellation is honoured
// whoever holds), and holds nothing: after the holder releases the lock can be taken at once.
//
//verif:harness prop=C13 name=lock_context_cancel_behind_holder threads=4 sched=delay preempt=3 t_preempt=4 unwind=8 witness=lenient
func VerifLockContextCancelBehindHolder() {
	l := NewContext()
	holderIsReader := zzverif.Bool("holder_is_reader")
	waiterIsReader := zzverif.Bool("waiter_is_reader")
	zzverif.Assume(!(holderIsReader && waiterIsReader)) // two readers share the lock: nobody waits
	if holderIsReader {
		zzverif.Assert(l.RLock(context.Background()) == nil, "lock_without_cancellation_succeeds")
	} else {
		zzverif.Assert(l.Lock(context.Background()) == nil, "lock_without_cancellation_succeeds")
	}
	ctx, cancel := context.WithCancel(context.Background())
	res := make(chan error, 1)
	go func() {
		zzverif.MustFinish() // although the holder never releases before this returns
		if waiterIsReader {
			res <- l.RLock(ctx)
		} else {
			res <- l.Lock(ctx)
		}
	}()
	if zzverif.Bool("waiter_parked_first") {
		zzverif.WaitQuiescent()
	}
	cancel()
	err := <-res
	zzverif.Assert(errors.Is(err, context.Canceled), "cancelled_waiter_gets_context_error")
	if holderIsReader {
		l.RUnlock()
	} else {
		l.Unlock()
	}
	zzverif.Assert(l.Lock(context.Background()) == nil, "lock_free_after_everybody_left")
	l.Unlock()
	zzverif.Cover("lock_context_cancel_behind_holder_done")
}

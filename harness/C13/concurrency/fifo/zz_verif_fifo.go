package fifo

import (
	"github.com/dapr/kit/zzverif"
)

// ---- fifo.Mutex: mutual exclusion -------------------------------------------------------------------------------

type vMon struct {
	inside int
	order  []int
}

func vCritical(mon *vMon, id int) {
	mon.inside++
	zzverif.Assert(mon.inside == 1, "fifo_mutex_exclusive")
	mon.order = append(mon.order, id)
	zzverif.Yield() // stay inside for a while: any other thread may run here
	zzverif.Assert(mon.inside == 1, "fifo_mutex_exclusive")
	mon.inside--
}

//verif:harness prop=C13 name=fifo_mutex_exclusion threads=3 sched=delay preempt=3 t_preempt=5 unwind=8 witness=lenient
func VerifFifoMutexExclusion() {
	m := New()
	mon := &vMon{}
	done := make(chan struct{}, 3)
	for i := 0; i < 3; i++ {
		id := i
		go func() {
			rounds := 1
			if id == 0 {
				rounds = 2
			}
			for r := 0; r < rounds; r++ {
				m.Lock()
				vCritical(mon, id)
				m.Unlock()
			}
			done <- struct{}{}
		}()
	}
	for i := 0; i < 3; i++ {
		<-done
	}
	zzverif.Assert(len(mon.order) == 4, "fifo_mutex_all_entered")
	zzverif.Cover("fifo_mutex_exclusion_done")
}

// ---- fifo.Mutex: grant order = arrival order (arrival confirmed by quiescence: the waiter is blocked) ---------------

//verif:harness prop=C13 name=fifo_mutex_order threads=4 sched=delay preempt=3 t_preempt=5 unwind=8 witness=lenient
func VerifFifoMutexOrder() {
	m := New()
	mon := &vMon{}
	done := make(chan struct{}, 3)
	m.Lock() // main holds
	for i := 1; i <= 3; i++ {
		id := i
		go func() {
			m.Lock()
			vCritical(mon, id)
			m.Unlock()
			done <- struct{}{}
		}()
		zzverif.WaitQuiescent() // waiter i is now blocked in Lock: it has arrived
	}
	m.Unlock()
	for i := 0; i < 3; i++ {
		<-done
	}
	zzverif.Assert(len(mon.order) == 3, "fifo_all_granted")
	zzverif.Assert(mon.order[0] == 1, "fifo_grant_order")
	zzverif.Assert(mon.order[1] == 2, "fifo_grant_order")
	zzverif.Assert(mon.order[2] == 3, "fifo_grant_order")
	zzverif.Cover("fifo_mutex_order_done")
}

// ---- fifo map: exclusion per key, entries disappear ---------------------------------------------------------------

type vMapMon struct {
	inside [3]bool
	key    [3]int
}

//verif:harness prop=C13 name=fifo_map threads=4 sched=delay preempt=3 t_preempt=5 unwind=8 witness=lenient
func VerifFifoMap() {
	fm := NewMap[int]().(*fifoMap[int])
	mon := &vMapMon{}
	ka := zzverif.Int("ka")
	kb := zzverif.Int("kb") // may or may not equal ka
	mon.key = [3]int{ka, ka, kb}
	done := make(chan struct{}, 3)
	for i := 0; i < 3; i++ {
		id := i
		go func() {
			k := mon.key[id]
			fm.Lock(k)
			for j := 0; j < 3; j++ {
				if j != id {
					zzverif.Assert(!(mon.inside[j] && mon.key[j] == k), "fifo_map_exclusive_per_key")
				}
			}
			mon.inside[id] = true
			zzverif.Yield()
			mon.inside[id] = false
			fm.Unlock(k)
			done <- struct{}{}
		}()
	}
	for i := 0; i < 3; i++ {
		<-done
	}
	zzverif.Assert(len(fm.items) == 0, "fifo_map_entries_pruned")
	zzverif.Cover("fifo_map_done")
}

// ---- fifo map, one step from an arbitrary state (covers histories of any length) ----------------------------------
// From an arbitrary map state in which every entry's ilen equals the ghost count of holders+waiters (>= 1), the
// critical sections of Lock(k) / Unlock(k) keep that equation, create the entry iff absent and delete it iff the
// count reaches zero: all users of a key that overlap in time share one mutex object.

//verif:harness prop=C13 name=fifo_map_step threads=1 unwind=8
func VerifFifoMapStep() {
	fm := NewMap[int]().(*fifoMap[int])
	n := zzverif.Choose("entries", 3)
	keys := []int{zzverif.Int("k0"), zzverif.Int("k1")}
	zzverif.Assume(keys[0] != keys[1])
	ghost := map[int]uint64{}
	for i := 0; i < n; i++ {
		c := zzverif.Uint64("count")
		zzverif.Assume(c >= 1)
		zzverif.Assume(c <= 1000)
		it := &mapItem{ilen: c, mutex: New()}
		it.mutex.Lock() // count >= 1 means somebody holds it
		fm.items[keys[i]] = it
		ghost[keys[i]] = c
	}
	k := zzverif.Int("k")
	if zzverif.Bool("do_unlock") {
		before, ok := fm.items[k]
		zzverif.Assume(ok) // callers pair their calls: Unlock only for a key they hold
		cnt := ghost[k]
		fm.Unlock(k)
		after, still := fm.items[k]
		if cnt == 1 {
			zzverif.Assert(!still, "fifo_map_entry_deleted_at_zero")
		} else {
			zzverif.Assert(still, "fifo_map_entry_kept_while_used")
			zzverif.Assert(after == before, "fifo_map_same_mutex_object")
			zzverif.Assert(after.ilen == cnt-1, "fifo_map_count_decremented")
		}
		zzverif.Cover("fifo_map_step_unlock")
	} else {
		before, existed := fm.items[k]
		if existed {
			// the entry's mutex is held (count >= 1): release it so that this single-threaded step can finish
			before.mutex.Unlock()
		}
		fm.Lock(k)
		after, ok := fm.items[k]
		zzverif.Assert(ok, "fifo_map_entry_present_after_lock")
		if existed {
			zzverif.Assert(after == before, "fifo_map_same_mutex_object")
			zzverif.Assert(after.ilen == ghost[k]+1, "fifo_map_count_incremented")
		} else {
			zzverif.Assert(after.ilen == 1, "fifo_map_new_entry_count_one")
		}
		zzverif.Cover("fifo_map_step_lock")
	}
}

package cmap

import (
	"github.com/dapr/kit/zzverif"
)

type vRW struct {
	writers int
	readers int
}

func (mon *vRW) writeSection() {
	mon.writers++
	zzverif.Assert(mon.writers == 1, "cmap_mutex_one_writer_per_key")
	zzverif.Assert(mon.readers == 0, "cmap_mutex_no_reader_with_writer")
	zzverif.Yield()
	zzverif.Assert(mon.writers == 1, "cmap_mutex_one_writer_per_key")
	zzverif.Assert(mon.readers == 0, "cmap_mutex_no_reader_with_writer")
	mon.writers--
}

func (mon *vRW) readSection() {
	mon.readers++
	zzverif.Assert(mon.writers == 0, "cmap_mutex_no_writer_with_reader")
	zzverif.Yield()
	zzverif.Assert(mon.writers == 0, "cmap_mutex_no_writer_with_reader")
	mon.readers--
}

func vCmapRun(styles []int) {
	mu := NewMutex[int]()
	mon := &vRW{}
	k := zzverif.Int("key")
	done := make(chan struct{}, 3)
	for i := 0; i < len(styles); i++ {
		style := styles[i]
		go func() {
			switch style {
			case 0:
				mu.Lock(k)
				mon.writeSection()
				mu.Unlock(k)
			case 1:
				mu.Lock(k)
				mon.writeSection()
				mu.DeleteUnlock(k)
			case 2:
				mu.RLock(k)
				mon.readSection()
				mu.RUnlock(k)
			case 3:
				mu.RLock(k)
				mon.readSection()
				mu.DeleteRUnlock(k)
			}
			done <- struct{}{}
		}()
	}
	for i := 0; i < len(styles); i++ {
		<-done
	}
}

// three goroutines on one key, calls correctly paired, without the delete-and-release variants: each is a writer
// (Lock/Unlock) or a reader (RLock/RUnlock)
//
//verif:harness prop=C13 name=cmap_mutex_rw threads=4 sched=delay preempt=3 t_preempt=4 unwind=8 witness=lenient
func VerifCmapMutexRW() {
	styles := []int{0, 0, 0}
	for i := range styles {
		styles[i] = 2 * zzverif.Choose("reader", 2)
	}
	vCmapRun(styles)
	zzverif.Cover("cmap_mutex_rw_done")
}

// the delete-and-release variants: the first goroutine releases with DeleteUnlock / DeleteRUnlock while the others
// use any of the four styles
//
//verif:harness prop=C13 name=cmap_mutex_delete threads=4 sched=delay preempt=3 t_preempt=4 unwind=8 witness=lenient
func VerifCmapMutexDelete() {
	styles := []int{1 + 2*zzverif.Choose("deleter_is_reader", 2), 0, 0}
	n := 2
	if zzverif.Thorough() {
		n = 4
	}
	styles[1] = zzverif.Choose("style", n)
	styles[2] = zzverif.Choose("style", n)
	vCmapRun(styles)
	zzverif.Cover("cmap_mutex_delete_done")
}

// Two different keys (symbolic): exclusion is per key - two goroutines on the first key exclude each other while a
// third one takes the second key although the first is held -, and the bookkeeping calls made while nobody holds or
// waits agree with a plain set of keys: ItemCount counts the keys locked so far, Delete removes one, Clear all, and a
// key can be locked again afterwards.
//
//verif:harness prop=C13 name=cmap_mutex_two_keys threads=4 sched=delay preempt=2 t_preempt=3 unwind=8 witness=lenient
func VerifCmapMutexTwoKeys() {
	mu := NewMutex[int]()
	k1, k2 := zzverif.Int("key1"), zzverif.Int("key2")
	zzverif.Assume(k1 != k2)
	zzverif.Assert(mu.ItemCount() == 0, "item_count_agrees")
	mon1, mon2 := &vRW{}, &vRW{}
	// main holds key 1; another key is available meanwhile
	mu.Lock(k1)
	zzverif.Assert(mu.ItemCount() == 1, "held_key_is_counted")
	other := false
	done := make(chan struct{}, 3)
	go func() {
		if zzverif.Bool("second_key_reader") {
			mu.RLock(k2)
			mon2.readSection()
			zzverif.Ghost(func() { other = true })
			mu.RUnlock(k2)
		} else {
			mu.Lock(k2)
			mon2.writeSection()
			zzverif.Ghost(func() { other = true })
			mu.Unlock(k2)
		}
		done <- struct{}{}
	}()
	zzverif.WaitQuiescent()
	zzverif.Assert(other, "other_key_not_blocked_by_held_key")
	<-done
	mu.Unlock(k1)
	// two contenders for key 1
	for i := 0; i < 2; i++ {
		go func() {
			mu.Lock(k1)
			mon1.writeSection()
			mu.Unlock(k1)
			done <- struct{}{}
		}()
	}
	<-done
	<-done
	// (an implementation may or may not keep entries of released keys: only upper bounds are judged)
	zzverif.Assert(mu.ItemCount() <= 2, "item_count_at_most_keys_used")
	mu.Delete(k1)
	zzverif.Assert(mu.ItemCount() <= 1, "deleted_key_not_counted")
	mu.Delete(k1) // absent: no effect
	zzverif.Assert(mu.ItemCount() <= 1, "deleted_key_not_counted")
	mu.Lock(k1) // usable again after Delete
	zzverif.Assert(mu.ItemCount() >= 1, "held_key_is_counted")
	mu.Unlock(k1)
	mu.Clear()
	zzverif.Assert(mu.ItemCount() == 0, "clear_removes_everything")
	mu.RLock(k2) // usable again after Clear
	zzverif.Assert(mu.ItemCount() == 1, "held_key_is_counted")
	mu.RUnlock(k2)
	zzverif.Cover("cmap_mutex_two_keys_done")
}

package cmap

import (
	"github.com/dapr/kit/zzverif"
)

type vRW struct {
	writers int
	readers int
}

func (mon *vRW) writeSection() {
	mon.writers++
	zzverif.Assert(mon.writers == 1, "cmap_mutex_one_writer_per_key")
	zzverif.Assert(mon.readers == 0, "cmap_mutex_no_reader_with_writer")
	zzverif.Yield()
	zzverif.Assert(mon.writers == 1, "cmap_mutex_one_writer_per_key")
	zzverif.Assert(mon.readers == 0, "cmap_mutex_no_reader_with_writer")
	mon.writers--
}

func (mon *vRW) readSection() {
	mon.readers++
	zzverif.Assert(mon.writers == 0, "cmap_mutex_no_writer_with_reader")
	zzverif.Yield()
	zzverif.Assert(mon.writers == 0, "cmap_mutex_no_writer_with_reader")
	mon.readers--
}

func vCmapRun(styles []int) {
	mu := NewMutex[int]()
	mon := &vRW{}
	k := zzverif.Int("key")
	done := make(chan struct{}, 3)
	for i := 0; i < len(styles); i++ {
		style := styles[i]
		go func() {
			switch style {
			case 0:
				mu.Lock(k)
				mon.writeSection()
				mu.Unlock(k)
			case 1:
				mu.Lock(k)
				mon.writeSection()
				mu.DeleteUnlock(k)
			case 2:
				mu.RLock(k)
				mon.readSection()
				mu.RUnlock(k)
			case 3:
				mu.RLock(k)
				mon.readSection()
				mu.DeleteRUnlock(k)
			}
			done <- struct{}{}
		}()
	}
	for i := 0; i < len(styles); i++ {
		<-done
	}
}

// three goroutines on one key, calls correctly paired, without the delete-and-release variants: each is a writer
// (Lock/Unlock) or a reader (RLock/RUnlock)
//
//verif:harness prop=C13 name=cmap_mutex_rw threads=4 sched=delay preempt=3 t_preempt=4 unwind=8 witness=lenient
func VerifCmapMutexRW() {
	styles := []int{0, 0, 0}
	for i := range styles {
		styles[i] = 2 * zzverif.Choose("reader", 2)
	}
	vCmapRun(styles)
	zzverif.Cover("cmap_mutex_rw_done")
}

// the delete-and-release variants: the first goroutine releases with DeleteUnlock / DeleteRUnlock while the others
// use any of the four styles
//
//verif:harness prop=C13 name=cmap_mutex_delete threads=4 sched=delay preempt=3 t_preempt=4 unwind=8 witness=lenient
func VerifCmapMutexDelete() {
	styles := []int{1 + 2*zzverif.Choose("deleter_is_reader", 2), 0, 0}
	n := 2
	if zzverif.Thorough() {
		n = 4
	}
	styles[1] = zzverif.Choose("style", n)
	styles[2] = zzverif.Choose("style", n)
	vCmapRun(styles)
	zzverif.Cover("cmap_mutex_delete_done")
}

package batcher

import (
	"context"
	"time"

	"github.com/dapr/kit/zzverif"
	"github.com/dapr/kit/zzverifstubs"
)

//verif:chancap (*github.com/dapr/kit/events/batcher.Batcher*).subscribe 50 2

type vSub struct {
	ch     chan int
	got    []int
	closed bool
}

func vConsume(c *vSub) {
	for v := range c.ch {
		vv := v
		zzverif.Ghost(func() { c.got = append(c.got, vv) })
	}
	zzverif.Ghost(func() { c.closed = true })
}

const vInterval = 10 * time.Millisecond

// Debounce law with one reading subscriber: per key the last value inside an interval is delivered exactly once, one
// interval after its Batch call (not earlier than 0.5 ms before), earlier values for the key are suppressed.
//
//verif:harness prop=C10 name=batch_debounce threads=4 sched=delay preempt=2 t_preempt=3 unwind=12 witness=lenient
func VerifBatchDebounce() {
	start := zzverif.TimeFromNanos(1_000_000_000)
	clk := zzverifstubs.NewClock(start)
	b := New[int, int](vInterval)
	b.WithClock(clk)
	s := &vSub{ch: make(chan int)}
	b.Subscribe(context.Background(), s.ch)
	go vConsume(s)
	v1, v2, v3 := zzverif.Int("v1"), zzverif.Int("v2"), zzverif.Int("v3")
	gap := zzverif.Int64("gap") // time between the two Batch calls for key 1
	zzverif.Assume(gap >= 0)
	zzverif.Assume(gap <= int64(vInterval-500*time.Microsecond)) // later than that, v1 is (legitimately) already due
	b.Batch(1, v1)
	b.Batch(2, v3)
	clk.Advance(time.Duration(gap))
	zzverif.WaitQuiescent()
	b.Batch(1, v2) // supersedes v1, restarts key 1's interval
	t2 := clk.Now()
	// key 2 becomes due first (start+interval), key 1 at t2+interval
	clk.AdvanceTo(start.Add(vInterval))
	zzverif.WaitQuiescent()
	if gap > int64(500*time.Microsecond) {
		zzverif.Assert(len(s.got) == 1, "only_due_key_delivered")
		zzverif.Assert(s.got[0] == v3, "only_due_key_delivered")
	}
	clk.AdvanceTo(t2.Add(vInterval))
	zzverif.WaitQuiescent()
	zzverif.Assert(len(s.got) == 2, "one_delivery_per_key")
	zzverif.Assert(s.got[0] == v3 || s.got[1] == v3, "key2_value_delivered")
	zzverif.Assert(s.got[0] == v2 || s.got[1] == v2, "last_value_for_key_delivered")
	b.Close()
	zzverif.WaitQuiescent()
	zzverif.Assert(s.closed, "subscriber_channel_closed_after_close")
	zzverif.Assert(zzverif.ThreadsAliveIs(0), "no_goroutine_left_after_close")
	b.Batch(3, 0)
	clk.Advance(2 * vInterval)
	zzverif.WaitQuiescent()
	zzverif.Assert(len(s.got) == 2, "nothing_sent_after_close")
	zzverif.Cover("batch_debounce_done")
}

// A subscriber that never reads (more events outstanding than its buffer) and then leaves must not block delivery to
// the other subscriber, later Batch calls or Close.
//
//verif:harness prop=C10 name=batch_departure threads=8 sched=delay preempt=1 t_preempt=2 unwind=14 witness=lenient
func VerifBatchDeparture() {
	start := zzverif.TimeFromNanos(1_000_000_000)
	clk := zzverifstubs.NewClock(start)
	b := New[int, int](vInterval)
	b.WithClock(clk)
	stalled := make(chan int) // never read
	ctx1, leave := context.WithCancel(context.Background())
	s2 := &vSub{ch: make(chan int)}
	s3 := &vSub{ch: make(chan int)} // a second staying subscriber, behind the first in the fan-out
	b.Subscribe(ctx1, stalled)
	b.Subscribe(context.Background(), s2.ch, s3.ch)
	go vConsume(s2)
	go vConsume(s3)
	n := 5 // buffer 2 (scaled from 50) + 1 held by the forwarder + 2
	leaveAfter := zzverif.Choose("leave_after", n+1)
	if !zzverif.Symbolic() {
		// native replay runs with the real buffer size of 50: same shape, 48 more events before the buffer is full
		n += 48
		if leaveAfter >= 3 {
			leaveAfter += 48
		}
	}
	for i := 1; i <= n; i++ {
		b.Batch(i, 100+i)
		clk.Advance(vInterval)
		zzverif.WaitQuiescent()
		if i == leaveAfter {
			leave()
			zzverif.WaitQuiescent()
		}
	}
	if leaveAfter == 0 {
		leave()
	}
	leave()
	zzverif.WaitQuiescent()
	for _, c := range []*vSub{s2, s3} {
		zzverif.Assert(len(c.got) == n, "staying_subscriber_gets_every_event")
		for i := 0; i < len(c.got); i++ {
			zzverif.Assert(c.got[i] == 101+i, "staying_subscriber_order")
		}
	}
	b.Close()
	zzverif.WaitQuiescent()
	zzverif.Assert(s2.closed, "subscriber_channel_closed_after_close")
	zzverif.Cover("batch_departure_done")
}

// Four subscribers [A, B, C, D]: B stops reading until its buffer is full, so a delivery waits at B; meanwhile A
// leaves; then B reads again. C and D, who stayed, must each receive every event exactly once and in the same order.
//
//verif:harness prop=C10 name=batch_fanout_while_leaving threads=9 sched=delay preempt=1 t_preempt=2 unwind=16 witness=lenient
func VerifBatchFanoutWhileLeaving() {
	start := zzverif.TimeFromNanos(1_000_000_000)
	clk := zzverifstubs.NewClock(start)
	b := New[int, int](vInterval)
	b.WithClock(clk)
	ctxA, leaveA := context.WithCancel(context.Background())
	chA := make(chan int)
	chB := make(chan int)
	sC := &vSub{ch: make(chan int)}
	sD := &vSub{ch: make(chan int)}
	b.Subscribe(ctxA, chA)
	b.Subscribe(context.Background(), chB)
	b.Subscribe(context.Background(), sC.ch)
	b.Subscribe(context.Background(), sD.ch)
	aGot := 0
	go func() { // A reads promptly until it leaves
		for range chA {
			zzverif.Ghost(func() { aGot++ })
		}
	}()
	go vConsume(sC)
	go vConsume(sD)
	n := 4 // B: 1 held by its forwarder + buffer 2 (scaled from 50) -> the 4th delivery waits at B
	if !zzverif.Symbolic() {
		n += 48
	}
	for i := 1; i <= n; i++ {
		b.Batch(i, 100+i)
		clk.Advance(vInterval)
		zzverif.WaitQuiescent()
	}
	leaveA() // while the n-th delivery is parked at B
	zzverif.WaitQuiescent()
	for i := 0; i < n; i++ { // B reads again
		<-chB
	}
	zzverif.WaitQuiescent()
	for _, s := range []*vSub{sC, sD} {
		zzverif.Assert(len(s.got) == n, "staying_subscriber_gets_every_event_once")
		for i := 0; i < len(s.got); i++ {
			zzverif.Assert(s.got[i] == 101+i, "staying_subscriber_order")
		}
	}
	b.Close()
	zzverif.Cover("batch_fanout_while_leaving_done")
}

// A Batch for a key whose previous value has just become due (the clock reached its time, the processor may or may not
// have delivered it yet): the old value is delivered at most once, the new value exactly once and not before ITS
// interval has passed - never early because it took the place of the due item.
//
//verif:harness prop=C10 name=batch_replace_when_due threads=4 sched=delay preempt=3 t_preempt=4 unwind=12 witness=lenient
func VerifBatchReplaceWhenDue() {
	start := zzverif.TimeFromNanos(1_000_000_000)
	clk := zzverifstubs.NewClock(start)
	b := New[int, int](vInterval)
	b.WithClock(clk)
	s := &vSub{ch: make(chan int)}
	b.Subscribe(context.Background(), s.ch)
	go vConsume(s)
	v1, v2 := zzverif.Int("v1"), zzverif.Int("v2")
	zzverif.Assume(v1 != v2)
	b.Batch(1, v1)
	zzverif.WaitQuiescent()
	clk.Advance(vInterval) // v1 is due now; no quiescence: the processor races with the next call
	b.Batch(1, v2)
	zzverif.WaitQuiescent()
	for _, v := range s.got {
		zzverif.Assert(v != v2, "new_value_not_delivered_before_its_interval")
	}
	zzverif.Assert(len(s.got) <= 1, "old_value_at_most_once")
	clk.Advance(vInterval - time.Millisecond)
	zzverif.WaitQuiescent()
	for _, v := range s.got {
		zzverif.Assert(v != v2, "new_value_not_delivered_before_its_interval")
	}
	clk.Advance(time.Millisecond)
	zzverif.WaitQuiescent()
	n1, n2 := 0, 0
	for _, v := range s.got {
		if v == v1 {
			n1++
		}
		if v == v2 {
			n2++
		}
	}
	zzverif.Assert(n1 <= 1, "old_value_at_most_once")
	zzverif.Assert(n2 == 1, "last_value_for_key_delivered_exactly_once")
	zzverif.Assert(s.got[len(s.got)-1] == v2, "last_value_for_key_delivered_last")
	b.Close()
	zzverif.Cover("batch_replace_when_due_done")
}

// Membership over time (same shape as the broadcaster's): departures and new subscriptions, forked, interleaved with
// one Batch + interval each; after every step exactly the subscribers still subscribed receive the value.
//
//verif:harness prop=C10 name=batch_membership threads=14 sched=delay preempt=0 unwind=14 witness=lenient
func VerifBatchMembership() {
	start := zzverif.TimeFromNanos(1_000_000_000)
	clk := zzverifstubs.NewClock(start)
	b := New[int, int](vInterval)
	b.WithClock(clk)
	type member struct {
		s      *vSub
		cancel context.CancelFunc
		live   bool
	}
	var ms []*member
	join := func() {
		ctx, cancel := context.WithCancel(context.Background())
		m := &member{s: &vSub{ch: make(chan int)}, cancel: cancel, live: true}
		b.Subscribe(ctx, m.s.ch)
		go vConsume(m.s)
		ms = append(ms, m)
	}
	count := func(got []int, v int) int {
		n := 0
		for _, x := range got {
			if x == v {
				n++
			}
		}
		return n
	}
	join()
	join()
	next := 1
	check := func() {
		b.Batch(next, 100+next)
		clk.Advance(vInterval)
		zzverif.WaitQuiescent()
		for _, m := range ms {
			if m.live {
				zzverif.Assert(count(m.s.got, 100+next) == 1, "subscribed_member_receives_the_value_once")
			} else {
				zzverif.Assert(count(m.s.got, 100+next) <= 1, "departed_member_at_most_once")
			}
		}
		next++
	}
	check()
	steps := 3
	if zzverif.Thorough() {
		steps = 5
	}
	for s := 0; s < steps; s++ {
		if zzverif.Bool("join") {
			join()
		} else {
			var live []*member
			for _, m := range ms {
				if m.live {
					live = append(live, m)
				}
			}
			if len(live) == 0 {
				join()
			} else {
				m := live[zzverif.Choose("who_leaves", len(live))]
				m.cancel()
				m.live = false
				zzverif.WaitQuiescent()
			}
		}
		check()
	}
	b.Close()
	zzverif.Cover("batch_membership_done")
}

// A bystander leaves while the fan-out is waiting for a slow subscriber (the broadcaster's harness of the same name):
// Z reads promptly and leaves, A starts reading late (more events outstanding than its buffer holds), S1 and S2 read
// promptly; Z's departure during the wait takes nothing from, and duplicates nothing for, the subscribers behind A:
// A, S1 and S2 receive every event exactly once, in the order the events became due.
//
//verif:harness prop=C10 name=batch_bystander_leaves_while_waiting threads=14 sched=delay preempt=1 t_preempt=2 unwind=20 witness=lenient
func VerifBatchBystanderLeaves() {
	start := zzverif.TimeFromNanos(1_000_000_000)
	clk := zzverifstubs.NewClock(start)
	b := New[int, int](vInterval)
	b.WithClock(clk)
	z := &vSub{ch: make(chan int)}
	a := &vSub{ch: make(chan int)}
	s1 := &vSub{ch: make(chan int)}
	s2 := &vSub{ch: make(chan int)}
	ctxZ, leaveZ := context.WithCancel(context.Background())
	b.Subscribe(ctxZ, z.ch)
	b.Subscribe(context.Background(), a.ch, s1.ch, s2.ch)
	go vConsume(z)
	go vConsume(s1)
	go vConsume(s2)
	n := 4 // A's buffer (2, scaled from 50) + 1 held by its forwarder: the 4th event waits
	if !zzverif.Symbolic() {
		n += 48 // native replay runs with the real buffer of 50
	}
	for i := 1; i <= n; i++ {
		b.Batch(i, 100+i)
		clk.Advance(vInterval)
		zzverif.WaitQuiescent()
	}
	// the fan-out of the last event is waiting for room in A's buffer
	leaveZ()
	zzverif.WaitQuiescent()
	go vConsume(a) // A catches up
	zzverif.WaitQuiescent()
	for _, c := range []*vSub{a, s1, s2} {
		zzverif.Assert(len(c.got) == n, "every_staying_subscriber_gets_every_event_once")
		for i := 0; i < len(c.got) && i < n; i++ {
			zzverif.Assert(c.got[i] == 101+i, "staying_subscriber_order")
		}
	}
	b.Close()
	zzverif.Cover("batch_bystander_leaves_done")
}

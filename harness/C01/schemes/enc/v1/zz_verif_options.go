package v1

import (
	"bytes"
	"crypto/rand"
	"encoding/base64"
	"errors"
	"io"
	"strconv"

	"github.com/dapr/kit/zzverif"
	"github.com/dapr/kit/zzverifstubs"
)

//verif:stub crypto/aes.NewCipher zzverifstubs.NewCipher
//verif:stub crypto/cipher.NewGCM zzverifstubs.NewGCM
//verif:stub crypto/cipher.NewGCMWithTagSize zzverifstubs.NewGCMWithTagSize
//verif:stub crypto/cipher.NewGCMWithNonceSize zzverifstubs.NewGCMWithNonceSize
//verif:stub golang.org/x/crypto/chacha20poly1305.New zzverifstubs.NewChaCha
//verif:stub golang.org/x/crypto/hkdf.New zzverifstubs.HKDFNew
//verif:stub crypto/hmac.New zzverifstubs.HmacNew
//verif:stub crypto/hmac.Equal zzverifstubs.HmacEqual
//verif:stub crypto/sha256.New zzverifstubs.NewSHA256
//verif:stub (*encoding/base64.Encoding).Encode zzverifstubs.B64Encode
//verif:stub (*encoding/base64.Encoding).Decode zzverifstubs.B64Decode
//verif:stub encoding/json.Marshal vJSONMarshal
//verif:stub encoding/json.Unmarshal vJSONUnmarshal

// JSON contract stub (symbolic runs only; the native replay uses encoding/json): Marshal of a *Manifest gives an opaque
// one-line token and remembers the fields the way the wire format carries them - key name, the NUMERIC ids of the
// key-wrap algorithm and cipher (through the package's own ID methods), wrapped key, nonce prefix; Unmarshal of that
// token restores them through the package's own New...FromID functions. Anything else is not JSON.
type vWire struct {
	tok          []byte
	k            string
	kw, cph      int
	wfk, np      []byte
}

var vWires []vWire

func vJSONMarshal(v any) ([]byte, error) {
	m, ok := v.(*Manifest)
	if !ok {
		return nil, errors.New("json stub: only *Manifest")
	}
	tok := []byte{'{', byte('a' + len(vWires)), '}'}
	vWires = append(vWires, vWire{tok: tok, k: m.KeyName, kw: m.KeyWrappingAlgorithm.ID(), cph: m.Cipher.ID(),
		wfk: append([]byte{}, m.WFK...), np: append([]byte{}, m.NoncePrefix...)})
	return tok, nil
}

func vJSONUnmarshal(data []byte, v any) error {
	m, ok := v.(*Manifest)
	if !ok {
		return errors.New("json stub: only *Manifest")
	}
	for _, w := range vWires {
		if len(data) == len(w.tok) && zzverif.EqBytes(data, w.tok) {
			kw, err := NewKeyAlgorithmFromID(w.kw)
			if err != nil {
				return err
			}
			cph, err := NewCipherFromID(w.cph)
			if err != nil {
				return err
			}
			*m = Manifest{KeyName: w.k, KeyWrappingAlgorithm: kw, WFK: append([]byte{}, w.wfk...), Cipher: cph,
				NoncePrefix: append([]byte{}, w.np...)}
			return nil
		}
	}
	return errors.New("json stub: not a manifest produced on this path")
}

type vRand struct{ b []byte }

func (r *vRand) Read(p []byte) (int, error) {
	n := copy(p, r.b)
	r.b = r.b[n:]
	if n == 0 {
		return 0, io.ErrUnexpectedEOF
	}
	return n, nil
}

func vReadAll(r io.Reader, bufSize, budget int) ([]byte, error) {
	var out []byte
	buf := make([]byte, bufSize)
	for i := 0; i < budget; i++ {
		n, err := r.Read(buf)
		out = append(out, buf[:n]...)
		if err != nil {
			return out, err
		}
	}
	zzverif.Assume(false) // read budget of the harness exhausted
	return out, nil
}

type vWrapCall struct {
	key, nonce, tag []byte
	alg, name       string
}

// Options: for every key-wrap algorithm id and alias, both ciphers (and the default), and every combination of
// KeyName / DecryptionKeyName / OmitKeyName on the Encrypt side and the KeyName override on the Decrypt side, with a
// key vault in which the wrapping key and the unwrapping key have DIFFERENT names:
//   - Encrypt asks the vault to wrap the 32-byte file key exactly once, under opts.KeyName and the canonical
//     algorithm name; the manifest names the decryption key (DecryptionKeyName, else KeyName, nothing if omitted),
//     carries the wrapped key, the cipher and the 7-byte nonce prefix;
//   - Decrypt asks the vault to unwrap that wrapped key under the override if given, else under the manifest's name,
//     refuses with ErrDecryptionKeyMissing when there is neither, and, when the name is the right one, yields exactly
//     the plaintext and a clean EOF.
//
//verif:harness prop=C01 name=options_roundtrip threads=3 sched=delay preempt=0 unwind=200 race=off witness=lenient
func VerifOptionsRoundtrip() {
	zzverifstubs.Init()
	algs := []KeyAlgorithm{KeyAlgorithmAES256KW, KeyAlgorithmAES128CBC, KeyAlgorithmAES192CBC, KeyAlgorithmAES256CBC,
		KeyAlgorithmRSAOAEP256, KeyAlgorithmAES, KeyAlgorithmRSA}
	canon := []string{"A256KW", "A128CBC-NOPAD", "A192CBC-NOPAD", "A256CBC-NOPAD", "RSA-OAEP-256", "A256KW", "RSA-OAEP-256"}
	ai := zzverif.Choose("algorithm", len(algs))
	var cph *Cipher
	wantCipher := CipherAESGCM
	// quick tier: every algorithm id once and every cipher choice at least twice (7 pairs); thorough: all 21 pairs
	ci := ai % 3
	if zzverif.Thorough() {
		ci = zzverif.Choose("cipher", 3)
	}
	switch ci {
	case 1:
		c := CipherAESGCM
		cph = &c
	case 2:
		c := CipherChaCha20Poly1305
		cph = &c
		wantCipher = c
	}
	keyName := zzverif.String("key_name", 1)
	decName := zzverif.String("decryption_key_name", zzverif.Choose("decryption_key_name_len", 2))
	omit := zzverif.Bool("omit_key_name")
	override := zzverif.String("override", zzverif.Choose("override_len", 2))
	rightDec := decName // the vault's name of the key that unwraps what keyName wraps
	if rightDec == "" {
		rightDec = keyName
	}
	rnd := zzverif.Bytes("random", 39)
	rand.Reader = &vRand{b: append([]byte{}, rnd...)}
	plain := zzverif.Bytes("plaintext", zzverif.Choose("plaintext_len", 3))

	var wraps, unwraps []vWrapCall
	wrapFn := func(key []byte, alg string, name string, nonce []byte) ([]byte, []byte, error) {
		wraps = append(wraps, vWrapCall{key: append([]byte{}, key...), alg: alg, name: name, nonce: nonce})
		if name != keyName {
			return nil, nil, errors.New("vault: no such wrapping key")
		}
		w := make([]byte, len(key))
		for i := range key {
			w[i] = key[i] ^ 0xA5
		}
		return w, nil, nil
	}
	unwrapFn := func(wrapped []byte, alg string, name string, nonce, tag []byte) ([]byte, error) {
		unwraps = append(unwraps, vWrapCall{key: append([]byte{}, wrapped...), alg: alg, name: name, nonce: nonce, tag: tag})
		if name != rightDec {
			return nil, errors.New("vault: no such unwrapping key")
		}
		k := make([]byte, len(wrapped))
		for i := range wrapped {
			k[i] = wrapped[i] ^ 0xA5
		}
		return k, nil
	}

	enc, err := Encrypt(bytes.NewReader(plain), EncryptOptions{WrapKeyFn: wrapFn, Algorithm: algs[ai], KeyName: keyName,
		DecryptionKeyName: decName, OmitKeyName: omit, Cipher: cph})
	zzverif.Assert(err == nil, "encrypt_accepts_valid_options")
	zzverif.Assert(len(wraps) == 1, "wrap_called_once")
	zzverif.Assert(len(wraps[0].key) == 32 && zzverif.EqBytes(wraps[0].key, rnd[:32]), "wrap_gets_the_file_key")
	zzverif.Assert(wraps[0].alg == canon[ai], "wrap_gets_canonical_algorithm")
	zzverif.Assert(wraps[0].name == keyName, "wrap_under_key_name")
	doc, err := vReadAll(enc, 128, 8)
	zzverif.Assert(err == io.EOF, "encrypt_stream_ends_cleanly")

	if zzverif.Symbolic() {
		zzverif.Assert(len(vWires) == 1, "one_manifest")
		w := vWires[0]
		wantName := rightDec
		if omit {
			wantName = ""
		}
		zzverif.Assert(w.k == wantName, "manifest_names_the_decryption_key")
		zzverif.Assert(w.kw == KeyAlgorithm(canon[ai]).ID() && w.cph == wantCipher.ID(), "manifest_algorithm_and_cipher_ids")
		zzverif.Assert(len(w.np) == 7 && zzverif.EqBytes(w.np, rnd[32:]), "manifest_nonce_prefix")
		zzverif.Assert(len(w.wfk) == 32, "manifest_wrapped_key")
	}
	// layout: scheme line, manifest line, MAC line (base64 of 32 bytes = 44 characters), then one segment of
	// len(plain)+16 bytes, none for an empty message
	mlen := 3 // length of the manifest token of the JSON stub
	if !zzverif.Symbolic() {
		mlen = bytes.IndexByte(doc[15:], '\n')
	}
	hdr := 15 + mlen + 1 + 44 + 1
	zzverif.Assert(len(doc) >= hdr, "header_complete")
	zzverif.Assert(string(doc[:15]) == "dapr.io/enc/v1\n" && doc[15+mlen] == '\n' && doc[hdr-1] == '\n', "three_header_lines")
	wantBody := 0
	if len(plain) > 0 {
		wantBody = len(plain) + 16
	}
	zzverif.Assert(len(doc)-hdr == wantBody, "one_segment_with_tag_or_none_for_empty")

	dec, err := Decrypt(bytes.NewReader(doc), DecryptOptions{UnwrapKeyFn: unwrapFn, KeyName: override})
	used := override
	if used == "" && !omit {
		used = rightDec
	}
	if used == "" {
		zzverif.Assert(err == ErrDecryptionKeyMissing, "no_key_name_anywhere_is_refused")
		zzverif.Assert(len(unwraps) == 0, "no_unwrap_without_a_name")
		zzverif.Cover("options_key_missing")
		return
	}
	zzverif.Assert(len(unwraps) == 1, "unwrap_called_once")
	zzverif.Assert(unwraps[0].name == used, "unwrap_under_override_else_manifest_name")
	zzverif.Assert(unwraps[0].alg == canon[ai], "unwrap_gets_canonical_algorithm")
	zzverif.Assert(len(unwraps[0].key) == 32, "unwrap_gets_wrapped_key")
	if used != rightDec {
		// the vault refused; that Decrypt then fails rests on the header MAC (HKDF/HMAC are uninterpreted here, so a
		// collision cannot be excluded): not judged
		zzverif.Cover("options_wrong_name")
		return
	}
	zzverif.Assert(err == nil, "decrypt_accepts_own_document")
	out, err := vReadAll(dec, 4, 8)
	zzverif.Assert(err == io.EOF, "decrypt_stream_ends_cleanly")
	zzverif.Assert(len(out) == len(plain) && zzverif.EqBytes(out, plain), "roundtrip_exact")
	zzverif.Cover("options_roundtrip_done")
}

// A document written by an independent implementation of the published format is accepted and decrypts to its
// plaintext. The independent writer is the harness: it derives the header and payload keys with HKDF as the README
// says, computes the MAC over "dapr.io/enc/v1\n" || manifest bytes || "\n" - over the manifest bytes AS WRITTEN -,
// seals the single segment with nonce prefix || counter 0 || last flag. Its manifest bytes are its own encoding of
// the manifest (symbolic runs: an opaque token the JSON stub parses to the manifest's fields; native replay: JSON with
// the members in another order and extra white space than encoding/json would produce).
//
//verif:harness prop=C01 name=independent_document threads=3 sched=delay preempt=0 unwind=200 race=off witness=lenient
func VerifIndependentDocument() {
	zzverifstubs.Init()
	vWires = nil
	fileKeyB := zzverif.Bytes("file_key", 32)
	np := zzverif.Bytes("nonce_prefix", 7)
	ciph := []Cipher{CipherAESGCM, CipherChaCha20Poly1305}[zzverif.Choose("cipher", 2)]
	plain := zzverif.Bytes("plaintext", zzverif.Choose("plaintext_len", 3))
	wfk := make([]byte, 32)
	for i := range wfk {
		wfk[i] = fileKeyB[i] ^ 0xA5
	}
	var manifest []byte
	if zzverif.Symbolic() {
		manifest = []byte("{x}") // not a token encoding/json (the stub) ever produced
		vWires = append(vWires, vWire{tok: manifest, k: "key", kw: KeyAlgorithmAES256KW.ID(), cph: ciph.ID(), wfk: wfk, np: np})
	} else {
		manifest = []byte(`{ "np":"` + base64.StdEncoding.EncodeToString(np) + `", "cph":` + strconv.Itoa(ciph.ID()) +
			`, "wfk":"` + base64.StdEncoding.EncodeToString(wfk) + `", "kw":1, "k":"key" }`)
	}
	msg := append(append([]byte("dapr.io/enc/v1\n"), manifest...), '\n')
	mac := vHMAC(vHKDF(fileKeyB, nil, []byte("header")), msg)
	b64 := make([]byte, base64.StdEncoding.EncodedLen(32))
	base64.StdEncoding.Encode(b64, mac)
	doc := append(append(append([]byte{}, msg...), b64...), '\n')
	if len(plain) > 0 {
		nonce := append(append([]byte{}, np...), 0, 0, 0, 0, 1)
		doc = append(doc, vSeal(ciph, vHKDF(fileKeyB, np, []byte("payload")), nonce, plain)...)
	}
	unwrapFn := func(wrapped []byte, alg string, name string, nonce, tag []byte) ([]byte, error) {
		k := make([]byte, len(wrapped))
		for i := range wrapped {
			k[i] = wrapped[i] ^ 0xA5
		}
		return k, nil
	}
	dec, err := Decrypt(bytes.NewReader(doc), DecryptOptions{UnwrapKeyFn: unwrapFn})
	zzverif.Assert(err == nil, "independent_document_accepted")
	out, err := vReadAll(dec, 4, 8)
	zzverif.Assert(err == io.EOF, "independent_document_ends_cleanly")
	zzverif.Assert(len(out) == len(plain) && zzverif.EqBytes(out, plain), "independent_document_decrypts_to_its_plaintext")
	zzverif.Cover("independent_document_done")
}

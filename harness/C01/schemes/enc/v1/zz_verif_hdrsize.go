package v1

import (
	"bytes"
	"hash"
	"io"

	"github.com/dapr/kit/zzverif"
	"github.com/dapr/kit/zzverifstubs"
)

//verif:stub golang.org/x/crypto/hkdf.New zzverifstubs.HKDFNew
//verif:stub crypto/hmac.New vHmacFixed
//verif:stub crypto/sha256.New zzverifstubs.NewSHA256
//verif:stub (*encoding/base64.Encoding).Encode zzverifstubs.B64Encode
//verif:stub (*encoding/base64.Encoding).Decode zzverifstubs.B64Decode

// a MAC whose value does not depend on the message (this file is about sizes only; a 64 KiB message as the argument of
// an uninterpreted function is a half-megabit literal in every query)
type vFixedMAC struct{ key []byte }

func (h *vFixedMAC) Write(p []byte) (int, error) { return len(p), nil }
func (h *vFixedMAC) Sum(b []byte) []byte         { return append(b, zzverif.UFBytes("HMAC_SIZE_ONLY", 32, h.key)...) }
func (h *vFixedMAC) Reset()                      {}
func (h *vFixedMAC) Size() int                   { return 32 }
func (h *vFixedMAC) BlockSize() int              { return 64 }

func vHmacFixed(f func() hash.Hash, key []byte) hash.Hash {
	return &vFixedMAC{key: append([]byte{}, key...)}
}

// The largest header: a header is at most one segment (65536 bytes) long, three lines included. SignHeader accepts a
// manifest exactly when the complete header - scheme line, manifest line, MAC line - fits, and readHeader (which reads
// at most one segment) finds all three lines of every header SignHeader accepted. REAL constants: manifest lengths
// around 65536 - 61.
//
//verif:harness prop=C01 name=header_size_limit unwind=70000
func VerifHeaderSizeLimit() {
	zzverifstubs.Init()
	fk, err := importFileKey(make([]byte, 32), make([]byte, 7), CipherAESGCM)
	zzverif.Assert(err == nil, "import_ok")
	const fixed = 15 + 1 + 44 + 1
	L := SegmentSize - fixed - 1 + zzverif.Choose("manifest_len_around_limit", 3)
	m := bytes.Repeat([]byte{'m'}, L)
	h, err := fk.SignHeader(m)
	if L+fixed > SegmentSize {
		zzverif.Assert(err != nil, "header_longer_than_a_segment_refused")
		zzverif.Cover("header_too_long")
		return
	}
	zzverif.Assert(err == nil, "header_of_at_most_one_segment_accepted")
	zzverif.Assert(len(h) == L+fixed, "header_length")
	var in io.Reader = bytes.NewReader(append(append([]byte{}, h...), 'x'))
	gm, gc, err := readHeader(&in)
	zzverif.Assert(err == nil, "largest_header_is_read_back")
	zzverif.Assert(len(gm) == L && gm[0] == 'm' && gm[L-1] == 'm', "largest_header_manifest_line")
	zzverif.Assert(len(gc) == 44 && zzverif.EqBytes(gc, h[len(h)-45:len(h)-1]), "largest_header_mac_line")
	rest, _ := io.ReadAll(in)
	zzverif.Assert(len(rest) == 1 && rest[0] == 'x', "payload_starts_after_largest_header")
	zzverif.Cover("header_size_limit_done")
}

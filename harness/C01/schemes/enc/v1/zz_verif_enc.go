package v1

import (
	"bytes"
	"crypto/aes"
	"crypto/cipher"
	"crypto/hmac"
	"crypto/sha256"
	"encoding/base64"
	"io"

	"golang.org/x/crypto/chacha20poly1305"
	"golang.org/x/crypto/hkdf"

	"github.com/dapr/kit/zzverif"
	"github.com/dapr/kit/zzverifstubs"
)

//verif:stub crypto/aes.NewCipher zzverifstubs.NewCipher
//verif:stub crypto/cipher.NewGCM zzverifstubs.NewGCM
//verif:stub crypto/cipher.NewGCMWithTagSize zzverifstubs.NewGCMWithTagSize
//verif:stub crypto/cipher.NewGCMWithNonceSize zzverifstubs.NewGCMWithNonceSize
//verif:stub golang.org/x/crypto/chacha20poly1305.New zzverifstubs.NewChaCha
//verif:stub golang.org/x/crypto/hkdf.New zzverifstubs.HKDFNew
//verif:stub crypto/hmac.New zzverifstubs.HmacNew
//verif:stub crypto/sha256.New zzverifstubs.NewSHA256
//verif:stub (*encoding/base64.Encoding).Encode zzverifstubs.B64Encode
//verif:stub (*encoding/base64.Encoding).Decode zzverifstubs.B64Decode

// vReader: a source of total symbolic bytes with symbolic chunking: every Read returns 0 <= nn <= len(p) bytes
// (zero-length reads limited), the end comes alone or together with the last data.
type vReader struct {
	data        []byte
	pos         int
	eofWithData bool
	zeros       int
	reads       int
	failAt      int
	failErr     error
	maxSplit    int // > 0: after this many reads the reader stops splitting (returns all it can)
	forkChunks  bool // chunk sizes are forked (concrete on each path) instead of being solver variables
}

func (r *vReader) Read(p []byte) (int, error) {
	r.reads++
	if r.failAt >= 0 && r.pos >= r.failAt {
		return 0, r.failErr
	}
	rem := len(r.data) - r.pos
	if rem == 0 {
		return 0, io.EOF
	}
	if len(p) == 0 {
		return 0, nil
	}
	var n int
	if r.maxSplit > 0 && r.reads > r.maxSplit {
		n = rem
		if n > len(p) {
			n = len(p)
		}
		if r.failAt >= 0 && r.pos+n > r.failAt {
			n = r.failAt - r.pos
		}
	} else {
		if r.forkChunks {
			lim := rem
			if len(p) < lim {
				lim = len(p)
			}
			n = zzverif.Choose("chunk", lim+1)
		} else {
			n = zzverif.Int("chunk")
		}
		zzverif.Assume(n >= 0)
		zzverif.Assume(n <= rem)
		zzverif.Assume(n <= len(p))
		if r.failAt >= 0 {
			zzverif.Assume(r.pos+n <= r.failAt)
		}
	}
	if n == 0 && rem > 0 && len(p) > 0 && !(r.maxSplit > 0 && r.reads > r.maxSplit) {
		r.zeros++
		zzverif.Assume(r.zeros <= 1)
		return 0, nil
	}
	copy(p, r.data[r.pos:r.pos+n])
	r.pos += n
	if r.pos == len(r.data) && r.eofWithData {
		return n, io.EOF
	}
	return n, nil
}

type vSegCall struct {
	data []byte
	num  uint32
	last bool
}

// Segmentation: processSegments(in, out, rec, S) calls rec exactly with (bytes [iS, min((i+1)S, L)), i, last iff it
// is the final segment), in order, not at all for an empty input, then closes the pipe cleanly. S is symbolic: the
// function is the same for Encrypt (S = 65536) and Decrypt (S = 65552).
//
//verif:harness prop=C01 name=seg_loop unwind=24 threads=1 race=off
func VerifSegLoop() {
	maxS, maxL := 3, 8
	if zzverif.Thorough() {
		maxS, maxL = 4, 13
	}
	S := zzverif.Int("S")
	zzverif.Assume(S >= 1)
	zzverif.Assume(S <= maxS)
	L := zzverif.Choose("L", maxL+1)
	zzverif.Assume(L <= 3*S+1)
	src := &vReader{data: zzverif.Bytes("src", L), eofWithData: zzverif.Bool("eof_with_data"), failAt: -1}
	if zzverif.Thorough() {
		// longer inputs: the first four reads split the data arbitrarily, later reads return all they can
		src.maxSplit = 4
	}
	var calls []vSegCall
	rec := func(out io.Writer, data []byte, num uint32, last bool) error {
		calls = append(calls, vSegCall{data: append([]byte{}, data...), num: num, last: last})
		return nil
	}
	pr, pw := io.Pipe()
	processSegments(src, pw, rec, S)
	one := make([]byte, 1)
	n, err := pr.Read(one)
	zzverif.Assert(n == 0, "seg_nothing_written_by_loop_itself")
	zzverif.Assert(err == io.EOF, "seg_clean_close")
	want := 0
	if L > 0 {
		want = (L + S - 1) / S
	}
	zzverif.Assert(len(calls) == want, "seg_count")
	off := 0
	for i, c := range calls {
		zzverif.Assert(c.num == uint32(i), "seg_numbered_in_order")
		zzverif.Assert(c.last == (i == len(calls)-1), "seg_last_flag_only_on_final")
		if i < len(calls)-1 {
			zzverif.Assert(len(c.data) == S, "seg_full_size")
		} else {
			zzverif.Assert(len(c.data) == L-off, "seg_final_size")
			zzverif.Assert(len(c.data) >= 1, "seg_final_not_empty")
		}
		zzverif.Assert(zzverif.EqBytes(c.data, src.data[off:off+len(c.data)]), "seg_bytes")
		off += len(c.data)
	}
	zzverif.Assert(off == L, "seg_covers_input")
	zzverif.Cover("seg_loop_done")
}

// nonce = 7-byte prefix || big-endian 32-bit counter || last flag, for every counter value and flag
//
//verif:harness prop=C01 name=nonce unwind=16
func VerifNonce() {
	k := fileKey{noncePrefix: zzverif.Bytes("prefix", 7)}
	num := zzverif.Uint32("num")
	last := zzverif.Bool("last")
	n := k.nonceForSegment(num, last)
	zzverif.Assert(len(n) == 12, "nonce_len")
	zzverif.Assert(zzverif.EqBytes(n[:7], k.noncePrefix), "nonce_prefix")
	zzverif.Assert(n[7] == byte(num>>24), "nonce_counter_big_endian")
	zzverif.Assert(n[8] == byte(num>>16), "nonce_counter_big_endian")
	zzverif.Assert(n[9] == byte(num>>8), "nonce_counter_big_endian")
	zzverif.Assert(n[10] == byte(num), "nonce_counter_big_endian")
	if last {
		zzverif.Assert(n[11] == 1, "nonce_last_flag")
	} else {
		zzverif.Assert(n[11] == 0, "nonce_last_flag")
	}
	zzverif.Cover("nonce_done")
}

// ---- the specification side: idealised primitives in the engine, the real ones (called directly, as an independent
// implementation written from the README would) in native replays ------------------------------------------------------

func vHKDF(secret, salt, info []byte) []byte {
	if zzverif.Symbolic() {
		return zzverif.UFBytes("HKDF", 32, secret, salt, info, []byte{0})
	}
	out := make([]byte, 32)
	io.ReadFull(hkdf.New(sha256.New, secret, salt, info), out)
	return out
}

func vSeal(ciph Cipher, key, nonce, pt []byte) []byte {
	if zzverif.Symbolic() {
		name := "GCM"
		if ciph == CipherChaCha20Poly1305 {
			name = "C20P"
		}
		return zzverif.UFBytes("Seal", len(pt)+16, []byte(name), key, nonce, nil, pt)
	}
	var a cipher.AEAD
	if ciph == CipherChaCha20Poly1305 {
		a, _ = chacha20poly1305.New(key)
	} else {
		b, _ := aes.NewCipher(key)
		a, _ = cipher.NewGCM(b)
	}
	return a.Seal(nil, nonce, pt, nil)
}

func vHMAC(key, msg []byte) []byte {
	if zzverif.Symbolic() {
		return zzverif.UFBytes("HMAC_SHA256", 32, key, msg)
	}
	h := hmac.New(sha256.New, key)
	h.Write(msg)
	return h.Sum(nil)
}

type vCollect struct{ b []byte }

func (c *vCollect) Write(p []byte) (int, error) {
	c.b = append(c.b, p...)
	return len(p), nil
}

// Segment sealing per the published format: payload key = HKDF-SHA-256(file key, salt = nonce prefix, info =
// "payload"); EncryptSegment writes exactly Seal(payloadKey, nonce(num,last), data, no aad) with the cipher named by
// the manifest; DecryptSegment writes the opened plaintext and nothing when Open fails; round trip.
//
//verif:harness prop=C01 name=segment_crypt unwind=40
func VerifSegmentCrypt() {
	zzverifstubs.Init()
	fileKeyB := zzverif.Bytes("file_key", 32)
	np := zzverif.Bytes("nonce_prefix", 7)
	ciph := []Cipher{CipherAESGCM, CipherChaCha20Poly1305}[zzverif.Choose("cipher", 2)]
	fk, err := importFileKey(fileKeyB, np, ciph)
	zzverif.Assert(err == nil, "import_ok")
	wantPK := vHKDF(fileKeyB, np, []byte("payload"))
	wantHK := vHKDF(fileKeyB, nil, []byte("header"))
	zzverif.Assert(zzverif.EqBytes(fk.payloadKey, wantPK), "payload_key_is_hkdf_salt_prefix_info_payload")
	zzverif.Assert(zzverif.EqBytes(fk.headerKey, wantHK), "header_key_is_hkdf_nosalt_info_header")
	n := 1 + zzverif.Choose("len", 3)
	data := zzverif.Bytes("data", n)
	orig := append([]byte{}, data...)
	num := zzverif.Uint32("num")
	last := zzverif.Bool("last")
	out := &vCollect{}
	buf := make([]byte, n, n+16+4) // like the pooled buffer: room behind the data for the tag
	copy(buf, data)
	zzverif.Assert(fk.EncryptSegment(out, buf, num, last) == nil, "encrypt_segment_ok")
	nonce := append(append([]byte{}, np...), byte(num>>24), byte(num>>16), byte(num>>8), byte(num), 0)
	if last {
		nonce[11] = 1
	}
	want := vSeal(ciph, wantPK, nonce, orig)
	zzverif.Assert(zzverif.EqBytes(out.b, want), "segment_is_seal_of_payload_key_nonce_data")
	// decrypting it with the same position gives the data back
	out2 := &vCollect{}
	ct := append([]byte{}, out.b...)
	zzverif.Assert(fk.DecryptSegment(out2, ct, num, last) == nil, "decrypt_of_encrypt_ok")
	zzverif.Assert(zzverif.EqBytes(out2.b, orig), "decrypt_of_encrypt_is_identity")
	// an arbitrary other ciphertext either fails with nothing written, or opens to what the ideal AEAD says
	other := zzverif.Bytes("other_ct", n+16)
	out3 := &vCollect{}
	err3 := fk.DecryptSegment(out3, append([]byte{}, other...), num, last)
	if err3 != nil {
		zzverif.Assert(err3 == ErrDecryptionFailed, "decrypt_failure_sentinel")
		zzverif.Assert(len(out3.b) == 0, "nothing_written_when_open_fails")
	}
	zzverif.Cover("segment_crypt_done")
}

// Header: SignHeader(m) = "dapr.io/enc/v1\n" || m || "\n" || base64(HMAC-SHA-256(headerKey, "dapr.io/enc/v1\n" || m
// || "\n")) || "\n"; VerifyHeaderSignature accepts exactly that MAC.
//
//verif:harness prop=C01 name=header_sign unwind=80
func VerifHeaderSign() {
	zzverifstubs.Init()
	fk, err := importFileKey(zzverif.Bytes("file_key", 32), zzverif.Bytes("nonce_prefix", 7), CipherAESGCM)
	zzverif.Assert(err == nil, "import_ok")
	m := zzverif.Bytes("manifest", zzverif.Choose("mlen", 4))
	h, err := fk.SignHeader(m)
	zzverif.Assert(err == nil, "sign_ok")
	msg := append(append([]byte("dapr.io/enc/v1\n"), m...), '\n')
	mac := vHMAC(vHKDF(fk.fileKey, nil, []byte("header")), msg)
	b64 := make([]byte, base64.StdEncoding.EncodedLen(32))
	base64.StdEncoding.Encode(b64, mac)
	want := append(append(append([]byte{}, msg...), b64...), '\n')
	zzverif.Assert(zzverif.EqBytes(h, want), "header_layout")
	zzverif.Assert(fk.VerifyHeaderSignature(m, b64) == nil, "own_signature_verifies")
	zzverif.Cover("header_sign_done")
}

// Header parsing: for a source = scheme line || M || "\n" || C || "\n" || rest delivered in arbitrary chunks,
// readHeader returns exactly (M, C) and leaves a reader that yields exactly rest; the lines it returns stay intact
// whatever happens to the pooled buffer afterwards.
//
//verif:harness prop=C01 name=read_header unwind=60
func VerifReadHeader() {
	ml := 1 + zzverif.Choose("mlen", 2)
	cl := 1
	rl := zzverif.Choose("restlen", 2)
	if zzverif.Thorough() {
		cl = 1 + zzverif.Choose("clen", 2)
		rl = zzverif.Choose("restlen3", 3)
	}
	M := zzverif.Bytes("M", ml)
	C := zzverif.Bytes("C", cl)
	rest := zzverif.Bytes("rest", rl)
	for _, b := range M {
		zzverif.Assume(b != '\n')
	}
	for _, b := range C {
		zzverif.Assume(b != '\n')
	}
	doc := append([]byte(SchemeName+"\n"), M...)
	doc = append(doc, '\n')
	doc = append(doc, C...)
	doc = append(doc, '\n')
	doc = append(doc, rest...)
	split := 2
	if zzverif.Thorough() {
		split = 3
	}
	var in io.Reader = &vReader{data: doc, eofWithData: zzverif.Bool("eof_with_data"), failAt: -1, maxSplit: split, forkChunks: true}
	manifest, mac, err := readHeader(&in)
	zzverif.Assert(err == nil, "header_accepted")
	if !zzverif.Symbolic() {
		// native replay: another user of the pool takes the buffer that was just returned and writes into it
		b := BufPool.Get().(*[]byte)
		for i := 0; i < 64; i++ {
			(*b)[i] = 0xEE
		}
		BufPool.Put(b)
	}
	zzverif.Assert(zzverif.EqBytes(manifest, M), "manifest_line_returned_intact")
	zzverif.Assert(zzverif.EqBytes(mac, C), "mac_line_returned_intact")
	var got []byte
	buf := make([]byte, 3)
	var rerr error
	for i := 0; i < 8; i++ {
		var n int
		n, rerr = in.Read(buf)
		got = append(got, buf[:n]...)
		if rerr != nil {
			break
		}
	}
	zzverif.Assume(rerr != nil)
	zzverif.Assert(rerr == io.EOF, "rest_ends_with_eof")
	zzverif.Assert(zzverif.EqBytes(got, rest), "rest_of_stream_preserved")
	zzverif.Cover("read_header_done")
}

// vBigReader: a source of n bytes (byte i = i mod 251) delivered in chunks taken from a short forked list of sizes
type vBigReader struct {
	data        []byte
	pos         int
	eofWithData bool
	sizes       []int
	reads       int
}

func (r *vBigReader) Read(p []byte) (int, error) {
	rem := len(r.data) - r.pos
	if rem == 0 {
		return 0, io.EOF
	}
	n := rem
	if r.reads < 2 {
		n = r.sizes[zzverif.Choose("chunk_size", len(r.sizes))]
	}
	r.reads++
	if n > rem {
		n = rem
	}
	if n > len(p) {
		n = len(p)
	}
	copy(p, r.data[r.pos:r.pos+n])
	r.pos += n
	if r.pos == len(r.data) && r.eofWithData {
		return n, io.EOF
	}
	return n, nil
}

// The segment loop at the REAL segment size (seg_loop runs it with a symbolic size of at most 4, which cannot see
// anything tied to the constants): plaintext lengths around the 64 KiB boundaries - 65 535, 65 536, 65 537, 131 072,
// 131 073 - read in chunks of 65 535, 65 536, 65 537 bytes or everything at once (forked for the first two reads),
// the end reported alone or together with the last data: the callback gets exactly the 64 KiB slices of the input, in
// order, the last flag only on the final one, nothing for... (an empty input is covered by seg_loop), then a clean close.
//
//verif:harness prop=C01 name=seg_loop_real_size unwind=60 threads=1 race=off
func VerifSegLoopRealSize() {
	lens := []int{65536, 65537, 131073}
	if zzverif.Thorough() {
		lens = []int{65535, 65536, 65537, 131072, 131073}
	}
	L := lens[zzverif.Choose("L", len(lens))]
	pattern := bytes.Repeat([]byte{0x5a}, L)
	for k, at := range []int{0, 1, 65534, 65535, 65536, 65537, 131070, 131071, 131072, L - 1} { // markers around every boundary
		if at < L {
			pattern[at] = byte(k + 1)
		}
	}
	src := &vBigReader{data: pattern, eofWithData: zzverif.Bool("eof_with_data"), sizes: []int{65535, 65536, 65537, 1 << 20}}
	var calls []vSegCall
	rec := func(out io.Writer, data []byte, num uint32, last bool) error {
		calls = append(calls, vSegCall{data: append([]byte{}, data...), num: num, last: last})
		return nil
	}
	pr, pw := io.Pipe()
	processSegments(src, pw, rec, SegmentSize)
	one := make([]byte, 1)
	n, err := pr.Read(one)
	zzverif.Assert(n == 0 && err == io.EOF, "seg_clean_close")
	want := (L + SegmentSize - 1) / SegmentSize
	zzverif.Assert(len(calls) == want, "seg_count")
	off := 0
	for i, c := range calls {
		zzverif.Assert(c.num == uint32(i), "seg_numbered_in_order")
		zzverif.Assert(c.last == (i == len(calls)-1), "seg_last_flag_only_on_final")
		wantLen := SegmentSize
		if i == len(calls)-1 {
			wantLen = L - off
		}
		zzverif.Assert(len(c.data) == wantLen, "seg_sizes")
		zzverif.Assert(zzverif.EqBytes(c.data, pattern[off:off+len(c.data)]), "seg_bytes")
		off += len(c.data)
	}
	zzverif.Assert(off == L, "seg_covers_input")
	zzverif.Cover("seg_loop_real_size_done")
}

package ratelimiting

import (
	"context"
	"time"

	"github.com/dapr/kit/zzverif"
	"github.com/dapr/kit/zzverifstubs"
)

type vObs struct {
	adds      int
	signals   int
	lastAddAt int // event counter value when the last Add was issued
	lastSigAt int // event counter value when the last signal was received
	events    int
	sigTimes  []time.Time
}

const (
	vInitial = 100 * time.Millisecond
	vMax     = 350 * time.Millisecond
)

func vSetup(maxPending *int) (*coalescing, *zzverifstubs.Clock, *vObs, context.CancelFunc, chan struct{}) {
	start := zzverif.TimeFromNanos(1_000_000_000)
	clk := zzverifstubs.NewClock(start)
	ini, max := vInitial, vMax
	rl, err := NewCoalescing(OptionsCoalescing{InitialDelay: &ini, MaxDelay: &max, MaxPendingEvents: maxPending})
	zzverif.Assert(err == nil, "valid_options_accepted")
	c := rl.(*coalescing)
	c.clock = clk
	obs := &vObs{}
	ch := make(chan struct{})
	ctx, cancel := context.WithCancel(context.Background())
	runDone := make(chan struct{})
	go func() {
		c.Run(ctx, ch)
		close(runDone)
	}()
	go func() { // consumer: reads promptly
		for range ch {
			zzverif.Ghost(func() {
				obs.signals++
				obs.events++
				obs.lastSigAt = obs.events
				obs.sigTimes = append(obs.sigTimes, clk.Now())
			})
		}
	}()
	return c, clk, obs, cancel, runDone
}

func vAdd(c *coalescing, obs *vObs) {
	zzverif.Ghost(func() {
		obs.adds++
		obs.events++
		obs.lastAddAt = obs.events
	})
	c.Add()
}

// First Add after idle is signalled at once; a second Add inside the window (symbolic offset) is signalled when the
// extended window (2 x initial, counted from that Add) ends and not before; one signal per burst; after the window
// expired with nothing pending the limiter is idle again and the next Add is signalled at once; signals <= Adds;
// after Close no helper goroutine is left.
//
//verif:harness prop=C09 name=coalescing_timeline threads=8 sched=delay preempt=2 t_preempt=3 unwind=12 witness=lenient
func VerifCoalescingTimeline() {
	c, clk, obs, _, runDone := vSetup(nil)
	start := clk.Now()
	vAdd(c, obs)
	zzverif.WaitQuiescent()
	zzverif.Assert(obs.signals == 1, "first_add_after_idle_signalled_immediately")
	off := zzverif.Int64("second_add_offset")
	zzverif.Assume(off >= 0)
	zzverif.Assume(off < int64(vInitial))
	clk.Advance(time.Duration(off))
	zzverif.WaitQuiescent()
	zzverif.Assert(obs.signals == 1, "no_signal_without_pending")
	vAdd(c, obs) // inside the window: extends it to 2 x initial from now
	vAdd(c, obs) // burst
	zzverif.WaitQuiescent()
	zzverif.Assert(obs.signals == 1, "burst_inside_window_not_signalled_yet")
	// the window was extended at least once (to 2 x initial) and perhaps twice (to min(4 x initial, max)), counted from
	// the handling of the last Add: it ends no later than off + max
	clk.AdvanceTo(start.Add(time.Duration(off) + 2*vInitial - time.Millisecond))
	zzverif.WaitQuiescent()
	zzverif.Assert(obs.signals == 1, "no_signal_before_window_end")
	clk.AdvanceTo(start.Add(time.Duration(off) + vMax))
	zzverif.WaitQuiescent()
	zzverif.Assert(obs.signals == 2, "burst_yields_single_signal_by_window_end")
	zzverif.Assert(obs.lastSigAt > obs.lastAddAt, "every_add_followed_by_signal")
	// idle again: nothing pending, window over
	clk.Advance(vMax)
	zzverif.WaitQuiescent()
	zzverif.Assert(obs.signals == 2, "no_signal_without_pending")
	vAdd(c, obs)
	zzverif.WaitQuiescent()
	zzverif.Assert(obs.signals == 3, "first_add_after_idle_signalled_immediately")
	// a second burst after the idle period: the back-off starts again from the initial delay, so one more Add is
	// signalled no later than 2 x initial after it
	t3 := clk.Now()
	vAdd(c, obs)
	zzverif.WaitQuiescent()
	zzverif.Assert(obs.signals == 3, "burst_inside_window_not_signalled_yet")
	clk.AdvanceTo(t3.Add(2 * vInitial))
	zzverif.WaitQuiescent()
	zzverif.Assert(obs.signals == 4, "backoff_restarts_from_initial_after_idle")
	zzverif.Assert(obs.signals <= obs.adds, "signals_never_exceed_adds")
	c.Close()
	<-runDone
	zzverif.WaitQuiescent()
	zzverif.Assert(zzverif.ThreadsAliveIs(1), "helpers_finished_when_close_returns") // only the consumer is left
	zzverif.Cover("coalescing_timeline_done")
}

// pending-events cap: with MaxPendingEvents = 2 the Add that finds two events pending is signalled at once
//
//verif:harness prop=C09 name=coalescing_cap threads=8 sched=delay preempt=2 t_preempt=3 unwind=12 witness=lenient
func VerifCoalescingCap() {
	capN := 2
	c, clk, obs, _, runDone := vSetup(&capN)
	vAdd(c, obs)
	zzverif.WaitQuiescent()
	zzverif.Assert(obs.signals == 1, "first_add_after_idle_signalled_immediately")
	if zzverif.Bool("fast_burst") {
		// three Adds back to back: the run loop may see the counter already past the cap
		vAdd(c, obs)
		vAdd(c, obs)
		vAdd(c, obs)
		zzverif.WaitQuiescent()
		zzverif.Assert(obs.signals >= 2, "signal_as_soon_as_pending_cap_reached")
	} else {
		vAdd(c, obs)
		zzverif.WaitQuiescent()
		vAdd(c, obs)
		zzverif.WaitQuiescent()
		// two pending: the cap is reached when the second token is handled
		zzverif.Assert(obs.signals == 2, "signal_as_soon_as_pending_cap_reached")
	}
	zzverif.Assert(obs.lastSigAt > obs.lastAddAt, "every_add_followed_by_signal")
	zzverif.Assert(obs.signals <= obs.adds, "signals_never_exceed_adds")
	clk.Advance(2 * vMax)
	zzverif.WaitQuiescent()
	c.Close()
	<-runDone
	zzverif.WaitQuiescent()
	zzverif.Assert(zzverif.ThreadsAliveIs(1), "helpers_finished_when_close_returns")
	zzverif.Cover("coalescing_cap_done")
}

// Adds from two goroutines racing the timer expiry and context cancellation: signals never exceed Adds, and unless
// the limiter was stopped every Add is eventually followed by a signal
//
//verif:harness prop=C09 name=coalescing_race threads=9 sched=delay preempt=2 t_preempt=3 unwind=12 witness=lenient
func VerifCoalescingRace() {
	c, clk, obs, cancel, runDone := vSetup(nil)
	vAdd(c, obs)
	zzverif.WaitQuiescent()
	done := make(chan struct{}, 2)
	go func() {
		vAdd(c, obs)
		done <- struct{}{}
	}()
	go func() {
		clk.Advance(vInitial) // the first window ends while the Add above is in flight
		done <- struct{}{}
	}()
	<-done
	<-done
	zzverif.WaitQuiescent()
	clk.Advance(4 * vMax)
	zzverif.WaitQuiescent()
	zzverif.Assert(obs.signals <= obs.adds, "signals_never_exceed_adds")
	zzverif.Assert(obs.signals == 2, "add_racing_timer_expiry_not_lost")
	zzverif.Assert(obs.lastSigAt > obs.lastAddAt, "every_add_followed_by_signal")
	cancel()
	<-runDone
	c.Close()
	zzverif.WaitQuiescent()
	zzverif.Assert(zzverif.ThreadsAliveIs(1), "helpers_finished_when_close_returns")
	zzverif.Cover("coalescing_race_done")
}

// One step of the back-off from ANY state satisfying its invariant (inductive step, so that bursts of any length are
// covered, not only the handful of Adds a timeline harness can issue): before the step the factor is 2^k, 0 <= k <= 62,
// and the window is min(initial x 2^k, max); an Add inside the window re-arms the timer with a window that is still
// positive, at least the initial delay and at most the maximum, and the invariant holds again. The factor is forked
// (float conversion is concrete in the engine), the instant of the Add inside the window is symbolic.
//
//verif:harness prop=C09 name=coalescing_backoff_step threads=1 unwind=12 race=off
func VerifCoalescingBackoffStep() {
	delays := [][2]time.Duration{{vInitial, vMax}, {500 * time.Millisecond, 5 * time.Second}, {time.Millisecond, time.Millisecond}, {3 * time.Nanosecond, time.Hour}}
	dl := delays[zzverif.Choose("delays", len(delays))]
	ini, max := dl[0], dl[1]
	start := zzverif.TimeFromNanos(1_000_000_000)
	clk := zzverifstubs.NewClock(start)
	rl, err := NewCoalescing(OptionsCoalescing{InitialDelay: &ini, MaxDelay: &max})
	zzverif.Assert(err == nil, "valid_options_accepted")
	c := rl.(*coalescing)
	c.clock = clk
	k := zzverif.Choose("log2_factor", 63)
	c.backoffFactor = 1 << uint(k)
	cur := max
	if f := float64(ini) * float64(c.backoffFactor); f < float64(max) {
		cur = time.Duration(f)
	}
	c.currentDur = cur
	c.timer = clk.NewTimer(cur)
	c.hasTimer.Store(true)
	c.pendingEvents = 1
	off := zzverif.Int64("add_offset")
	zzverif.Assume(off >= 0)
	zzverif.Assume(off < int64(cur))
	clk.Advance(time.Duration(off))
	ch := make(chan struct{}, 1)
	c.handleInputCh(context.Background(), ch)
	zzverif.Assert(c.currentDur > 0, "window_stays_positive")
	zzverif.Assert(c.currentDur >= ini && c.currentDur <= max, "window_between_initial_and_max")
	zzverif.Assert(c.currentDur >= cur, "window_never_shrinks_during_a_burst")
	zzverif.Assert(c.backoffFactor >= 1, "factor_stays_positive")
	want := max
	if f := float64(ini) * float64(c.backoffFactor); f < float64(max) {
		want = time.Duration(f)
	}
	zzverif.Assert(c.currentDur == want, "invariant_window_is_min_of_scaled_initial_and_max")
	zzverif.Assert(len(ch) == 0, "no_signal_inside_the_window")
	// the re-armed timer fires exactly one window after this Add
	clk.Advance(c.currentDur - 1)
	select {
	case <-c.timer.C():
		zzverif.Assert(false, "timer_not_before_window_end")
	default:
	}
	clk.Advance(1)
	select {
	case <-c.timer.C():
	default:
		zzverif.Assert(false, "timer_at_window_end")
	}
	zzverif.Cover("coalescing_backoff_step_done")
}

// Close with a signal that nobody reads: the consumer has stopped reading, one or two Adds have been signalled (or are
// about to be), and the caller's context is NOT cancelled - Close alone must end the limiter: it returns, Run returns,
// and no helper goroutine is left. A later Add after Close does not block either.
//
//verif:harness prop=C09 name=coalescing_close_unread threads=8 sched=delay preempt=2 t_preempt=3 unwind=12 witness=lenient
func VerifCoalescingCloseUnread() {
	start := zzverif.TimeFromNanos(1_000_000_000)
	clk := zzverifstubs.NewClock(start)
	ini, max := vInitial, vMax
	rl, err := NewCoalescing(OptionsCoalescing{InitialDelay: &ini, MaxDelay: &max})
	zzverif.Assert(err == nil, "valid_options_accepted")
	c := rl.(*coalescing)
	c.clock = clk
	ch := make(chan struct{}) // nobody ever receives from it
	runDone := make(chan struct{})
	go func() {
		c.Run(context.Background(), ch)
		close(runDone)
	}()
	c.Add()
	if zzverif.Bool("second_add_inside_window") {
		zzverif.WaitQuiescent()
		c.Add()
		if zzverif.Bool("window_expires") {
			zzverif.WaitQuiescent()
			clk.Advance(2 * vInitial)
		}
	}
	if zzverif.Bool("settle_before_close") {
		zzverif.WaitQuiescent()
	}
	closed := make(chan struct{})
	go func() {
		zzverif.MustFinish()
		c.Close()
		close(closed)
	}()
	<-closed
	<-runDone
	c.Add() // after Close: must not block the caller
	zzverif.WaitQuiescent()
	zzverif.Assert(zzverif.ThreadsAliveIs(0), "helpers_finished_when_close_returns")
	zzverif.Cover("coalescing_close_unread_done")
}

// Adds issued from several goroutines at once (cap = 2, inside the window after a first Add): the Adds do not interfere
// with each other - no unsynchronised access to the limiter's state (a data race on the pending counter loses
// increments) - and the cap is noticed: the burst is signalled without waiting for the window to end.
//
//verif:harness prop=C09 name=coalescing_concurrent_adds threads=10 sched=delay preempt=2 t_preempt=3 unwind=12 witness=lenient race=violation
func VerifCoalescingConcurrentAdds() {
	capN := 2
	c, clk, obs, _, runDone := vSetup(&capN)
	vAdd(c, obs)
	zzverif.WaitQuiescent()
	zzverif.Assert(obs.signals == 1, "first_add_after_idle_signalled_immediately")
	done := make(chan struct{}, 3)
	for i := 0; i < 3; i++ {
		go func() {
			c.Add()
			done <- struct{}{}
		}()
	}
	<-done
	<-done
	<-done
	zzverif.Ghost(func() { obs.adds += 3 })
	zzverif.WaitQuiescent()
	zzverif.Assert(obs.signals >= 2, "signal_as_soon_as_pending_cap_reached")
	zzverif.Assert(obs.signals <= obs.adds, "signals_never_exceed_adds")
	clk.Advance(2 * vMax)
	zzverif.WaitQuiescent()
	c.Close()
	<-runDone
	zzverif.Cover("coalescing_concurrent_adds_done")
}

// A consumer that reads late: one or two Adds are made while nobody reads the signal channel, the clock passes the end
// of the window (so every decision point - timer expiry, cap check - is reached with the first signal still
// undelivered), and only then does the consumer read everything that is offered: it receives at least one signal
// (no Add is lost) and never more signals than there were Adds.
//
//verif:harness prop=C09 name=coalescing_late_consumer threads=8 sched=delay preempt=2 t_preempt=3 unwind=12 witness=lenient
func VerifCoalescingLateConsumer() {
	start := zzverif.TimeFromNanos(1_000_000_000)
	clk := zzverifstubs.NewClock(start)
	ini, max := vInitial, vMax
	rl, err := NewCoalescing(OptionsCoalescing{InitialDelay: &ini, MaxDelay: &max})
	zzverif.Assert(err == nil, "valid_options_accepted")
	c := rl.(*coalescing)
	c.clock = clk
	ch := make(chan struct{})
	runDone := make(chan struct{})
	go func() {
		c.Run(context.Background(), ch)
		close(runDone)
	}()
	adds := 1
	c.Add()
	zzverif.WaitQuiescent()
	if zzverif.Bool("second_add_inside_window") {
		c.Add()
		adds++
		zzverif.WaitQuiescent()
	}
	// well past the end of every window, in two steps
	clk.Advance(2 * vInitial)
	zzverif.WaitQuiescent()
	clk.Advance(4 * vInitial)
	zzverif.WaitQuiescent()
	// the consumer wakes up and takes whatever is offered, for as long as something is offered
	got := 0
	for i := 0; i < 4; i++ {
		select {
		case <-ch:
			got++
		default:
		}
		zzverif.WaitQuiescent()
		clk.Advance(4 * vInitial)
		zzverif.WaitQuiescent()
	}
	zzverif.Assert(got >= 1, "no_add_lost")
	zzverif.Assert(got <= adds, "signals_never_exceed_adds")
	c.Close()
	<-runDone
	zzverif.Cover("coalescing_late_consumer_done")
}

package ring

import (
	stdring "container/ring"

	"github.com/dapr/kit/zzverif"
)

func vSmall(name string, lo, hi int) int {
	v := zzverif.Int(name)
	zzverif.Assume(v >= lo)
	zzverif.Assume(v <= hi)
	return v
}

func vCollect(r *Ring[int]) []int {
	var out []int
	r.Do(func(v int) { out = append(out, v) })
	return out
}

func vCollectStd(r *stdring.Ring) []int {
	var out []int
	r.Do(func(v any) { out = append(out, v.(int)) })
	return out
}

type vPair struct {
	k   *Ring[int]
	s   *stdring.Ring
	tag *int
}

func (p *vPair) fill() {
	// give every element a fresh tag, the same in both rings
	if p.k == nil {
		return
	}
	n := p.k.Len()
	a, b := p.k, p.s
	for i := 0; i < n; i++ {
		*p.tag++
		a.Value = *p.tag
		b.Value = *p.tag
		a, b = a.Next(), b.Next()
	}
}

func (p *vPair) same(id string) {
	zzverif.Assert((p.k == nil) == (p.s == nil), id+"_nil_agrees")
	zzverif.Assert(p.k.Len() == p.s.Len(), id+"_len_agrees")
	x, y := vCollect(p.k), vCollectStd(p.s)
	zzverif.Assert(len(x) == len(y), id+"_do_agrees")
	for i := range x {
		if i < len(y) {
			zzverif.Assert(x[i] == y[i], id+"_do_agrees")
		}
	}
	if p.k != nil {
		zzverif.Assert(p.k.Prev().Value == p.s.Prev().Value.(int), id+"_prev_agrees")
		zzverif.Assert(p.k.Next().Value == p.s.Next().Value.(int), id+"_next_agrees")
	}
}

func vSeqLen() int {
	if zzverif.Thorough() {
		return 4
	}
	return 3
}

// the generic ring against container/ring on symbolic operation sequences
//
//verif:harness prop=C14 name=ring_vs_container_ring unwind=16
func VerifRingDiff() {
	tag := 0
	n0 := vSmall("n0", -1, 3)
	p := &vPair{k: New[int](n0), s: stdring.New(n0), tag: &tag}
	p.fill()
	p.same("new")
	for i := 0; i < vSeqLen(); i++ {
		if p.k == nil {
			break
		}
		switch zzverif.Choose("op", 5) {
		case 0:
			p.k, p.s = p.k.Next(), p.s.Next()
			p.same("next")
		case 1:
			p.k, p.s = p.k.Prev(), p.s.Prev()
			p.same("prev")
		case 2:
			m := vSmall("move", -3, 3)
			p.k, p.s = p.k.Move(m), p.s.Move(m)
			p.same("move")
		case 3:
			m := vSmall("link_size", 0, 2)
			q := &vPair{k: New[int](m), s: stdring.New(m), tag: &tag}
			q.fill()
			rk, rs := p.k.Link(q.k), p.s.Link(q.s)
			p.same("link")
			r := &vPair{k: rk, s: rs, tag: &tag}
			r.same("link_result")
		case 4:
			m := vSmall("unlink", -1, 3)
			rk, rs := p.k.Unlink(m), p.s.Unlink(m)
			p.same("unlink")
			r := &vPair{k: rk, s: rs, tag: &tag}
			r.same("unlink_result")
		}
	}
	zzverif.Cover("ring_diff_done")
}

// a zero Ring value is a one-element ring (as in container/ring)
//
//verif:harness prop=C14 name=ring_zero_value unwind=8
func VerifRingZero() {
	var k Ring[int]
	var s stdring.Ring
	zzverif.Assert(k.Len() == s.Len(), "zero_len")
	zzverif.Assert(k.Next() == &k, "zero_next_self")
	zzverif.Assert(k.Prev() == &k, "zero_prev_self")
	zzverif.Assert(k.Move(vSmall("m", -2, 2)) == &k, "zero_move_self")
	zzverif.Cover("ring_zero_done")
}

// the buffered ring is a FIFO queue: Front, RemoveFront, Range and Len agree with a plain slice queue for every
// operation sequence, every initial size and buffer size
//
//verif:harness prop=C14 name=buffered_vs_queue unwind=24
func VerifBufferedSeq() {
	is := vSmall("initial", -1, 5) // up to 5: with a buffer size of 1 a RemoveFront then shrinks a ring that still holds elements
	bs := vSmall("bsize", -1, 3)
	b := NewBuffered[int](is, bs)
	var model []*int
	steps := 5
	if zzverif.Thorough() {
		steps = 8
	}
	for i := 0; i < steps; i++ {
		if zzverif.Choose("op", 2) == 0 || len(model) == 0 {
			v := new(int)
			*v = zzverif.Int("value")
			b.AppendBack(v)
			model = append(model, v)
		} else {
			next := b.RemoveFront()
			model = model[1:]
			if len(model) > 0 {
				zzverif.Assert(next == model[0], "remove_front_returns_next")
			} else {
				zzverif.Assert(next == nil, "remove_front_on_last_returns_nil")
			}
		}
		zzverif.Assert(b.Len() == len(model), "len_agrees")
		if len(model) > 0 {
			zzverif.Assert(b.Front() == model[0], "front_agrees")
		} else {
			zzverif.Assert(b.Front() == nil, "front_of_empty_is_nil")
		}
		k := 0
		ok := true
		b.Range(func(p *int) bool {
			if k >= len(model) || p != model[k] {
				ok = false
			}
			k++
			return true
		})
		zzverif.Assert(ok, "range_agrees")
		zzverif.Assert(k == len(model), "range_visits_all")
		// early stop
		k = 0
		b.Range(func(p *int) bool { k++; return false })
		if len(model) > 0 {
			zzverif.Assert(k == 1, "range_stops_when_asked")
		}
		// representation: slots behind the end hold nothing
		zzverif.Assert(b.ring.Len() >= b.end, "ring_large_enough")
	}
	zzverif.Cover("buffered_seq_done")
}

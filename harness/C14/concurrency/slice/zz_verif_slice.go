package slice

import (
	"github.com/dapr/kit/zzverif"
)

// concurrent Append: the results are those of a sequential slice in some order (lengths returned are a permutation
// of the prefix lengths, nothing lost, each appended group contiguous and in order)
//
//verif:harness prop=C14 name=slice_linearizable threads=3 sched=delay preempt=3 t_preempt=4 unwind=10 race=violation witness=lenient
func VerifSliceLinearizable() {
	s := New[int]()
	a1, a2, b1 := zzverif.Int("a1"), zzverif.Int("a2"), zzverif.Int("b1")
	var ra, rb, lenSeen int
	done := make(chan struct{}, 2)
	go func() {
		ra = s.Append(a1, a2)
		done <- struct{}{}
	}()
	go func() {
		rb = s.Append(b1)
		lenSeen = s.Len()
		done <- struct{}{}
	}()
	<-done
	<-done
	data := s.Slice()
	zzverif.Assert(len(data) == 3, "nothing_lost")
	zzverif.Assert(s.Len() == 3, "len_agrees")
	aFirst := zzverif.And(ra == 2, rb == 3)
	bFirst := zzverif.And(rb == 1, ra == 3)
	zzverif.Assert(zzverif.Or(aFirst, bFirst), "append_results_linearizable")
	if ra == 2 {
		zzverif.Assert(data[0] == a1, "order_matches_linearization")
		zzverif.Assert(data[1] == a2, "order_matches_linearization")
		zzverif.Assert(data[2] == b1, "order_matches_linearization")
	} else {
		zzverif.Assert(data[0] == b1, "order_matches_linearization")
		zzverif.Assert(data[1] == a1, "order_matches_linearization")
		zzverif.Assert(data[2] == a2, "order_matches_linearization")
	}
	zzverif.Assert(lenSeen >= rb, "len_monotone")
	zzverif.Assert(lenSeen <= 3, "len_monotone")
	zzverif.Cover("slice_linearizable_done")
}

package cmap

import (
	"github.com/dapr/kit/zzverif"
)

// ---- sequential refinement: one operation from an arbitrary state equals the model operation --------------------

func vArbitraryMap() (*mapimpl[int, int], map[int]int) {
	m := NewMap[int, int]().(*mapimpl[int, int])
	model := map[int]int{}
	n := zzverif.Choose("entries", 4)
	for i := 0; i < n; i++ {
		k, v := zzverif.Int("key"), zzverif.Int("val")
		_, dup := model[k]
		zzverif.Assume(!dup)
		m.m[k] = v
		model[k] = v
	}
	return m, model
}

//verif:harness prop=C14 name=map_refines_model unwind=10
func VerifMapStep() {
	m, model := vArbitraryMap()
	k, v := zzverif.Int("k"), zzverif.Int("v")
	mv, mok := model[k]
	switch zzverif.Choose("op", 7) {
	case 0:
		m.Store(k, v)
		model[k] = v
	case 1:
		got, ok := m.Load(k)
		zzverif.Assert(ok == mok, "load_ok")
		zzverif.Assert(got == mv, "load_value")
	case 2:
		m.Delete(k)
		delete(model, k)
	case 3:
		got, ok := m.LoadAndDelete(k)
		zzverif.Assert(ok == mok, "load_and_delete_ok")
		zzverif.Assert(got == mv, "load_and_delete_value")
		delete(model, k)
	case 4:
		zzverif.Assert(m.Len() == len(model), "len")
	case 5:
		keys := m.Keys()
		zzverif.Assert(len(keys) == len(model), "keys_len")
		for _, kk := range keys {
			_, ok := model[kk]
			zzverif.Assert(ok, "keys_are_model_keys")
		}
	case 6:
		m.Clear()
		model = map[int]int{}
	}
	// state afterwards equals the model
	zzverif.Assert(len(m.m) == len(model), "state_len")
	for kk, vv := range model {
		got, ok := m.m[kk]
		zzverif.Assert(ok, "state_has_model_key")
		zzverif.Assert(got == vv, "state_value")
	}
	n := 0
	m.Range(func(kk, vv int) bool {
		mv2, ok := model[kk]
		zzverif.Assert(ok, "range_yields_model_entries")
		zzverif.Assert(mv2 == vv, "range_yields_model_entries")
		n++
		return true
	})
	zzverif.Assert(n == len(model), "range_visits_all")
	zzverif.Cover("map_step_done")
}

// ---- linearizability: two goroutines x two operations over two keys ---------------------------------------------

type vOp struct {
	kind     int // 0 Store 1 Load 2 Delete 3 LoadAndDelete 4 Len
	key, val int
	resV     int
	resOK    bool
	inv, rsp int // ghost timestamps: invocation / response
}

type vHist struct {
	clock int
	ops   [2][]*vOp
}

func vRunOps(m Map[int, int], h *vHist, t int, n int) {
	for i := 0; i < n; i++ {
		op := &vOp{kind: zzverif.Choose("kind", 5), key: 1 + zzverif.Choose("key", 2), val: zzverif.Int("val")}
		zzverif.Ghost(func() { h.clock++; op.inv = h.clock })
		switch op.kind {
		case 0:
			m.Store(op.key, op.val)
		case 1:
			op.resV, op.resOK = m.Load(op.key)
		case 2:
			m.Delete(op.key)
		case 3:
			op.resV, op.resOK = m.LoadAndDelete(op.key)
		case 4:
			op.resV = m.Len()
		}
		zzverif.Ghost(func() { h.clock++; op.rsp = h.clock })
		h.ops[t] = append(h.ops[t], op)
	}
}

// vApply runs op on the model and reports (as one Bool term) whether its recorded result matches
func vApply(model map[int]int, op *vOp) bool {
	mv, mok := model[op.key]
	switch op.kind {
	case 0:
		model[op.key] = op.val
		return true
	case 1:
		return zzverif.And(op.resOK == mok, op.resV == mv)
	case 2:
		delete(model, op.key)
		return true
	case 3:
		delete(model, op.key)
		return zzverif.And(op.resOK == mok, op.resV == mv)
	case 4:
		return op.resV == len(model)
	}
	return false
}

// vLinearizable: some interleaving of the two per-goroutine sequences that respects real time matches the model
func vLinearizable(a, b []*vOp, model map[int]int) bool {
	if len(a) == 0 && len(b) == 0 {
		return true
	}
	res := false
	if len(a) > 0 && (len(b) == 0 || !(b[0].rsp < a[0].inv)) { // a[0] may go first unless b[0] finished before it began
		m2 := map[int]int{}
		for k, v := range model {
			m2[k] = v
		}
		ok := vApply(m2, a[0])
		res = zzverif.Or(res, zzverif.And(ok, vLinearizable(a[1:], b, m2)))
	}
	if len(b) > 0 && (len(a) == 0 || !(a[0].rsp < b[0].inv)) {
		m2 := map[int]int{}
		for k, v := range model {
			m2[k] = v
		}
		ok := vApply(m2, b[0])
		res = zzverif.Or(res, zzverif.And(ok, vLinearizable(a, b[1:], m2)))
	}
	return res
}

//verif:harness prop=C14 name=map_linearizable threads=3 sched=delay preempt=2 t_preempt=3 unwind=10 race=violation witness=lenient
func VerifMapLinearizable() {
	m := NewMap[int, int]()
	vInitVal = zzverif.Int("init")
	m.Store(1, vInitVal)
	h := &vHist{}
	done := make(chan struct{}, 2)
	for t := 0; t < 2; t++ {
		tt := t
		go func() {
			vRunOps(m, h, tt, 2)
			done <- struct{}{}
		}()
	}
	<-done
	<-done
	model := map[int]int{}
	// the initial Store happened before both goroutines started
	iv, _ := zzverifInit(h)
	model[1] = iv
	zzverif.Assert(vLinearizable(h.ops[0], h.ops[1], model), "history_is_linearizable")
	zzverif.Cover("map_linearizable_done")
}

var vInitVal int

func zzverifInit(h *vHist) (int, bool) { return vInitVal, true }

// Range is one atomic snapshot: while another goroutine stores k1 and then k2, Range never reports the old value of
// k1 together with the new value of k2.
//
//verif:harness prop=C14 name=map_range_atomic threads=2 sched=delay preempt=3 t_preempt=4 unwind=10 race=violation witness=lenient
func VerifMapRangeAtomic() {
	m := NewMap[int, int]()
	o1, o2, n1, n2 := zzverif.Int("old1"), zzverif.Int("old2"), zzverif.Int("new1"), zzverif.Int("new2")
	zzverif.Assume(o1 != n1)
	zzverif.Assume(o2 != n2)
	m.Store(1, o1)
	m.Store(2, o2)
	done := make(chan struct{}, 1)
	go func() {
		m.Store(1, n1)
		m.Store(2, n2)
		done <- struct{}{}
	}()
	var s1, s2 int
	cnt := 0
	m.Range(func(k, v int) bool {
		cnt++
		if k == 1 {
			s1 = v
		} else {
			s2 = v
		}
		return true
	})
	<-done
	zzverif.Assert(cnt == 2, "range_visits_all")
	zzverif.Assert(!zzverif.And(s1 == o1, s2 == n2), "range_is_atomic_snapshot")
	zzverif.Assert(zzverif.Or(s1 == o1, s1 == n1), "range_yields_stored_values")
	zzverif.Assert(zzverif.Or(s2 == o2, s2 == n2), "range_yields_stored_values")
	zzverif.Cover("map_range_atomic_done")
}

package cmap

import (
	"github.com/dapr/kit/zzverif"
)

// AtomicValue and the atomic map: counters behave like plain integers under concurrent Add (no lost update), and
// GetOrCreate hands every caller the same counter for a key (double-checked creation).
//
//verif:harness prop=C14 name=atomic_counter_linearizable threads=3 sched=delay preempt=3 t_preempt=4 unwind=10 race=violation witness=lenient
func VerifAtomicCounter() {
	am := NewAtomic[int, int64]()
	k := zzverif.Int("key")
	d1, d2 := zzverif.Int64("d1"), zzverif.Int64("d2")
	init := zzverif.Int64("create")
	var r1, r2 int64
	var p1, p2 *AtomicValue[int64]
	done := make(chan struct{}, 2)
	go func() {
		p1 = am.GetOrCreate(k, init)
		r1 = p1.Add(d1)
		done <- struct{}{}
	}()
	go func() {
		p2 = am.GetOrCreate(k, init)
		r2 = p2.Add(d2)
		done <- struct{}{}
	}()
	<-done
	<-done
	zzverif.Assert(p1 == p2, "get_or_create_single_counter_per_key")
	final := p1.Load()
	zzverif.Assert(final == init+d1+d2, "no_lost_update")
	// results are those of one of the two orders
	ab := zzverif.And(r1 == init+d1, r2 == init+d1+d2)
	ba := zzverif.And(r2 == init+d2, r1 == init+d1+d2)
	zzverif.Assert(zzverif.Or(ab, ba), "add_results_linearizable")
	got, ok := am.Get(k)
	zzverif.Assert(ok, "get_after_create")
	zzverif.Assert(got == p1, "get_after_create")
	am.Delete(k)
	_, ok = am.Get(k)
	zzverif.Assert(!ok, "get_after_delete")
	zzverif.Cover("atomic_counter_done")
}

//verif:harness prop=C14 name=atomic_map_refines_model unwind=10
func VerifAtomicMapStep() {
	am := NewAtomic[int, int64]().(*atomicMap[int, int64])
	model := map[int]*AtomicValue[int64]{}
	n := zzverif.Choose("entries", 3)
	for i := 0; i < n; i++ {
		k := zzverif.Int("key")
		_, dup := model[k]
		zzverif.Assume(!dup)
		v := &AtomicValue[int64]{value: zzverif.Int64("val")}
		am.items[k] = v
		model[k] = v
	}
	k := zzverif.Int("k")
	mv, mok := model[k]
	switch zzverif.Choose("op", 5) {
	case 0:
		got, ok := am.Get(k)
		zzverif.Assert(ok == mok, "get_ok")
		zzverif.Assert(got == mv, "get_value")
	case 1:
		c := zzverif.Int64("create")
		got := am.GetOrCreate(k, c)
		if mok {
			zzverif.Assert(got == mv, "get_or_create_existing")
		} else {
			zzverif.Assert(got != nil, "get_or_create_new")
			zzverif.Assert(got.Load() == c, "get_or_create_initial_value")
			model[k] = got
		}
	case 2:
		am.Delete(k)
		delete(model, k)
	case 3:
		am.Clear()
		model = map[int]*AtomicValue[int64]{}
	case 4:
		cnt := 0
		am.ForEach(func(kk int, vv *AtomicValue[int64]) {
			zzverif.Assert(model[kk] == vv, "foreach_yields_model_entries")
			cnt++
		})
		zzverif.Assert(cnt == len(model), "foreach_visits_all")
	}
	zzverif.Assert(len(am.items) == len(model), "state_len")
	for kk, vv := range model {
		zzverif.Assert(am.items[kk] == vv, "state_entries")
	}
	zzverif.Cover("atomic_map_step_done")
}

// GetOrCreate racing a second creator of the same key AND a deletion of another key (so that the number of entries
// is the same before and after): still one counter per key, no lost update.
//
//verif:harness prop=C14 name=atomic_getorcreate_with_delete threads=4 sched=delay preempt=3 t_preempt=4 unwind=10 race=violation witness=lenient
func VerifAtomicGetOrCreateDelete() {
	am := NewAtomic[int, int64]()
	am.GetOrCreate(7, 0) // another key, deleted concurrently
	var p1, p2 *AtomicValue[int64]
	done := make(chan struct{}, 3)
	go func() {
		p1 = am.GetOrCreate(1, 0)
		p1.Add(1)
		done <- struct{}{}
	}()
	go func() {
		p2 = am.GetOrCreate(1, 0)
		p2.Add(1)
		done <- struct{}{}
	}()
	go func() {
		am.Delete(7)
		done <- struct{}{}
	}()
	<-done
	<-done
	<-done
	zzverif.Assert(p1 == p2, "get_or_create_single_counter_per_key")
	got, ok := am.Get(1)
	zzverif.Assert(ok, "get_after_create")
	zzverif.Assert(got == p1, "get_after_create")
	zzverif.Assert(got.Load() == 2, "no_lost_update")
	zzverif.Cover("atomic_getorcreate_with_delete_done")
}

// One counter under three concurrent operations: Store(s), Add(d) and Load. Every result is that of one of the
// sequential orders: the final value is s+d (Store first) or s (Add first), Add's result is init+d or s+d accordingly,
// and Load sees one of the values the counter passes through in that order; no data race.
//
//verif:harness prop=C14 name=atomic_value_store_add_load threads=4 sched=delay preempt=3 t_preempt=4 unwind=10 race=violation witness=lenient
func VerifAtomicValueStoreAddLoad() {
	am := NewAtomic[int, int64]()
	init, s, d := zzverif.Int64("create"), zzverif.Int64("stored"), zzverif.Int64("delta")
	v := am.GetOrCreate(1, init)
	var added, loaded int64
	done := make(chan struct{}, 3)
	go func() {
		v.Store(s)
		done <- struct{}{}
	}()
	go func() {
		added = v.Add(d)
		done <- struct{}{}
	}()
	go func() {
		loaded = v.Load()
		done <- struct{}{}
	}()
	<-done
	<-done
	<-done
	final := v.Load()
	storeFirst := zzverif.And(final == s+d, added == s+d)
	addFirst := zzverif.And(final == s, added == init+d)
	zzverif.Assert(zzverif.Or(storeFirst, addFirst), "store_and_add_linearizable")
	// Load returns a value the counter had: init, or one of the two intermediate / final values of the order taken
	okStoreFirst := zzverif.And(storeFirst, zzverif.Or(loaded == init, zzverif.Or(loaded == s, loaded == s+d)))
	okAddFirst := zzverif.And(addFirst, zzverif.Or(loaded == init, zzverif.Or(loaded == init+d, loaded == s)))
	zzverif.Assert(zzverif.Or(okStoreFirst, okAddFirst), "load_sees_a_value_the_counter_had")
	zzverif.Cover("atomic_value_store_add_load_done")
}

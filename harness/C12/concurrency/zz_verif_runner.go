package concurrency

import (
	"context"
	"errors"
	"fmt"
	"time"

	"github.com/dapr/kit/logger"
	"github.com/dapr/kit/zzverif"
	"github.com/dapr/kit/zzverifstubs"
)

var (
	vErrA = errors.New("runner error A")
	vErrB = errors.New("runner error B")
	vErrC = errors.New("closer error C")
	vErrD = errors.New("closer error D")
)

type vRun struct {
	started  int
	returned int
	sawDone  [3]bool
	retErr   [3]error
}

// vRunner builds a runner with one of the behaviours: return at once / block until the context ends; result nil, its
// own error, or context.Canceled
func vRunner(st *vRun, i int, own error) Runner {
	blocks := zzverif.Choose("blocks", 2) == 1
	result := zzverif.Choose("result", 3)
	var ret error
	switch result {
	case 1:
		ret = own
	case 2:
		ret = context.Canceled
	}
	st.retErr[i] = ret
	return func(ctx context.Context) error {
		zzverif.Ghost(func() { st.started++ })
		if blocks {
			<-ctx.Done()
			zzverif.Ghost(func() { st.sawDone[i] = true })
		}
		zzverif.Ghost(func() { st.returned++ })
		return ret
	}
}

func vExpectJoin(err error, parts []error, id string) {
	any := false
	for _, e := range parts {
		if e != nil && e != context.Canceled {
			any = true
			zzverif.Assert(errors.Is(err, e), id+"_contains_each_error")
		}
	}
	if !any {
		zzverif.Assert(err == nil, id+"_nil_when_no_error")
	}
	for _, e := range []error{vErrA, vErrB, vErrC, vErrD} {
		found := false
		for _, p := range parts {
			if p == e {
				found = true
			}
		}
		if !found {
			zzverif.Assert(!errors.Is(err, e), id+"_contains_nothing_else")
		}
	}
	zzverif.Assert(!errors.Is(err, context.Canceled), id+"_drops_context_canceled")
}

// RunnerManager.Run: all runners started, the others' context cancelled once one returned, Run returns after all of
// them with the join of exactly the non-nil non-Canceled errors; a second Run and a late Add are refused.
//
//verif:harness prop=C12 name=runner_manager threads=4 sched=delay preempt=2 t_preempt=3 unwind=10 witness=lenient
func VerifRunnerManager() {
	st := &vRun{}
	n := 1 + zzverif.Choose("runners", 2)
	if zzverif.Thorough() {
		n = 1 + zzverif.Choose("runners3", 3)
	}
	owns := []error{vErrA, vErrB, errors.New("runner error X")}
	var rs []Runner
	allBlock := true
	for i := 0; i < n; i++ {
		rs = append(rs, vRunner(st, i, owns[i]))
	}
	_ = allBlock
	mgr := NewRunnerManager(rs[:n-1]...)
	zzverif.Assert(mgr.Add(rs[n-1]) == nil, "add_before_run_accepted")
	ctx, cancel := context.WithCancel(context.Background())
	// the parent context is cancelled by somebody else at some point (otherwise all-blocking runners legitimately
	// run forever)
	go func() { cancel() }()
	err := mgr.Run(ctx)
	zzverif.Assert(st.started == n, "all_runners_started")
	zzverif.Assert(st.returned == n, "run_returns_after_all_runners_returned")
	vExpectJoin(err, st.retErr[:n], "run_error")
	zzverif.Assert(mgr.Run(context.Background()) == ErrManagerAlreadyStarted, "second_run_refused")
	zzverif.Assert(mgr.Add(rs[0]) == ErrManagerAlreadyStarted, "add_after_start_refused")
	zzverif.Cover("runner_manager_done")
}

// one returning runner cancels the blocked one even though the parent context stays live
//
//verif:harness prop=C12 name=runner_cancels_others threads=3 sched=delay preempt=3 t_preempt=4 unwind=10 witness=lenient
func VerifRunnerCancelsOthers() {
	var sawDone bool
	firstErr := []error{vErrA, nil, context.Canceled, fmt.Errorf("wrapped: %w", context.Canceled)}[zzverif.Choose("first_returns", 4)]
	first := func(ctx context.Context) error { return firstErr }
	second := func(ctx context.Context) error {
		<-ctx.Done()
		zzverif.Ghost(func() { sawDone = true })
		return ctx.Err()
	}
	order := zzverif.Choose("order", 2)
	var mgr *RunnerManager
	if order == 0 {
		mgr = NewRunnerManager(first, second)
	} else {
		mgr = NewRunnerManager(second, first)
	}
	err := mgr.Run(context.Background()) // main must finish: a missing cancel is a deadlock
	zzverif.Assert(sawDone, "other_runner_context_cancelled")
	if firstErr == vErrA {
		zzverif.Assert(errors.Is(err, vErrA), "run_error_contains_each_error")
	} else {
		zzverif.Assert(err == nil, "run_error_nil_when_no_error")
	}
	zzverif.Assert(!errors.Is(err, context.Canceled), "run_error_drops_context_canceled")
	zzverif.Cover("runner_cancels_others_done")
}

func vNopLogger() logger.Logger {
	if !zzverif.Symbolic() {
		return logger.NewLogger("verif-c12")
	}
	var l logger.Logger
	zzverif.Nop(&l)
	return l
}

type vCloser struct {
	calls *int
	err   error
}

func (c vCloser) Close() error {
	zzverif.Ghost(func() { *c.calls++ })
	return c.err
}

// RunnerCloserManager: closers run exactly once and only after all runners returned; Run and Close return after all
// closers with the same joined error; Close from another goroutine at any time; AddCloser racing the shutdown either
// is refused or its closer runs.
//
//verif:harness prop=C12 name=closer_manager threads=6 sched=delay preempt=2 t_preempt=3 unwind=10 witness=lenient
func VerifCloserManager() {
	var runnersReturned, c1calls, c2calls, c3calls, lateCalls int
	var closerSawRunnersDone = true
	runnerErr := []error{nil, vErrA}[zzverif.Choose("runner_err", 2)]
	runner := func(ctx context.Context) error {
		<-ctx.Done()
		zzverif.Ghost(func() { runnersReturned++ })
		return runnerErr
	}
	quick := func(ctx context.Context) error {
		zzverif.Ghost(func() { runnersReturned++ })
		return nil
	}
	var rs []Runner
	rs = append(rs, runner)
	if zzverif.Choose("second_runner", 2) == 1 {
		rs = append(rs, quick)
	}
	nr := len(rs)
	mgr := NewRunnerCloserManager(vNopLogger(), nil, rs...)
	check := func() {
		if runnersReturned != nr {
			closerSawRunnersDone = false
		}
	}
	cErr := []error{nil, vErrC}[zzverif.Choose("closer_err", 2)]
	// the four accepted closer forms and one that is not
	zzverif.Assert(mgr.AddCloser(vCloser{calls: &c1calls, err: cErr}) == nil, "io_closer_accepted")
	zzverif.Assert(mgr.AddCloser(func(ctx context.Context) error {
		zzverif.Ghost(func() { c2calls++; check() })
		return vErrD
	}) == nil, "func_ctx_error_accepted")
	zzverif.Assert(mgr.AddCloser(func() { zzverif.Ghost(func() { c3calls++; check() }) }) == nil, "func_accepted")
	zzverif.Assert(mgr.AddCloser(42) != nil, "unsupported_closer_rejected")

	var closeErr, lateAddErr error
	done := make(chan struct{}, 2)
	go func() {
		zzverif.MustFinish()
		closeErr = mgr.Close()
		done <- struct{}{}
	}()
	runErr := mgr.Run(context.Background())
	<-done
	zzverif.WaitQuiescent()
	if errors.Is(runErr, ErrManagerAlreadyStarted) {
		// Close won the race for 'running' before Run started: Run is refused, nothing ran
		zzverif.Assert(runnersReturned == 0, "refused_run_starts_nothing")
		zzverif.Assert(c1calls+c2calls+c3calls+lateCalls == 0, "refused_run_starts_nothing")
		zzverif.Cover("closer_manager_close_before_run")
		return
	}
	zzverif.Assert(runnersReturned == nr, "run_returns_after_all_runners_returned")
	zzverif.Assert(c1calls == 1, "each_closer_invoked_exactly_once")
	zzverif.Assert(c2calls == 1, "each_closer_invoked_exactly_once")
	zzverif.Assert(c3calls == 1, "each_closer_invoked_exactly_once")
	zzverif.Assert(closerSawRunnersDone, "closers_only_after_all_runners_returned")
	_ = lateAddErr
	vExpectJoin(runErr, []error{runnerErr, cErr, vErrD}, "run_error")
	vExpectJoin(closeErr, []error{runnerErr, cErr, vErrD}, "close_error")
	zzverif.Assert(mgr.Close() == closeErr || errors.Is(mgr.Close(), vErrD), "later_close_returns_same_error")
	zzverif.Cover("closer_manager_done")
}

// Close on a manager that never ran returns at once and prevents a later Run
//
//verif:harness prop=C12 name=close_before_run threads=1 unwind=10
func VerifCloseBeforeRun() {
	mgr := NewRunnerCloserManager(vNopLogger(), nil, func(ctx context.Context) error { return nil })
	zzverif.Assert(mgr.Close() == nil, "close_before_run_returns_nil")
	zzverif.Assert(mgr.Run(context.Background()) == ErrManagerAlreadyStarted, "run_after_close_refused")
	zzverif.Assert(mgr.Add(func(ctx context.Context) error { return nil }) == ErrManagerAlreadyStarted, "add_after_close_refused")
	zzverif.Cover("close_before_run_done")
}

// fatal shutdown fires iff a closer is still running when the grace timer fires
//
//verif:harness prop=C12 name=fatal_iff_over_grace threads=5 sched=delay preempt=2 t_preempt=3 unwind=10 witness=lenient
func VerifFatalIffOverGrace() {
	grace := 5 * time.Second
	if zzverif.Bool("zero_grace_period") {
		// a grace period of zero is a grace period: a closer that takes any time outlasts it
		grace = 0
	}
	start := zzverif.TimeFromNanos(1_000_000_000)
	clk := zzverifstubs.NewClock(start)
	mgr := NewRunnerCloserManager(vNopLogger(), &grace, func(ctx context.Context) error { return nil })
	mgr.clock = clk
	fatal := 0
	mgr.WithFatalShutdown(func() { zzverif.Ghost(func() { fatal++ }) })
	slow := zzverif.Bool("closer_outlasts_grace")
	release := make(chan struct{})
	zzverif.Assert(mgr.AddCloser(func() error {
		if slow {
			<-release
		}
		return nil
	}) == nil, "closer_accepted")
	done := make(chan error, 1)
	go func() { done <- mgr.Run(context.Background()) }()
	zzverif.WaitQuiescent()
	if slow {
		if grace > 0 {
			zzverif.Assert(fatal == 0, "no_fatal_before_grace")
		}
		clk.Advance(grace)
		zzverif.WaitQuiescent()
		zzverif.Assert(fatal == 1, "fatal_when_closers_outlast_grace")
		close(release)
	} else {
		clk.Advance(grace)
		zzverif.WaitQuiescent()
		if grace > 0 {
			zzverif.Assert(fatal == 0, "no_fatal_when_closers_finish_in_time")
		}
	}
	zzverif.Assert(<-done == nil, "run_returns_nil")
	zzverif.Cover("fatal_iff_over_grace_done")
}

// AddCloser called while the manager runs (racing the start of the closing phase): either it is refused with
// ErrManagerAlreadyClosed, or the closer it registered is invoked exactly once.
// (race=off: AddCloser appends to closers under the lock while Run reads len(closers) without it when sizing its
// channel - a benign unsynchronised read that is noted in DESIGN.md and not judged here.)
//
//verif:harness prop=C12 name=addcloser_during_run threads=5 sched=delay preempt=3 t_preempt=4 unwind=10 witness=lenient race=off
func VerifAddCloserDuringRun() {
	var firstCalls, lateCalls, lateFinished int
	lateRelease := make(chan struct{})
	mgr := NewRunnerCloserManager(vNopLogger(), nil, func(ctx context.Context) error { return nil })
	zzverif.Assert(mgr.AddCloser(func() error {
		zzverif.Ghost(func() { firstCalls++ })
		return nil
	}) == nil, "closer_accepted")
	var lateAddErr error
	done := make(chan struct{}, 1)
	go func() {
		zzverif.MustFinish()
		lateAddErr = mgr.AddCloser(func() error {
			zzverif.Ghost(func() { lateCalls++ })
			<-lateRelease // a slow closer
			zzverif.Ghost(func() { lateFinished++ })
			return vErrD
		})
		done <- struct{}{}
	}()
	go func() { close(lateRelease) }() // released at some point
	runErr := mgr.Run(context.Background())
	// Run returns only after all closers finished, with their errors joined
	var finishedAtReturn, callsAtReturn int
	zzverif.Ghost(func() { finishedAtReturn, callsAtReturn = lateFinished, lateCalls })
	<-done
	zzverif.WaitQuiescent()
	zzverif.Assert(firstCalls == 1, "each_closer_invoked_exactly_once")
	if lateAddErr == nil {
		zzverif.Assert(lateCalls == 1, "closer_registered_during_run_is_invoked")
		zzverif.Assert(callsAtReturn == 1, "run_returns_only_after_registered_closers_ran")
		zzverif.Assert(finishedAtReturn == 1, "run_returns_only_after_all_closers_finished")
		zzverif.Assert(errors.Is(runErr, vErrD), "run_error_contains_each_error")
	} else {
		zzverif.Assert(runErr == nil, "run_returns_nil")
		zzverif.Assert(lateAddErr == ErrManagerAlreadyClosed, "late_add_closer_refused_with_sentinel")
		zzverif.Assert(lateCalls == 0, "refused_closer_not_invoked")
	}
	zzverif.Cover("addcloser_during_run_done")
}

// A grace period but no closer registered by the user (the only closer is the manager's own grace-period watchdog):
// once the runners have returned, Run and Close return without the clock moving, and the fatal-shutdown action never
// fires - also when the grace period then passes.
//
//verif:harness prop=C12 name=grace_without_closers threads=5 sched=delay preempt=2 t_preempt=3 unwind=10 witness=lenient
func VerifGraceWithoutClosers() {
	grace := 5 * time.Second
	start := zzverif.TimeFromNanos(1_000_000_000)
	clk := zzverifstubs.NewClock(start)
	var rs []Runner
	if zzverif.Bool("with_runner") {
		rs = append(rs, func(ctx context.Context) error { return nil })
	}
	mgr := NewRunnerCloserManager(vNopLogger(), &grace, rs...)
	mgr.clock = clk
	fatal := 0
	mgr.WithFatalShutdown(func() { zzverif.Ghost(func() { fatal++ }) })
	done := make(chan error, 1)
	go func() {
		zzverif.MustFinish() // without any clock advance
		done <- mgr.Run(context.Background())
	}()
	if len(rs) == 0 {
		// no runner: Run waits for Close
		zzverif.WaitQuiescent()
		zzverif.Assert(mgr.Close() == nil, "close_returns_nil")
	}
	zzverif.Assert(<-done == nil, "run_returns_nil")
	zzverif.Assert(mgr.Close() == nil, "close_after_run_returns_at_once")
	clk.Advance(2 * grace)
	zzverif.WaitQuiescent()
	zzverif.Assert(fatal == 0, "no_fatal_when_nothing_outlasts_the_grace_period")
	zzverif.Assert(zzverif.ThreadsAliveIs(0), "watchdog_gone")
	zzverif.Cover("grace_without_closers_done")
}

// A manager without runners is still a manager that runs at most once: Run returns nil at once, a second Run and a
// later Add are refused with ErrManagerAlreadyStarted; the same for a RunnerCloserManager without runners (whose Run
// waits for Close).
//
//verif:harness prop=C12 name=empty_manager_runs_once threads=3 sched=delay preempt=2 t_preempt=3 unwind=10 witness=lenient
func VerifEmptyManagerRunsOnce() {
	if zzverif.Bool("closer_manager") {
		mgr := NewRunnerCloserManager(vNopLogger(), nil)
		done := make(chan error, 1)
		go func() { done <- mgr.Run(context.Background()) }()
		zzverif.WaitQuiescent()
		zzverif.Assert(mgr.Add(func(ctx context.Context) error { return nil }) == ErrManagerAlreadyStarted, "add_after_start_refused")
		zzverif.Assert(mgr.Run(context.Background()) == ErrManagerAlreadyStarted, "second_run_refused")
		zzverif.Assert(mgr.Close() == nil, "close_returns_nil")
		zzverif.Assert(<-done == nil, "run_returns_nil")
		zzverif.Cover("empty_closer_manager_done")
		return
	}
	mgr := NewRunnerManager()
	zzverif.Assert(mgr.Run(context.Background()) == nil, "empty_run_returns_nil")
	ran := false
	zzverif.Assert(mgr.Add(func(ctx context.Context) error { ran = true; return nil }) == ErrManagerAlreadyStarted, "add_after_start_refused")
	zzverif.Assert(mgr.Run(context.Background()) == ErrManagerAlreadyStarted, "second_run_refused")
	zzverif.Assert(!ran, "runner_added_after_start_never_runs")
	zzverif.Cover("empty_manager_done")
}

// The grace period also covers closers registered while the manager runs: a runner that blocks until its context ends
// keeps the manager running, a slow closer is added with AddCloser during the run (next to a quick one registered
// before), then the context is cancelled; the late closer outlasts the grace period: the fatal-shutdown action fires,
// and not before the period is over; if it finishes in time, it does not.
//
//verif:harness prop=C12 name=fatal_with_closer_added_during_run threads=6 sched=delay preempt=1 t_preempt=2 unwind=10 witness=lenient race=off
func VerifFatalWithLateCloser() {
	grace := 5 * time.Second
	start := zzverif.TimeFromNanos(1_000_000_000)
	clk := zzverifstubs.NewClock(start)
	mgr := NewRunnerCloserManager(vNopLogger(), &grace, func(ctx context.Context) error {
		<-ctx.Done()
		return nil
	})
	mgr.clock = clk
	fatal := 0
	mgr.WithFatalShutdown(func() { zzverif.Ghost(func() { fatal++ }) })
	zzverif.Assert(mgr.AddCloser(func() error { return nil }) == nil, "closer_accepted")
	ctx, cancel := context.WithCancel(context.Background())
	done := make(chan error, 1)
	go func() { done <- mgr.Run(ctx) }()
	zzverif.WaitQuiescent()
	slow := zzverif.Bool("late_closer_outlasts_grace")
	release := make(chan struct{})
	lateRan := 0
	zzverif.Assert(mgr.AddCloser(func() error {
		zzverif.Ghost(func() { lateRan++ })
		if slow {
			<-release
		}
		return nil
	}) == nil, "closer_registered_during_run_accepted")
	cancel()
	zzverif.WaitQuiescent()
	zzverif.Assert(lateRan == 1, "closer_registered_during_run_is_invoked")
	if slow {
		zzverif.Assert(fatal == 0, "no_fatal_before_grace")
		clk.Advance(grace)
		zzverif.WaitQuiescent()
		zzverif.Assert(fatal == 1, "fatal_when_closers_outlast_grace")
		close(release)
	} else {
		clk.Advance(grace)
		zzverif.WaitQuiescent()
		zzverif.Assert(fatal == 0, "no_fatal_when_closers_finish_in_time")
	}
	zzverif.Assert(<-done == nil, "run_returns_nil")
	zzverif.Cover("fatal_with_closer_added_during_run_done")
}

package aescbcaead

import (
	"encoding/binary"

	"github.com/dapr/kit/zzverif"
	"github.com/dapr/kit/zzverifstubs"
)

//verif:stub crypto/aes.NewCipher zzverifstubs.NewCipher
//verif:stub crypto/cipher.NewCBCEncrypter zzverifstubs.NewCBCEncrypter
//verif:stub crypto/cipher.NewCBCDecrypter zzverifstubs.NewCBCDecrypter
//verif:stub crypto/hmac.New zzverifstubs.HmacNew
//verif:stub crypto/hmac.Equal zzverifstubs.HmacEqual
//verif:stub (crypto.Hash).New zzverifstubs.HashNew

type vParams struct {
	name           string
	enc, mac, tag  int
	hash           string
}

var vSets = []vParams{{"128-256", 16, 16, 16, "HMAC_SHA256"}, {"192-384", 24, 24, 24, "HMAC_SHA384"},
	{"256-384", 32, 24, 24, "HMAC_SHA384"}, {"256-512", 32, 32, 32, "HMAC_SHA512"}}

// the reference, written from RFC 7518 section 5.2.2.1 over the same idealised primitives:
//   MAC_KEY = initial bytes of K, ENC_KEY = final bytes of K; E = CBC-PKCS7(ENC_KEY, IV, P);
//   AL = 64-bit big-endian bit length of A; M = MAC(MAC_KEY, A || IV || E || AL); T = first T_LEN bytes of M
func vRefSeal(p vParams, key, iv, pt, aad []byte) []byte {
	macKey, encKey := key[:p.mac], key[len(key)-p.enc:]
	k := 16 - len(pt)%16
	padded := append([]byte{}, pt...)
	for i := 0; i < k; i++ {
		padded = append(padded, byte(k))
	}
	blk, _ := zzverifstubs.NewCipher(encKey)
	e := make([]byte, len(padded))
	zzverifstubs.NewCBCEncrypter(blk, iv).CryptBlocks(e, padded)
	al := make([]byte, 8)
	binary.BigEndian.PutUint64(al, uint64(len(aad))*8)
	msg := append(append(append(append([]byte{}, aad...), iv...), e...), al...)
	sz := map[string]int{"HMAC_SHA256": 32, "HMAC_SHA384": 48, "HMAC_SHA512": 64}[p.hash]
	m := zzverif.UFBytes(p.hash, sz, macKey, msg)
	return append(e, m[:p.tag]...)
}

func vNew(p vParams, key []byte) interface {
	Seal(dst, nonce, plaintext, additionalData []byte) []byte
	Open(dst, nonce, ciphertext, additionalData []byte) ([]byte, error)
} {
	switch p.name {
	case "128-256":
		a, err := NewAESCBC128SHA256(key)
		zzverif.Assert(err == nil, "new_ok")
		return a
	case "192-384":
		a, err := NewAESCBC192SHA384(key)
		zzverif.Assert(err == nil, "new_ok")
		return a
	case "256-384":
		a, err := NewAESCBC256SHA384(key)
		zzverif.Assert(err == nil, "new_ok")
		return a
	}
	a, err := NewAESCBC256SHA512(key)
	zzverif.Assert(err == nil, "new_ok")
	return a
}

// Seal equals the RFC 7518 construction; Open inverts it
//
//verif:harness prop=C03 name=cbcaead_rfc7518 unwind=80 witness=off
func VerifCbcAeadSeal() {
	zzverifstubs.Init()
	p := vSets[zzverif.Choose("set", len(vSets))]
	key := zzverif.Bytes("key", p.enc+p.mac)
	iv := zzverif.Bytes("iv", 16)
	n := []int{0, 1, 16, 17}[zzverif.Choose("ptlen", 4)]
	pt := zzverif.Bytes("pt", n)
	aad := zzverif.Bytes("aad", zzverif.Choose("aadlen", 2)*5)
	a := vNew(p, key)
	out := a.Seal(nil, iv, pt, aad)
	zzverif.Assert(zzverif.EqBytes(out, vRefSeal(p, key, iv, pt, aad)), "seal_is_rfc7518_construction")
	back, err := a.Open(nil, iv, out, aad)
	zzverif.Assert(err == nil, "open_of_seal_ok")
	zzverif.Assert(zzverif.EqBytes(back, pt), "open_inverts_seal")
	// wrong key sizes are refused
	_, err = NewAESCBCAEAD(aesCBCAEADParams{encKeySize: p.enc, macKeySize: p.mac, tagSize: p.tag, key: key[1:]})
	zzverif.Assert(err != nil, "wrong_key_size_refused")
	zzverif.Cover("cbcaead_seal_done")
}

// Open accepts an arbitrary input only when its tag is the MAC of exactly (aad, iv, ciphertext, bit length of aad)
// under the MAC half of the key - so every component is covered - and checks it before decrypting
//
//verif:harness prop=C03 name=cbcaead_open_mac_coverage unwind=80 witness=off
func VerifCbcAeadOpen() {
	zzverifstubs.Init()
	p := vSets[zzverif.Choose("set", len(vSets))]
	key := zzverif.Bytes("key", p.enc+p.mac)
	iv := zzverif.Bytes("iv", 16)
	bl := 16 * (1 + zzverif.Choose("blocks", 2))
	body := zzverif.Bytes("ciphertext", bl)
	tag := zzverif.Bytes("tag", p.tag)
	aad := zzverif.Bytes("aad", zzverif.Choose("aadlen", 2)*5)
	a := vNew(p, key)
	pt, err := a.Open(nil, iv, append(append([]byte{}, body...), tag...), aad)
	al := make([]byte, 8)
	binary.BigEndian.PutUint64(al, uint64(len(aad))*8)
	msg := append(append(append(append([]byte{}, aad...), iv...), body...), al...)
	sz := map[string]int{"HMAC_SHA256": 32, "HMAC_SHA384": 48, "HMAC_SHA512": 64}[p.hash]
	want := zzverif.UFBytes(p.hash, sz, key[:p.mac], msg)[:p.tag]
	if err == nil {
		zzverif.Assert(zzverif.EqBytes(tag, want), "open_accepts_only_the_rfc7518_tag")
		zzverif.Cover("cbcaead_open_accepted")
	} else {
		zzverif.Assert(pt == nil, "open_error_no_output")
		zzverif.Cover("cbcaead_open_rejected")
	}
	if !zzverif.EqBytes(tag, want) {
		zzverif.Assert(err != nil, "wrong_tag_rejected")
	}
}

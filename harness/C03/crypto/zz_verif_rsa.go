package crypto

import (
	"crypto"
	"crypto/ed25519"
	"crypto/rand"
	"crypto/rsa"
	"errors"
	"hash"
	"io"

	"github.com/lestrrat-go/jwx/v2/jwa"
	"github.com/lestrrat-go/jwx/v2/jwk"

	"github.com/dapr/kit/zzverif"
	"github.com/dapr/kit/zzverifstubs"
)

//verif:stub crypto/rsa.SignPKCS1v15 vSignPKCS1v15
//verif:stub crypto/rsa.VerifyPKCS1v15 vVerifyPKCS1v15
//verif:stub crypto/rsa.SignPSS vSignPSS
//verif:stub crypto/rsa.VerifyPSS vVerifyPSS
//verif:stub crypto/rsa.EncryptOAEP vEncryptOAEP
//verif:stub crypto/rsa.DecryptOAEP vDecryptOAEP
//verif:stub crypto/rsa.EncryptPKCS1v15 vEncryptPKCS1v15
//verif:stub crypto/rsa.DecryptPKCS1v15 vDecryptPKCS1v15
//verif:stub crypto/ed25519.Sign vEdSign
//verif:stub crypto/ed25519.Verify vEdVerify
//verif:stub (crypto.Hash).New zzverifstubs.HashNew

// Contract stubs for crypto/rsa and crypto/ed25519 (symbolic runs only; the native replay uses the real functions with
// real keys). A signature is an uninterpreted function of (scheme, hash, key, digest), injective in the digest
// (left-inverse axiom; 64 bytes, so that an injection from a 64-byte digest exists); signing refuses a digest whose
// length is not the hash's size, as the real functions do; verification recomputes. The key is identified by its
// public exponent field.

var vCalls []string // hash names the primitives were called with, in order

func vHashSize(h crypto.Hash) int {
	switch h {
	case crypto.SHA1:
		return 20
	case crypto.SHA256:
		return 32
	case crypto.SHA384:
		return 48
	case crypto.SHA512:
		return 64
	}
	return -1
}

func vKeyID(pub *rsa.PublicKey) []byte { return []byte{byte(pub.E), byte(pub.E >> 8)} }

func vRSASig(scheme byte, h crypto.Hash, pub *rsa.PublicKey, digest []byte) []byte {
	return zzverif.UFBytes("RSASIG", 64, []byte{scheme, byte(h)}, vKeyID(pub), digest)
}

func vSign(scheme byte, priv *rsa.PrivateKey, h crypto.Hash, digest []byte) ([]byte, error) {
	if vHashSize(h) != len(digest) {
		return nil, errors.New("crypto/rsa: input must be hashed message")
	}
	return vRSASig(scheme, h, &priv.PublicKey, digest), nil
}

func vVerify(scheme byte, pub *rsa.PublicKey, h crypto.Hash, digest, sig []byte) error {
	if vHashSize(h) != len(digest) {
		return errors.New("crypto/rsa: input must be hashed message")
	}
	if len(sig) != 64 || !zzverif.EqBytes(sig, vRSASig(scheme, h, pub, digest)) {
		return rsa.ErrVerification
	}
	return nil
}

func vSignPKCS1v15(r io.Reader, priv *rsa.PrivateKey, h crypto.Hash, digest []byte) ([]byte, error) {
	return vSign(1, priv, h, digest)
}
func vVerifyPKCS1v15(pub *rsa.PublicKey, h crypto.Hash, digest, sig []byte) error {
	return vVerify(1, pub, h, digest, sig)
}
func vSignPSS(r io.Reader, priv *rsa.PrivateKey, h crypto.Hash, digest []byte, opts *rsa.PSSOptions) ([]byte, error) {
	return vSign(2, priv, h, digest)
}
func vVerifyPSS(pub *rsa.PublicKey, h crypto.Hash, digest, sig []byte, opts *rsa.PSSOptions) error {
	return vVerify(2, pub, h, digest, sig)
}

// encryption: the ciphertext is an uninterpreted function of (scheme+hash, key, data), left-invertible in data, where
// data = [len(label)] ++ label ++ message, followed by one byte holding len(data) (a ciphertext determines the length
// of what it carries). Decryption inverts, accepts only a ciphertext that re-encrypts to itself, and - as OAEP does -
// refuses it when the label inside differs from the label given.
func vEnc(scheme string, pub *rsa.PublicKey, label, msg []byte) ([]byte, error) {
	if len(msg) == 0 || len(msg) > 40 {
		return nil, rsa.ErrMessageTooLong
	}
	data := append(append([]byte{byte(len(label))}, label...), msg...)
	ct := zzverif.UFBytes("RSAENC", 63, []byte(scheme), vKeyID(pub), data)
	return append(ct, byte(len(data))), nil
}

func vDec(scheme string, priv *rsa.PrivateKey, label, ct []byte) ([]byte, error) {
	if len(ct) != 64 {
		return nil, rsa.ErrDecryption
	}
	for n := 2; n <= 6; n++ { // data lengths the harness can produce
		if int(ct[63]) != n {
			continue
		}
		cand := zzverif.UFBytes("RSADEC", n, []byte(scheme), vKeyID(&priv.PublicKey), ct[:63])
		if !zzverif.EqBytes(zzverif.UFBytes("RSAENC", 63, []byte(scheme), vKeyID(&priv.PublicKey), cand), ct[:63]) {
			return nil, rsa.ErrDecryption
		}
		for ll := 0; ll <= 2 && 1+ll < n; ll++ {
			if int(cand[0]) != ll {
				continue
			}
			if ll != len(label) || !zzverif.EqBytes(cand[1:1+ll], label) {
				return nil, rsa.ErrDecryption
			}
			return append([]byte{}, cand[1+ll:]...), nil
		}
		return nil, rsa.ErrDecryption
	}
	return nil, rsa.ErrDecryption
}

func vEncryptOAEP(h hash.Hash, r io.Reader, pub *rsa.PublicKey, msg, label []byte) ([]byte, error) {
	name := h.(*zzverifstubs.Hash).Name
	vCalls = append(vCalls, name)
	return vEnc("OAEP-"+name, pub, label, msg)
}
func vDecryptOAEP(h hash.Hash, r io.Reader, priv *rsa.PrivateKey, ct, label []byte) ([]byte, error) {
	name := h.(*zzverifstubs.Hash).Name
	vCalls = append(vCalls, name)
	return vDec("OAEP-"+name, priv, label, ct)
}
func vEncryptPKCS1v15(r io.Reader, pub *rsa.PublicKey, msg []byte) ([]byte, error) {
	vCalls = append(vCalls, "PKCS1v15")
	return vEnc("PKCS1v15", pub, nil, msg)
}
func vDecryptPKCS1v15(r io.Reader, priv *rsa.PrivateKey, ct []byte) ([]byte, error) {
	vCalls = append(vCalls, "PKCS1v15")
	return vDec("PKCS1v15", priv, nil, ct)
}

func vEdSign(priv ed25519.PrivateKey, msg []byte) []byte {
	return zzverif.UFBytes("ED25519", 64, priv[32:], msg)
}
func vEdVerify(pub ed25519.PublicKey, msg, sig []byte) bool {
	return len(sig) == 64 && zzverif.EqBytes(sig, zzverif.UFBytes("ED25519", 64, pub, msg))
}

// vRSAKey: a jwk.Key holding an RSA key (natively a real 2048-bit key)
type vRSAKey struct {
	jwk.Key
	priv *rsa.PrivateKey
}

func (k vRSAKey) KeyType() jwa.KeyType { return jwa.RSA }
func (k vRSAKey) Raw(v interface{}) error {
	switch p := v.(type) {
	case *rsa.PrivateKey:
		*p = *k.priv
		return nil
	case *rsa.PublicKey:
		*p = k.priv.PublicKey
		return nil
	}
	return errNotBytes
}
func (k vRSAKey) PublicKey() (jwk.Key, error) { return k, nil }

var vNativeRSA *rsa.PrivateKey

func vMakeRSAKey(name string) vRSAKey {
	if !zzverif.Symbolic() {
		_ = zzverif.Int(name)
		if vNativeRSA == nil {
			vNativeRSA, _ = rsa.GenerateKey(rand.Reader, 2048)
		}
		return vRSAKey{priv: vNativeRSA}
	}
	e := zzverif.Int(name)
	zzverif.Assume(e >= 3)
	zzverif.Assume(e < 1<<16)
	return vRSAKey{priv: &rsa.PrivateKey{PublicKey: rsa.PublicKey{E: e}}}
}

// RS256/384/512 and PS256/384/512: the algorithm name selects the scheme and the hash. A digest of the hash's size is
// signed, the signature verifies under the same name and key, a different signature or a different digest of the same
// size does not (reported as (false, nil), not as an error); a digest of another size is refused with an error and no
// signature; a key of another kind is ErrKeyTypeMismatch; the same holds for verification.
//
//verif:harness prop=C03 name=rsa_sig_dispatch unwind=80 solver=cvc5-bv
func VerifRSASigDispatch() {
	zzverifstubs.Init()
	zzverif.UFLeftInverse("RSASIG", "RSASIG_INV")
	algs := []string{Algorithm_RS256, Algorithm_RS384, Algorithm_RS512, Algorithm_PS256, Algorithm_PS384, Algorithm_PS512}
	sizes := []int{32, 48, 64, 32, 48, 64}
	ai := zzverif.Choose("alg", len(algs))
	dl := []int{32, 48, 64, 20, 0}[zzverif.Choose("digest_len", 5)]
	digest := zzverif.Bytes("digest", dl)
	if zzverif.Bool("wrong_key_kind") {
		sig, err := SignPrivateKey(digest, algs[ai], vMakeECKey(256))
		zzverif.Assert(zzverif.ErrIs(err, ErrKeyTypeMismatch) && sig == nil, "sign_wrong_key_kind_is_key_type_mismatch")
		ok, err := VerifyPublicKey(digest, zzverif.Bytes("some_sig", 64), algs[ai], vMakeECKey(256))
		zzverif.Assert(zzverif.ErrIs(err, ErrKeyTypeMismatch) && !ok, "verify_wrong_key_kind_is_key_type_mismatch")
		zzverif.Cover("rsa_sig_wrong_key")
		return
	}
	key := vMakeRSAKey("key_id")
	sig, err := SignPrivateKey(digest, algs[ai], key)
	if dl != sizes[ai] {
		zzverif.Assert(err != nil && sig == nil, "digest_of_wrong_size_refused_without_output")
		zzverif.Cover("rsa_sig_wrong_digest_size")
		return
	}
	zzverif.Assert(err == nil, "right_size_digest_signs")
	ok, err := VerifyPublicKey(digest, sig, algs[ai], key)
	zzverif.Assert(err == nil && ok, "own_signature_verifies")
	switch zzverif.Choose("tamper", 3) {
	case 0:
		sig2 := zzverif.Bytes("sig2", len(sig))
		zzverif.Assume(!zzverif.EqBytes(sig2, sig))
		ok, err = VerifyPublicKey(digest, sig2, algs[ai], key)
		zzverif.Assert(!ok, "changed_signature_rejected")
		zzverif.Assert(err == nil, "bad_signature_is_false_not_error")
	case 1:
		d2 := zzverif.Bytes("digest2", dl)
		zzverif.Assume(!zzverif.EqBytes(d2, digest))
		ok, err = VerifyPublicKey(d2, sig, algs[ai], key)
		zzverif.Assert(!ok, "changed_digest_rejected")
		zzverif.Assert(err == nil, "bad_signature_is_false_not_error")
	case 2:
		// the same signature under a name for another hash (same scheme): never accepted
		other := algs[ai/3*3+(ai+1)%3]
		ok, _ = VerifyPublicKey(digest, sig, other, key)
		zzverif.Assert(!ok, "signature_not_accepted_under_another_hash_name")
	}
	zzverif.Cover("rsa_sig_done")
}

// RSA1_5, RSA-OAEP, RSA-OAEP-256/384/512: the name selects the padding and the OAEP hash (SHA-1, SHA-256, SHA-384,
// SHA-512) on both sides; decryption inverts encryption; with OAEP a different label is refused; an unknown name is
// ErrUnsupportedAlgorithm and a key of another kind ErrKeyTypeMismatch, without output.
//
//verif:harness prop=C03 name=rsa_enc_dispatch unwind=80 solver=z3-new
func VerifRSAEncDispatch() {
	zzverifstubs.Init()
	zzverif.UFLeftInverse("RSAENC", "RSADEC")
	algs := []string{Algorithm_RSA1_5, Algorithm_RSA_OAEP, Algorithm_RSA_OAEP_256, Algorithm_RSA_OAEP_384, Algorithm_RSA_OAEP_512, "RSA-OAEP-1024"}
	want := []string{"PKCS1v15", "SHA1", "SHA256", "SHA384", "SHA512", ""}
	ai := zzverif.Choose("alg", len(algs))
	msg := zzverif.Bytes("msg", 1+zzverif.Choose("msg_len", 3))
	label := zzverif.Bytes("label", zzverif.Choose("label_len", 2))
	if zzverif.Bool("wrong_key_kind") {
		zzverif.Assume(ai < 5)
		ct, err := EncryptPublicKey(msg, algs[ai], vMakeECKey(256), label)
		zzverif.Assert(zzverif.ErrIs(err, ErrKeyTypeMismatch) && ct == nil, "encrypt_wrong_key_kind_is_key_type_mismatch")
		pt, err := DecryptPrivateKey(zzverif.Bytes("some_ct", 64), algs[ai], vMakeECKey(256), label)
		zzverif.Assert(zzverif.ErrIs(err, ErrKeyTypeMismatch) && pt == nil, "decrypt_wrong_key_kind_is_key_type_mismatch")
		zzverif.Cover("rsa_enc_wrong_key")
		return
	}
	key := vMakeRSAKey("key_id")
	vCalls = nil
	ct, err := EncryptPublicKey(msg, algs[ai], key, label)
	if ai == 5 {
		zzverif.Assert(zzverif.ErrIs(err, ErrUnsupportedAlgorithm) && ct == nil, "unknown_name_is_unsupported_algorithm")
		pt, err := DecryptPrivateKey(zzverif.Bytes("some_ct", 64), algs[ai], key, label)
		zzverif.Assert(zzverif.ErrIs(err, ErrUnsupportedAlgorithm) && pt == nil, "unknown_name_is_unsupported_algorithm")
		zzverif.Cover("rsa_enc_unsupported")
		return
	}
	zzverif.Assert(err == nil, "encrypt_ok")
	pt, err := DecryptPrivateKey(ct, algs[ai], key, label)
	zzverif.Assert(err == nil, "decrypt_of_encrypt_ok")
	zzverif.Assert(zzverif.EqBytes(pt, msg), "decrypt_inverts_encrypt")
	if zzverif.Symbolic() {
		zzverif.Assert(len(vCalls) == 2 && vCalls[0] == want[ai] && vCalls[1] == want[ai], "name_selects_padding_and_hash_on_both_sides")
	}
	if ai >= 1 && len(label) > 0 {
		l2 := zzverif.Bytes("label2", len(label))
		zzverif.Assume(!zzverif.EqBytes(l2, label))
		pt2, err := DecryptPrivateKey(ct, algs[ai], key, l2)
		if zzverif.Symbolic() || err != nil {
			zzverif.Assert(err != nil && pt2 == nil, "other_label_refused_without_output")
		}
	}
	zzverif.Cover("rsa_enc_done")
}

// vOKPKey: a jwk.Key of kind OKP (Ed25519 or another curve)
type vOKPKey struct {
	jwk.OKPPrivateKey
	crv  jwa.EllipticCurveAlgorithm
	priv ed25519.PrivateKey
}

func (k vOKPKey) KeyType() jwa.KeyType            { return jwa.OKP }
func (k vOKPKey) Crv() jwa.EllipticCurveAlgorithm { return k.crv }
func (k vOKPKey) Raw(v interface{}) error {
	switch p := v.(type) {
	case *ed25519.PrivateKey:
		*p = k.priv
		return nil
	case *ed25519.PublicKey:
		*p = ed25519.PublicKey(k.priv[32:])
		return nil
	}
	return errNotBytes
}
func (k vOKPKey) PublicKey() (jwk.Key, error) { return vOKPPub{crv: k.crv, pub: ed25519.PublicKey(k.priv[32:])}, nil }

type vOKPPub struct {
	jwk.OKPPublicKey
	crv jwa.EllipticCurveAlgorithm
	pub ed25519.PublicKey
}

func (k vOKPPub) KeyType() jwa.KeyType            { return jwa.OKP }
func (k vOKPPub) Crv() jwa.EllipticCurveAlgorithm { return k.crv }
func (k vOKPPub) Raw(v interface{}) error {
	if p, ok := v.(*ed25519.PublicKey); ok {
		*p = k.pub
		return nil
	}
	return errNotBytes
}
func (k vOKPPub) PublicKey() (jwk.Key, error) { return k, nil }

// EdDSA: an Ed25519 key signs the message and the signature verifies; another signature or message does not; an OKP
// key on another curve (X25519) or a key of another kind is ErrKeyTypeMismatch on both sides.
//
//verif:harness prop=C03 name=eddsa_dispatch unwind=80 solver=cvc5-bv qtimeout=60
func VerifEdDSADispatch() {
	zzverifstubs.Init()
	zzverif.UFLeftInverse("ED25519", "ED25519_INV")
	msg := zzverif.Bytes("msg", 1+zzverif.Choose("msg_len", 3))
	var priv ed25519.PrivateKey
	if zzverif.Symbolic() {
		priv = ed25519.PrivateKey(zzverif.Bytes("ed_key", 64))
	} else {
		_ = zzverif.Bytes("ed_key", 64)
		_, priv, _ = ed25519.GenerateKey(rand.Reader)
	}
	switch zzverif.Choose("key", 3) {
	case 1:
		k := vOKPKey{crv: jwa.X25519, priv: priv}
		sig, err := SignPrivateKey(msg, Algorithm_EdDSA, k)
		zzverif.Assert(zzverif.ErrIs(err, ErrKeyTypeMismatch) && sig == nil, "other_okp_curve_is_key_type_mismatch")
		ok, err := VerifyPublicKey(msg, zzverif.Bytes("some_sig", 64), Algorithm_EdDSA, k)
		zzverif.Assert(zzverif.ErrIs(err, ErrKeyTypeMismatch) && !ok, "other_okp_curve_is_key_type_mismatch")
		zzverif.Cover("eddsa_other_curve")
		return
	case 2:
		sig, err := SignPrivateKey(msg, Algorithm_EdDSA, vMakeECKey(256))
		zzverif.Assert(zzverif.ErrIs(err, ErrKeyTypeMismatch) && sig == nil, "other_key_kind_is_key_type_mismatch")
		ok, err := VerifyPublicKey(msg, zzverif.Bytes("some_sig", 64), Algorithm_EdDSA, vMakeECKey(256))
		zzverif.Assert(zzverif.ErrIs(err, ErrKeyTypeMismatch) && !ok, "other_key_kind_is_key_type_mismatch")
		zzverif.Cover("eddsa_other_kind")
		return
	}
	k := vOKPKey{crv: jwa.Ed25519, priv: priv}
	sig, err := SignPrivateKey(msg, Algorithm_EdDSA, k)
	zzverif.Assert(err == nil && len(sig) == 64, "ed25519_signs")
	ok, err := VerifyPublicKey(msg, sig, Algorithm_EdDSA, k)
	zzverif.Assert(err == nil && ok, "own_signature_verifies")
	if zzverif.Bool("tamper_signature") {
		sig2 := zzverif.Bytes("sig2", 64)
		zzverif.Assume(!zzverif.EqBytes(sig2, sig))
		ok, err = VerifyPublicKey(msg, sig2, Algorithm_EdDSA, k)
		zzverif.Assert(!ok && err == nil, "changed_signature_rejected")
	} else {
		m2 := zzverif.Bytes("msg2", len(msg))
		zzverif.Assume(!zzverif.EqBytes(m2, msg))
		ok, err = VerifyPublicKey(m2, sig, Algorithm_EdDSA, k)
		zzverif.Assert(!ok && err == nil, "changed_message_rejected")
	}
	zzverif.Cover("eddsa_done")
}

package crypto

import (
	"crypto/ecdsa"
	"crypto/elliptic"
	"crypto/rand"
	"io"
	"math/big"

	"github.com/lestrrat-go/jwx/v2/jwa"
	"github.com/lestrrat-go/jwx/v2/jwk"

	"github.com/dapr/kit/zzverif"
)

//verif:stub crypto/elliptic.P256 vP256
//verif:stub crypto/elliptic.P384 vP384
//verif:stub crypto/elliptic.P521 vP521
//verif:stub crypto/ecdsa.SignASN1 vSignASN1
//verif:stub crypto/ecdsa.VerifyASN1 vVerifyASN1

// idealised curves: three distinct objects with the documented bit sizes
type vCurve struct{ p *elliptic.CurveParams }

func (c *vCurve) Params() *elliptic.CurveParams                        { return c.p }
func (c *vCurve) IsOnCurve(x, y *big.Int) bool                        { return true }
func (c *vCurve) Add(x1, y1, x2, y2 *big.Int) (*big.Int, *big.Int)    { panic("not modelled") }
func (c *vCurve) Double(x1, y1 *big.Int) (*big.Int, *big.Int)         { panic("not modelled") }
func (c *vCurve) ScalarMult(x, y *big.Int, k []byte) (*big.Int, *big.Int) { panic("not modelled") }
func (c *vCurve) ScalarBaseMult(k []byte) (*big.Int, *big.Int)        { panic("not modelled") }

var (
	vC256 = &vCurve{&elliptic.CurveParams{BitSize: 256, Name: "P-256"}}
	vC384 = &vCurve{&elliptic.CurveParams{BitSize: 384, Name: "P-384"}}
	vC521 = &vCurve{&elliptic.CurveParams{BitSize: 521, Name: "P-521"}}
)

func vP256() elliptic.Curve { return vC256 }
func vP384() elliptic.Curve { return vC384 }
func vP521() elliptic.Curve { return vC521 }

// idealised ECDSA: the signature is an uninterpreted function of (curve size, digest) carried in a byte string of
// ANY length the real ASN.1 encoding can have for that curve - SEQUENCE { INTEGER r, INTEGER s } with r, s of at most
// bits/8+1 content bytes: 8 .. 72 bytes for P-256, .. 104 for P-384, .. 139 for P-521 (long-form length) -, forked
// over the shortest, the longest and the one below it; verification recomputes the function
func vDERMax(bits int) int {
	inner := 2 * (2 + bits/8 + 1)
	if inner > 127 {
		return inner + 3
	}
	return inner + 2
}

func vSignASN1(r io.Reader, priv *ecdsa.PrivateKey, hash []byte) ([]byte, error) {
	bits := priv.Curve.Params().BitSize
	core := zzverif.UFBytes("ECDSA", 8, []byte{byte(bits / 8)}, hash)
	l := []int{8, vDERMax(bits) - 1, vDERMax(bits)}[zzverif.Choose("der_length", 3)]
	return append(core, make([]byte, l-8)...), nil
}

func vVerifyASN1(pub *ecdsa.PublicKey, hash, sig []byte) bool {
	bits := pub.Curve.Params().BitSize
	if len(sig) < 8 || len(sig) > vDERMax(bits) {
		return false
	}
	return zzverif.EqBytes(sig[:8], zzverif.UFBytes("ECDSA", 8, []byte{byte(bits / 8)}, hash))
}

// vECKey: a jwk.Key holding an EC key on a given curve (natively a real one)
type vECKey struct {
	jwk.Key
	priv *ecdsa.PrivateKey
}

func (k vECKey) KeyType() jwa.KeyType { return jwa.EC }
func (k vECKey) Raw(v interface{}) error {
	switch p := v.(type) {
	case *ecdsa.PrivateKey:
		*p = *k.priv
		return nil
	case *ecdsa.PublicKey:
		*p = k.priv.PublicKey
		return nil
	}
	return errNotBytes
}
func (k vECKey) PublicKey() (jwk.Key, error) { return k, nil }

func vMakeECKey(bits int) vECKey {
	if !zzverif.Symbolic() {
		c := map[int]elliptic.Curve{256: elliptic.P256(), 384: elliptic.P384(), 521: elliptic.P521()}[bits]
		priv, _ := ecdsa.GenerateKey(c, rand.Reader)
		return vECKey{priv: priv}
	}
	c := map[int]*vCurve{256: vC256, 384: vC384, 521: vC521}[bits]
	return vECKey{priv: &ecdsa.PrivateKey{PublicKey: ecdsa.PublicKey{Curve: c}}}
}

// ES256 / ES384 / ES512 name a curve (P-256 / P-384 / P-521): a key on the matching curve signs and its signature
// verifies under the same name; a key on another curve is a key of the wrong kind: ErrKeyTypeMismatch, no signature,
// and no successful verification
//
//verif:harness prop=C03 name=ecdsa_algorithm_names_curve unwind=200 replay_attempts=8
func VerifECDSACurve() {
	algs := []string{Algorithm_ES256, Algorithm_ES384, Algorithm_ES512}
	bits := []int{256, 384, 521}
	ai, ki := zzverif.Choose("alg", 3), zzverif.Choose("key_curve", 3)
	key := vMakeECKey(bits[ki])
	digest := zzverif.Bytes("digest", 8)
	sig, err := SignPrivateKey(digest, algs[ai], key)
	if ai == ki {
		zzverif.Assert(err == nil, "matching_curve_signs")
		ok, err := VerifyPublicKey(digest, sig, algs[ai], key)
		zzverif.Assert(err == nil, "matching_curve_verifies")
		zzverif.Assert(ok, "matching_curve_verifies")
		// the same signature under a name for another curve is not accepted
		other := algs[(ai+1)%3]
		ok2, err2 := VerifyPublicKey(digest, sig, other, key)
		zzverif.Assert(!ok2, "signature_not_accepted_under_another_algorithm_name")
		zzverif.Assert(zzverif.ErrIs(err2, ErrKeyTypeMismatch), "wrong_curve_is_key_type_mismatch")
	} else {
		zzverif.Assert(zzverif.ErrIs(err, ErrKeyTypeMismatch), "wrong_curve_is_key_type_mismatch")
		zzverif.Assert(sig == nil, "wrong_curve_gives_no_signature")
	}
	zzverif.Cover("ecdsa_curve_done")
}

package aeskw

import (
	"crypto/aes"
	"encoding/binary"

	"github.com/dapr/kit/zzverif"
)

// vBlock is an ideal block cipher: E_k and D_k are uninterpreted functions on 128-bit blocks with D(E(x)) = x and
// E(D(y)) = y (instantiated by the engine for every application that occurs).
type vBlock struct{ key []byte }

func (b vBlock) BlockSize() int { return 16 }
func (b vBlock) Encrypt(dst, src []byte) {
	if !zzverif.Symbolic() { // native replay: the real AES
		c, _ := aes.NewCipher(b.key)
		c.Encrypt(dst, src)
		return
	}
	copy(dst[:16], zzverif.UFBytes("E", 16, b.key, src[:16]))
}
func (b vBlock) Decrypt(dst, src []byte) {
	if !zzverif.Symbolic() {
		c, _ := aes.NewCipher(b.key)
		c.Decrypt(dst, src)
		return
	}
	copy(dst[:16], zzverif.UFBytes("D", 16, b.key, src[:16]))
}

var vIV = []byte{0xA6, 0xA6, 0xA6, 0xA6, 0xA6, 0xA6, 0xA6, 0xA6}

// refWrap / refUnwrap: RFC 3394 section 2.2.1 / 2.2.2 (index based), transcribed from the RFC text.
func refWrap(b vBlock, p []byte) []byte {
	n := len(p) / 8
	a := append([]byte{}, vIV...)
	r := make([][]byte, n+1)
	for i := 1; i <= n; i++ {
		r[i] = append([]byte{}, p[(i-1)*8:i*8]...)
	}
	for j := 0; j <= 5; j++ {
		for i := 1; i <= n; i++ {
			in := append(append([]byte{}, a...), r[i]...)
			out := make([]byte, 16)
			b.Encrypt(out, in)
			t := make([]byte, 8)
			binary.BigEndian.PutUint64(t, uint64(n*j+i))
			for k := 0; k < 8; k++ {
				a[k] = out[k] ^ t[k]
			}
			r[i] = out[8:16]
		}
	}
	c := append([]byte{}, a...)
	for i := 1; i <= n; i++ {
		c = append(c, r[i]...)
	}
	return c
}

func refUnwrap(b vBlock, c []byte) (p []byte, ok bool) {
	n := len(c)/8 - 1
	a := append([]byte{}, c[:8]...)
	r := make([][]byte, n+1)
	for i := 1; i <= n; i++ {
		r[i] = append([]byte{}, c[i*8:(i+1)*8]...)
	}
	for j := 5; j >= 0; j-- {
		for i := n; i >= 1; i-- {
			t := make([]byte, 8)
			binary.BigEndian.PutUint64(t, uint64(n*j+i))
			in := make([]byte, 16)
			for k := 0; k < 8; k++ {
				in[k] = a[k] ^ t[k]
			}
			copy(in[8:], r[i])
			out := make([]byte, 16)
			b.Decrypt(out, in)
			a = out[:8]
			r[i] = out[8:16]
		}
	}
	for i := 1; i <= n; i++ {
		p = append(p, r[i]...)
	}
	return p, zzverif.EqBytes(a, vIV)
}

func vMaxN() int {
	if zzverif.Thorough() {
		return 4
	}
	return 2
}

//verif:harness prop=C03 name=aeskw_wrap_rfc3394 unwind=40
func VerifWrapRef() {
	zzverif.UFInverse("E", "D")
	n := zzverif.Choose("n", vMaxN()) + 1
	blk := vBlock{key: zzverif.Bytes("kek", 16)}
	cek := zzverif.Bytes("cek", n*8)
	w, err := Wrap(blk, cek)
	zzverif.Assert(err == nil, "wrap_ok")
	zzverif.Assert(len(w) == (n+1)*8, "wrap_len")
	zzverif.Assert(zzverif.EqBytes(w, refWrap(blk, cek)), "wrap_equals_rfc3394")
	u, err2 := Unwrap(blk, w)
	zzverif.Assert(err2 == nil, "unwrap_of_wrap_ok")
	zzverif.Assert(zzverif.EqBytes(u, cek), "unwrap_of_wrap_is_identity")
	zzverif.Cover("aeskw_wrap_done")
}

//verif:harness prop=C03 name=aeskw_unwrap_rfc3394 unwind=40 solver=cvc5-bv qtimeout=90
func VerifUnwrapRef() {
	zzverif.UFInverse("E", "D")
	n := zzverif.Choose("n", vMaxN()) + 1
	blk := vBlock{key: zzverif.Bytes("kek", 16)}
	c := zzverif.Bytes("c", (n+1)*8)
	auth := zzverif.Bool("authentic")
	if !zzverif.Symbolic() && auth {
		// native replay of a witness: the solver's c is authentic only under the ideal cipher; rebuild it with AES
		w, _ := Wrap(blk, c[8:])
		copy(c, w)
	}
	u, err := Unwrap(blk, c)
	p, ok := refUnwrap(blk, c)
	zzverif.Assume(auth == ok)
	if err == nil {
		zzverif.Assert(ok, "unwrap_accepts_only_when_iv_matches")
		zzverif.Assert(zzverif.EqBytes(u, p), "unwrap_equals_rfc3394")
		// and wrapping the result gives the input back (E(D(y)) = y)
		if n == 1 { // deeper nesting of E(D(..)) is beyond the solver's reach inside the time-out (stated bound)
			w, err2 := Wrap(blk, u)
			zzverif.Assert(err2 == nil, "wrap_of_unwrap_ok")
			zzverif.Assert(zzverif.EqBytes(w, c), "wrap_of_unwrap_is_identity")
		}
		zzverif.Cover("aeskw_unwrap_ok")
	} else {
		zzverif.Assert(!ok, "unwrap_rejects_only_when_iv_differs")
		zzverif.Assert(u == nil, "unwrap_error_no_output")
		zzverif.Cover("aeskw_unwrap_rejected")
	}
}

//verif:harness prop=C03 name=aeskw_lengths unwind=40 panic=ok
func VerifKwLengths() {
	// every wrapped-key length that is not a multiple of 8, or is shorter than 16, is refused with no output
	L := zzverif.Choose("L", 34)
	zzverif.Assume(L%8 != 0 || L < 16)
	blk := vBlock{key: zzverif.Bytes("kek", 16)}
	c := zzverif.Bytes("c", L)
	if !zzverif.Symbolic() && L >= 16 {
		// native replay: the solver's c is authentic only under the ideal cipher; build an authentic prefix with AES
		w, _ := Wrap(blk, c[8:8*(L/8)])
		copy(c, w)
	}
	u, err := Unwrap(blk, c)
	zzverif.Assert(err != nil, "unwrap_bad_length_rejected")
	zzverif.Assert(u == nil, "unwrap_bad_length_no_output")
	zzverif.Cover("aeskw_lengths_done")
}

//verif:harness prop=C03 name=aeskw_wrap_lengths unwind=40
func VerifKwWrapLengths() {
	L := zzverif.Choose("L", 26)
	zzverif.Assume(L%8 != 0)
	blk := vBlock{key: zzverif.Bytes("kek", 16)}
	w, err := Wrap(blk, zzverif.Bytes("cek", L))
	zzverif.Assert(err != nil, "wrap_bad_length_rejected")
	zzverif.Assert(w == nil, "wrap_bad_length_no_output")
	zzverif.Cover("aeskw_wrap_lengths_done")
}

// Long key data: the step counter t = n*j+i of RFC 3394 is a 64-bit big-endian value; with n = 43 blocks it exceeds
// one byte (6n = 258). Wrap must still equal the reference (compared as terms over the same ideal cipher).
//
//verif:harness prop=C03 name=aeskw_wrap_rfc3394_long unwind=300 witness=off solver=z3-new incr=off qtimeout=60
func VerifWrapRefLong() {
	n := 43
	blk := vBlock{key: zzverif.Bytes("kek", 16)}
	cek := zzverif.Bytes("cek", n*8)
	w, err := Wrap(blk, cek)
	zzverif.Assert(err == nil, "wrap_ok")
	zzverif.Assert(len(w) == (n+1)*8, "wrap_len")
	zzverif.Assert(zzverif.EqBytes(w, refWrap(blk, cek)), "wrap_equals_rfc3394_long_input")
	zzverif.Cover("aeskw_wrap_long_done")
}

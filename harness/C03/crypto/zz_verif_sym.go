package crypto

import (
	"github.com/dapr/kit/zzverif"
	"github.com/dapr/kit/zzverifstubs"
)

//verif:stub crypto/aes.NewCipher zzverifstubs.NewCipher
//verif:stub crypto/cipher.NewGCM zzverifstubs.NewGCM
//verif:stub crypto/cipher.NewGCMWithTagSize zzverifstubs.NewGCMWithTagSize
//verif:stub crypto/cipher.NewGCMWithNonceSize zzverifstubs.NewGCMWithNonceSize
//verif:stub crypto/cipher.NewCBCEncrypter zzverifstubs.NewCBCEncrypter
//verif:stub crypto/cipher.NewCBCDecrypter zzverifstubs.NewCBCDecrypter
//verif:stub golang.org/x/crypto/chacha20poly1305.New zzverifstubs.NewChaCha
//verif:stub golang.org/x/crypto/chacha20poly1305.NewX zzverifstubs.NewXChaCha
//verif:stub crypto/hmac.New zzverifstubs.HmacNew
//verif:stub crypto/hmac.Equal zzverifstubs.HmacEqual
//verif:stub (crypto.Hash).New zzverifstubs.HashNew

type vAlg struct {
	name             string
	key, nonce, tag  int  // required sizes (nonce/tag 0 = not used)
	aead             bool // authenticated: ciphertext, tag, nonce and aad are all protected
	nopad            bool
	kw               bool
}

var vSymAlgs = []vAlg{
	{Algorithm_A128CBC, 16, 16, 0, false, false, false}, {Algorithm_A192CBC, 24, 16, 0, false, false, false},
	{Algorithm_A256CBC, 32, 16, 0, false, false, false},
	{Algorithm_A128CBC_NOPAD, 16, 16, 0, false, true, false}, {Algorithm_A192CBC_NOPAD, 24, 16, 0, false, true, false},
	{Algorithm_A256CBC_NOPAD, 32, 16, 0, false, true, false},
	{Algorithm_A128GCM, 16, 12, 16, true, false, false}, {Algorithm_A192GCM, 24, 12, 16, true, false, false},
	{Algorithm_A256GCM, 32, 12, 16, true, false, false},
	{Algorithm_A128CBC_HS256, 32, 16, 16, true, false, false}, {Algorithm_A192CBC_HS384, 48, 16, 24, true, false, false},
	{Algorithm_A256CBC_HS512, 64, 16, 32, true, false, false},
	{Algorithm_A128KW, 16, 0, 0, false, false, true}, {Algorithm_A192KW, 24, 0, 0, false, false, true},
	{Algorithm_A256KW, 32, 0, 0, false, false, true},
	{Algorithm_C20P, 32, 12, 16, true, false, false}, {Algorithm_XC20P, 32, 24, 16, true, false, false},
	{Algorithm_C20PKW, 32, 12, 16, true, false, false}, {Algorithm_XC20PKW, 32, 24, 16, true, false, false},
}

func vPick() vAlg {
	if zzverif.Thorough() {
		return vSymAlgs[zzverif.Choose("alg", len(vSymAlgs))]
	}
	quick := []int{0, 5, 6, 9, 12, 15, 16}
	return vSymAlgs[quick[zzverif.Choose("alg", len(quick))]]
}

// for the round trip the RFC 3394 algorithms are left to the aeskw harnesses (their 6n-deep inverse chain needs its
// own solver set-up)
func vPickNoKW() vAlg {
	var idx []int
	for i, a := range vSymAlgs {
		if !a.kw && (zzverif.Thorough() || i == 0 || i == 5 || i == 6 || i == 9 || i >= 15) { // every AEAD family, all four ChaCha names
			idx = append(idx, i)
		}
	}
	return vSymAlgs[idx[zzverif.Choose("alg", len(idx))]]
}

// vXorMask returns b XOR an arbitrary mask that is not all zero (any value of the same size other than b)
func vXorMask(name string, b []byte) []byte {
	mask := zzverif.Bytes(name, len(b))
	out := make([]byte, len(b))
	nz := false
	for i := range b {
		nz = zzverif.Or(nz, mask[i] != 0)
		out[i] = b[i] ^ mask[i]
	}
	zzverif.Assume(nz)
	return out
}

func vMsgLen(a vAlg) int {
	if a.kw {
		return 8 * (1 + zzverif.Choose("blocks", 2))
	}
	if a.nopad {
		return 16 * zzverif.Choose("blocks", 3)
	}
	return []int{0, 1, 16, 17}[zzverif.Choose("msglen", 4)]
}

// right-size arguments: Decrypt inverts Encrypt; for the authenticated algorithms any change to ciphertext, tag, nonce
// or associated data is rejected with no output; the tag has the documented size
//
//verif:harness prop=C03 name=sym_roundtrip_and_tamper unwind=80
func VerifSymRoundTrip() {
	zzverifstubs.Init()
	zzverifstubs.Strict = true // unforgeability: only what was sealed opens
	a := vPickNoKW()
	key := vKey{raw: zzverif.Bytes("key", a.key)}
	nonce := zzverif.Bytes("nonce", a.nonce)
	aad := zzverif.Bytes("aad", zzverif.Choose("aadlen", 2)*3)
	n := vMsgLen(a)
	pt := zzverif.Bytes("pt", n)
	ct, tag, err := EncryptSymmetric(pt, a.name, key, nonce, aad)
	zzverif.Assert(err == nil, "encrypt_ok_with_right_sizes")
	zzverif.Assert(len(tag) == a.tag, "tag_size")
	got, err := DecryptSymmetric(ct, a.name, key, nonce, tag, aad)
	zzverif.Assert(err == nil, "decrypt_of_encrypt_ok")
	zzverif.Assert(zzverif.EqBytes(got, pt), "decrypt_inverts_encrypt")
	isCBCHMAC := a.name == Algorithm_A128CBC_HS256 || a.name == Algorithm_A192CBC_HS384 || a.name == Algorithm_A256CBC_HS512
	if a.aead && !isCBCHMAC { // AES-CBC-HMAC: what the MAC covers is checked against RFC 7518 in the aescbcaead harness
		// tamper with one component: an arbitrary different value of the same size
		what := zzverif.Choose("tamper", 4)
		ct2, tag2, nonce2, aad2 := ct, tag, nonce, aad
		// (an arbitrary non-zero XOR mask over the authentic value: the native replay applies the same mask to the
		// values the real primitives produce; the authentic ciphertext slice itself - which shares its array with the
		// tag - is passed whenever the ciphertext is not the tampered component)
		switch what {
		case 0:
			ct2 = vXorMask("ct_mask", ct)
		case 1:
			tag2 = vXorMask("tag_mask", tag)
		case 2:
			nonce2 = vXorMask("nonce_mask", nonce)
		case 3:
			if len(aad) == 0 {
				aad2 = zzverif.Bytes("aad2", 2)
			} else {
				aad2 = vXorMask("aad_mask", aad)
			}
		}
		// ideal primitives: the MAC / AEAD is collision free (different inputs give different tags)
		out, err := DecryptSymmetric(ct2, a.name, key, nonce2, tag2, aad2)
		zzverif.Assert(err != nil, "tampered_input_rejected")
		zzverif.Assert(out == nil, "rejected_input_gives_no_output")
	}
	zzverif.Cover("sym_roundtrip_done")
}

// wrong-size arguments give the sentinel the package defines for the case, and no output
//
//verif:harness prop=C03 name=sym_size_errors unwind=80
func VerifSymSizeErrors() {
	zzverifstubs.Init()
	a := vPick()
	bad := zzverif.Choose("wrong", 5) // 0 key, 1 nonce, 2 tag (decrypt), 3 plaintext length (nopad), 4 ciphertext length (cbc decrypt)
	// the wrong size is one byte off, or a size that is right for ANOTHER algorithm of the package (the confusable ones)
	wrong := func(right int) int {
		cands := []int{right - 1, right + 1}
		for _, s := range []int{0, 8, 12, 16, 24, 32, 48, 64} {
			if s != right {
				cands = append(cands, s)
			}
		}
		return cands[zzverif.Choose("wrong_size", len(cands))]
	}
	kl, nl, tl := a.key, a.nonce, a.tag
	switch bad {
	case 0:
		kl = wrong(a.key)
	case 1:
		zzverif.Assume(a.nonce > 0)
		nl = wrong(a.nonce)
	case 2:
		zzverif.Assume(a.tag > 0)
		tl = wrong(a.tag)
	case 3:
		zzverif.Assume(a.nopad)
	case 4:
		zzverif.Assume(!a.aead && !a.kw)
	}
	key := vKey{raw: zzverif.Bytes("key", kl)}
	nonce := zzverif.Bytes("nonce", nl)
	n := 16
	if bad == 3 || bad == 4 {
		n = 16 + 1 + zzverif.Choose("extra", 14)
	}
	msg := zzverif.Bytes("msg", n)
	if bad != 2 && bad != 4 {
		ct, tag, err := EncryptSymmetric(msg, a.name, key, nonce, nil)
		switch bad {
		case 0:
			zzverif.Assert(zzverif.ErrIs(err, ErrKeyTypeMismatch), "encrypt_wrong_key_size_sentinel")
		case 1:
			zzverif.Assert(zzverif.ErrIs(err, ErrInvalidNonce), "encrypt_wrong_nonce_size_sentinel")
		case 3:
			zzverif.Assert(zzverif.ErrIs(err, ErrInvalidPlaintextLength), "encrypt_nopad_length_sentinel")
		}
		zzverif.Assert(ct == nil, "encrypt_error_no_output")
		zzverif.Assert(tag == nil, "encrypt_error_no_output")
	}
	if bad != 3 {
		tag := zzverif.Bytes("tag", tl)
		out, err := DecryptSymmetric(msg, a.name, key, nonce, tag, nil)
		switch bad {
		case 0:
			zzverif.Assert(zzverif.ErrIs(err, ErrKeyTypeMismatch), "decrypt_wrong_key_size_sentinel")
		case 1:
			zzverif.Assert(zzverif.ErrIs(err, ErrInvalidNonce), "decrypt_wrong_nonce_size_sentinel")
		case 2:
			zzverif.Assert(zzverif.ErrIs(err, ErrInvalidTag), "decrypt_wrong_tag_size_sentinel")
		case 4:
			zzverif.Assert(zzverif.ErrIs(err, ErrInvalidCiphertextLength), "decrypt_cbc_length_sentinel")
		}
		zzverif.Assert(out == nil, "decrypt_error_no_output")
	}
	zzverif.Cover("sym_size_errors_done")
}

// unknown algorithm names and a key of the wrong kind
//
//verif:harness prop=C03 name=sym_unsupported unwind=20
func VerifSymUnsupported() {
	name := []string{"", "A128", "A128CBC-HS512", "a128gcm", "RSA-OAEP", "A128GCMKW"}[zzverif.Choose("name", 6)]
	key := vKey{raw: zzverif.Bytes("key", 16)}
	ct, tag, err := EncryptSymmetric(zzverif.Bytes("pt", 16), name, key, zzverif.Bytes("nonce", 12), nil)
	zzverif.Assert(zzverif.ErrIs(err, ErrUnsupportedAlgorithm), "unknown_name_sentinel")
	zzverif.Assert(ct == nil, "error_no_output")
	zzverif.Assert(tag == nil, "error_no_output")
	out, err := DecryptSymmetric(zzverif.Bytes("ct", 16), name, key, zzverif.Bytes("nonce2", 12), zzverif.Bytes("tag", 16), nil)
	zzverif.Assert(zzverif.ErrIs(err, ErrUnsupportedAlgorithm), "unknown_name_sentinel")
	zzverif.Assert(out == nil, "error_no_output")
	// a key that is not an octet sequence
	rsaKey := vKey{raw: zzverif.Bytes("key2", 16), kt: "RSA"}
	_, _, err = EncryptSymmetric(zzverif.Bytes("pt2", 16), Algorithm_A128GCM, rsaKey, zzverif.Bytes("nonce3", 12), nil)
	zzverif.Assert(zzverif.ErrIs(err, ErrKeyTypeMismatch), "wrong_key_kind_sentinel")
	zzverif.Cover("sym_unsupported_done")
}

package padding

import (
	"github.com/dapr/kit/zzverif"
)

// vSize: the block size is concretised by forking (2..17 and 255 quick, 2..40 and 254, 255 thorough): a symbolic
// modulus (len % size) stalls every solver back end, see DESIGN.md section 7.
func vSize() int {
	n := 16
	if zzverif.Thorough() {
		n = 39
	}
	k := zzverif.Choose("size", n+2)
	if k == n {
		return 255
	}
	if k == n+1 {
		return 254
	}
	return k + 2
}

//verif:harness prop=C03 name=pkcs7_pad unwind=260 qtimeout=60
func VerifPkcs7Pad() {
	maxL := 12
	if zzverif.Thorough() {
		maxL = 40
	}
	L := zzverif.Choose("L", maxL+1)
	b := zzverif.Bytes("b", L)
	size := vSize()
	p, err := PadPKCS7(b, size)
	zzverif.Assert(err == nil, "pad_ok")
	k := size - L%size
	zzverif.Assert(len(p) == L+k, "pad_len")
	zzverif.Assert(len(p)%size == 0, "pad_multiple")
	// p = b || k x byte(k), checked at a Skolem position
	i := zzverif.Int("i")
	zzverif.Assume(i >= 0)
	zzverif.Assume(i < len(p))
	if i < L {
		zzverif.Assert(p[i] == b[i], "pad_prefix")
	} else {
		zzverif.Assert(p[i] == byte(k), "pad_bytes")
	}
	// round trip
	u, err2 := UnpadPKCS7(p, size)
	zzverif.Assert(err2 == nil, "unpad_of_pad_ok")
	zzverif.Assert(zzverif.EqBytes(u, b), "unpad_of_pad_is_identity")
	zzverif.Cover("pkcs7_pad_done")
}

//verif:harness prop=C03 name=pkcs7_unpad unwind=260
func VerifPkcs7Unpad() {
	maxL := 12
	if zzverif.Thorough() {
		maxL = 34
	}
	L := zzverif.Choose("L", maxL+1)
	x := zzverif.Bytes("x", L)
	size := vSize()
	u, err := UnpadPKCS7(x, size)
	if err == nil {
		if L == 0 {
			zzverif.Assert(len(u) == 0, "unpad_empty")
		} else {
			// success only on strings of the form m || k x byte(k), 1 <= k <= size, len multiple of size
			k := int(x[L-1])
			zzverif.Assert(L%size == 0, "unpad_accepts_only_multiples")
			zzverif.Assert(k >= 1, "unpad_k_pos")
			zzverif.Assert(k <= size, "unpad_k_le_size")
			zzverif.Assert(k <= L, "unpad_k_le_len")
			zzverif.Assert(len(u) == L-k, "unpad_len")
			j := zzverif.Int("j")
			zzverif.Assume(j >= 0)
			zzverif.Assume(j < L)
			if j >= L-k {
				zzverif.Assert(x[j] == byte(k), "unpad_padding_bytes_checked")
			} else {
				zzverif.Assert(u[j] == x[j], "unpad_prefix")
			}
		}
		zzverif.Cover("pkcs7_unpad_ok")
	} else {
		zzverif.Assert(u == nil, "unpad_error_no_output")
		zzverif.Assert(err == ErrInvalidPKCS7Padding, "unpad_error_sentinel")
		zzverif.Cover("pkcs7_unpad_err")
	}
}

//verif:harness prop=C03 name=pkcs7_size unwind=8
func VerifPkcs7Size() {
	b := zzverif.Bytes("b", 3)
	size := zzverif.Int("size")
	bad := zzverif.Or(size <= 1, size >= 256)
	zzverif.Assume(bad)
	p, err := PadPKCS7(b, size)
	zzverif.Assert(err == ErrInvalidPKCS7BlockSize, "pad_bad_size_err")
	zzverif.Assert(p == nil, "pad_bad_size_no_output")
	u, err2 := UnpadPKCS7(b, size)
	zzverif.Assert(err2 == ErrInvalidPKCS7BlockSize, "unpad_bad_size_err")
	zzverif.Assert(u == nil, "unpad_bad_size_no_output")
	zzverif.Cover("pkcs7_size_done")
}

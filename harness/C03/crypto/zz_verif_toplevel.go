package crypto

import (
	"github.com/dapr/kit/zzverif"
	"github.com/dapr/kit/zzverifstubs"
)

//verif:stub crypto/aes.NewCipher zzverifstubs.NewCipher
//verif:stub crypto/cipher.NewGCM zzverifstubs.NewGCM
//verif:stub crypto/cipher.NewGCMWithTagSize zzverifstubs.NewGCMWithTagSize
//verif:stub crypto/cipher.NewGCMWithNonceSize zzverifstubs.NewGCMWithNonceSize
//verif:stub crypto/cipher.NewCBCEncrypter zzverifstubs.NewCBCEncrypter
//verif:stub crypto/cipher.NewCBCDecrypter zzverifstubs.NewCBCDecrypter
//verif:stub golang.org/x/crypto/chacha20poly1305.New zzverifstubs.NewChaCha
//verif:stub golang.org/x/crypto/chacha20poly1305.NewX zzverifstubs.NewXChaCha
//verif:stub crypto/hmac.New zzverifstubs.HmacNew
//verif:stub crypto/hmac.Equal zzverifstubs.HmacEqual
//verif:stub (crypto.Hash).New zzverifstubs.HashNew
//verif:stub crypto/rsa.EncryptOAEP vEncryptOAEP
//verif:stub crypto/rsa.DecryptOAEP vDecryptOAEP
//verif:stub crypto/rsa.EncryptPKCS1v15 vEncryptPKCS1v15
//verif:stub crypto/rsa.DecryptPKCS1v15 vDecryptPKCS1v15

// The package's top-level Encrypt and Decrypt (the entry points that accept every algorithm name): they hand each
// argument - key, nonce, tag, associated data - to the symmetric or the public-key helper in its own place, so that
// Decrypt inverts Encrypt for symmetric AEADs with associated data and for RSA-OAEP with a label, a different
// associated data / label is refused, and names that are listed but not implemented, or unknown, give
// ErrUnsupportedAlgorithm without output.
//
//verif:harness prop=C03 name=toplevel_dispatch unwind=80 solver=z3-new
func VerifTopLevelDispatch() {
	zzverifstubs.Init()
	zzverifstubs.Strict = true
	zzverif.UFLeftInverse("RSAENC", "RSADEC")
	msg := zzverif.Bytes("msg", 1+zzverif.Choose("msg_len", 2))
	aad := zzverif.Bytes("aad", 1)
	aad2 := zzverif.Bytes("aad2", 1)
	zzverif.Assume(aad[0] != aad2[0])
	switch zzverif.Choose("family", 3) {
	case 0: // symmetric AEADs
		algs := []struct {
			name       string
			key, nonce int
		}{{Algorithm_A128GCM, 16, 12}, {Algorithm_A256GCM, 32, 12}, {Algorithm_C20P, 32, 12}, {Algorithm_XC20P, 32, 24}}
		a := algs[zzverif.Choose("alg", len(algs))]
		key := vKey{raw: zzverif.Bytes("key", a.key)}
		nonce := zzverif.Bytes("nonce", a.nonce)
		ct, tag, err := Encrypt(msg, a.name, key, nonce, aad)
		zzverif.Assert(err == nil && len(tag) == 16, "toplevel_encrypt_ok")
		pt, err := Decrypt(ct, a.name, key, nonce, tag, aad)
		zzverif.Assert(err == nil && zzverif.EqBytes(pt, msg), "toplevel_decrypt_inverts_encrypt")
		pt, err = Decrypt(ct, a.name, key, nonce, tag, aad2)
		zzverif.Assert(err != nil && pt == nil, "toplevel_other_associated_data_refused")
	case 1: // RSA
		algs := []string{Algorithm_RSA1_5, Algorithm_RSA_OAEP, Algorithm_RSA_OAEP_256, Algorithm_RSA_OAEP_384, Algorithm_RSA_OAEP_512}
		ai := zzverif.Choose("alg", len(algs))
		key := vMakeRSAKey("key_id")
		nonce := zzverif.Bytes("nonce", 1) // not used by RSA; must not end up anywhere
		ct, tag, err := Encrypt(msg, algs[ai], key, nonce, aad)
		zzverif.Assert(err == nil && tag == nil, "toplevel_encrypt_ok")
		pt, err := Decrypt(ct, algs[ai], key, zzverif.Bytes("nonce2", 1), nil, aad)
		zzverif.Assert(err == nil && zzverif.EqBytes(pt, msg), "toplevel_decrypt_inverts_encrypt")
		if ai >= 1 {
			pt, err = Decrypt(ct, algs[ai], key, nonce, nil, aad2)
			if zzverif.Symbolic() || err != nil {
				zzverif.Assert(err != nil && pt == nil, "toplevel_other_label_refused")
			}
		}
	case 2: // listed in consts.go but not implemented, and unknown names
		names := []string{Algorithm_A128GCMKW, Algorithm_A192GCMKW, Algorithm_A256GCMKW, Algorithm_ECDH_ES, Algorithm_ECDH_ES_A128KW,
			Algorithm_ECDH_ES_A192KW, Algorithm_ECDH_ES_A256KW, "", "nope"}
		name := names[zzverif.Choose("name", len(names))]
		key := vKey{raw: zzverif.Bytes("key", 16)}
		ct, tag, err := Encrypt(msg, name, key, zzverif.Bytes("nonce", 12), aad)
		zzverif.Assert(err != nil && ct == nil && tag == nil, "unimplemented_or_unknown_name_refused_without_output")
		zzverif.Assert(zzverif.ErrIs(err, ErrUnsupportedAlgorithm) || zzverif.ErrIs(err, ErrKeyTypeMismatch), "unimplemented_name_sentinel")
		pt, err := Decrypt(msg, name, key, zzverif.Bytes("nonce2", 12), zzverif.Bytes("tag", 16), aad)
		zzverif.Assert(err != nil && pt == nil, "unimplemented_or_unknown_name_refused_without_output")
	}
	zzverif.Cover("toplevel_dispatch_done")
}

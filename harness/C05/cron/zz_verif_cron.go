package cron

import (
	"time"

	"github.com/dapr/kit/zzverif"
	"github.com/dapr/kit/zzverifstubs"
)

type vLogger struct{}

func (vLogger) Info(msg string, keysAndValues ...interface{})             {}
func (vLogger) Error(err error, msg string, keysAndValues ...interface{}) {}

// vEvery: activation instants are added-time-independent multiples: Next(t) = t + period (whole seconds)
type vEvery struct{ period time.Duration }

func (s vEvery) Next(t time.Time) time.Time { return t.Add(s.period) }

type vStart struct {
	job int
	at  time.Time
}

type vJobs struct {
	starts []vStart
	block  chan struct{}
	clk    *zzverifstubs.Clock
}

func (j *vJobs) job(id int, blocking bool) FuncJob {
	return func() {
		zzverif.Ghost(func() { j.starts = append(j.starts, vStart{job: id, at: j.clk.Now()}) })
		if blocking {
			<-j.block
		}
	}
}

func (j *vJobs) count(id int) int {
	n := 0
	for _, s := range j.starts {
		if s.job == id {
			n++
		}
	}
	return n
}

// the instant entry id last started (its Prev): starts are stamped with the harness clock
func vLastStartOf(j *vJobs, id int, clk *zzverifstubs.Clock) time.Time {
	var t time.Time
	for _, s := range j.starts {
		if s.job == id {
			t = s.at
		}
	}
	return t
}

func vPeriod(name string) time.Duration {
	p := zzverif.Int64(name)
	zzverif.Assume(p >= 1)
	zzverif.Assume(p <= 4)
	return time.Duration(p) * time.Second
}

// One entry with a symbolic period, scheduler running: no start before the activation instant, exactly one start when
// the clock reaches it, exactly one per wake-up when the clock jumps over several, Entries reports the Next/Prev
// actually used, Remove stops further starts, Stop's context completes only after a blocked job returned, nothing
// starts after Stop.
//
//verif:harness prop=C05 name=cron_single_entry threads=5 sched=delay preempt=2 t_preempt=3 unwind=12 witness=lenient
func VerifCronSingleEntry() {
	start := zzverif.TimeFromNanos(1_000_000_000_000)
	clk := zzverifstubs.NewClock(start)
	jobs := &vJobs{block: make(chan struct{}), clk: clk}
	c := New(WithClock(clk), WithLogger(vLogger{}), WithLocation(time.UTC))
	p := vPeriod("period")
	id := c.Schedule(vEvery{p}, jobs.job(1, false))
	c.Start()
	zzverif.WaitQuiescent()
	zzverif.Assert(jobs.count(1) == 0, "no_start_before_activation")
	// not yet: one nanosecond... one second short of the activation
	clk.AdvanceTo(start.Add(p - time.Second))
	zzverif.WaitQuiescent()
	zzverif.Assert(jobs.count(1) == 0, "no_start_before_activation")
	clk.AdvanceTo(start.Add(p))
	zzverif.WaitQuiescent()
	zzverif.Assert(jobs.count(1) == 1, "one_start_per_activation")
	es := c.Entries()
	zzverif.Assert(len(es) == 1, "entries_lists_live_entry")
	zzverif.Assert(es[0].Prev.Equal(start.Add(p)), "entries_reports_prev_used")
	zzverif.Assert(es[0].Next.Equal(start.Add(2*p)), "entries_reports_next_used")
	// the clock jumps over several activations: one start for the wake-up
	clk.AdvanceTo(start.Add(5 * p))
	zzverif.WaitQuiescent()
	zzverif.Assert(jobs.count(1) == 2, "one_start_per_wakeup_when_clock_jumps")
	c.Remove(id)
	clk.AdvanceTo(start.Add(20 * p))
	zzverif.WaitQuiescent()
	zzverif.Assert(jobs.count(1) == 2, "no_start_after_remove")
	zzverif.Assert(len(c.Entries()) == 0, "removed_entry_not_listed")
	// a blocking job: Stop's context completes only once it returned
	c.Schedule(vEvery{p}, jobs.job(2, true))
	zzverif.WaitQuiescent()
	clk.Advance(p)
	zzverif.WaitQuiescent()
	zzverif.Assert(jobs.count(2) == 1, "entry_added_while_running_starts_at_its_activation")
	ctx := c.Stop()
	zzverif.WaitQuiescent()
	zzverif.Assert(ctx.Err() == nil, "stop_context_waits_for_running_jobs")
	clk.Advance(10 * p)
	zzverif.WaitQuiescent()
	zzverif.Assert(jobs.count(2) == 1, "nothing_starts_after_stop")
	close(jobs.block)
	<-ctx.Done()
	zzverif.WaitQuiescent()
	zzverif.Assert(zzverif.ThreadsAliveIs(0), "scheduler_and_jobs_gone_after_stop")
	zzverif.Cover("cron_single_entry_done")
}

// Two entries with symbolic periods and a client adding/removing while the scheduler may be waking up: every entry
// starts exactly once per activation reached, the other entry's activations are unaffected.
//
//verif:harness prop=C05 name=cron_two_entries threads=6 sched=delay preempt=2 t_preempt=3 unwind=14 witness=lenient
func VerifCronTwoEntries() {
	start := zzverif.TimeFromNanos(1_000_000_000_000)
	clk := zzverifstubs.NewClock(start)
	jobs := &vJobs{clk: clk}
	c := New(WithClock(clk), WithLogger(vLogger{}), WithLocation(time.UTC))
	p1, p2 := vPeriod("p1"), vPeriod("p2")
	c.Schedule(vEvery{p1}, jobs.job(1, false))
	c.Start()
	zzverif.WaitQuiescent()
	done := make(chan struct{}, 1)
	var id2 EntryID
	go func() { // a client adds the second entry while time moves to the first activation
		id2 = c.Schedule(vEvery{p2}, jobs.job(2, false))
		done <- struct{}{}
	}()
	clk.AdvanceTo(start.Add(p1))
	<-done
	zzverif.WaitQuiescent()
	zzverif.Assert(jobs.count(1) == 1, "one_start_per_activation")
	zzverif.Assert(jobs.count(2) == 0, "no_start_before_activation")
	// entry 2 was added at some instant in [start, start+p1]: it is due no later than start+p1+p2
	clk.AdvanceTo(start.Add(p1 + p2))
	zzverif.WaitQuiescent()
	zzverif.Assert(jobs.count(2) == 1, "entry_added_while_running_starts_at_its_activation")
	// some time passes (not up to any activation of entry 1), then entry 2 is removed, then the clock moves exactly to
	// entry 1's next activation: it must start then (the scheduler re-arms its timer from the current time)
	last1 := vLastStartOf(jobs, 1, clk)
	part := zzverif.Int64("part_ns")
	zzverif.Assume(part >= 1)
	zzverif.Assume(part < int64(p1))
	now := clk.Now()
	next1 := last1.Add(p1)
	for !next1.After(now) {
		next1 = next1.Add(p1)
	}
	zzverif.Assume(now.Add(time.Duration(part)).Before(next1))
	clk.Advance(time.Duration(part))
	zzverif.WaitQuiescent()
	n1, n2 := jobs.count(1), jobs.count(2)
	c.Remove(id2)
	zzverif.WaitQuiescent()
	clk.AdvanceTo(next1)
	zzverif.WaitQuiescent()
	zzverif.Assert(jobs.count(2) == n2, "no_start_after_remove")
	zzverif.Assert(jobs.count(1) == n1+1, "other_entry_starts_at_its_activation_after_a_remove")
	ctx := c.Stop()
	<-ctx.Done()
	before := len(jobs.starts)
	clk.Advance(10 * time.Second)
	zzverif.WaitQuiescent()
	zzverif.Assert(len(jobs.starts) == before, "nothing_starts_after_stop")
	zzverif.Cover("cron_two_entries_done")
}

// Stop and restart: entries registered while the scheduler is stopped (before the first Start and between a Stop and
// the next Start) are kept; a stopped scheduler starts nothing however far the clock moves; Start is a no-op when
// already running (one start per activation); after a restart each entry starts once per activation counted from the
// restart instant;
// Remove while stopped removes; Stop when not running returns a context that completes.
//
//verif:harness prop=C05 name=cron_restart threads=6 sched=delay preempt=2 t_preempt=3 unwind=12 witness=lenient
func VerifCronRestart() {
	start := zzverif.TimeFromNanos(1_000_000_000_000)
	clk := zzverifstubs.NewClock(start)
	jobs := &vJobs{block: make(chan struct{}), clk: clk}
	c := New(WithClock(clk), WithLogger(vLogger{}), WithLocation(time.UTC))
	// periods are forked (the oracle divides by them; a symbolic divisor stalls the solvers)
	p := time.Duration(1+zzverif.Choose("period", 4)) * time.Second
	q := time.Duration(1+zzverif.Choose("period2", 4)) * time.Second
	ctx0 := c.Stop() // not running: nothing to stop, nothing to wait for
	<-ctx0.Done()
	id1 := c.Schedule(vEvery{p}, jobs.job(1, false))
	clk.Advance(3 * p) // not started yet: nothing runs
	zzverif.WaitQuiescent()
	zzverif.Assert(jobs.count(1) == 0, "nothing_starts_before_start")
	zzverif.Assert(len(c.Entries()) == 1, "entry_registered_before_start_is_listed")
	t0 := clk.Now()
	c.Start()
	c.Start() // no-op
	zzverif.WaitQuiescent()
	clk.AdvanceTo(t0.Add(p))
	zzverif.WaitQuiescent()
	zzverif.Assert(jobs.count(1) == 1, "one_start_per_activation")
	ctx := c.Stop()
	<-ctx.Done()
	zzverif.WaitQuiescent()
	zzverif.Assert(zzverif.ThreadsAliveIs(0), "scheduler_gone_after_stop")
	id2 := c.Schedule(vEvery{q}, jobs.job(2, false)) // registered while stopped
	clk.Advance(7 * time.Second)
	zzverif.WaitQuiescent()
	zzverif.Assert(jobs.count(1) == 1 && jobs.count(2) == 0, "nothing_starts_while_stopped")
	removeFirst := zzverif.Bool("remove_first_while_stopped")
	if removeFirst {
		c.Remove(id1)
		zzverif.Assert(len(c.Entries()) == 1, "remove_while_stopped_removes")
	}
	t1 := clk.Now()
	c.Start()
	zzverif.WaitQuiescent()
	// what (if anything) a restart does about activations that passed while stopped is not judged: counts are taken
	// relative to the state right after the restart
	base1, base2 := jobs.count(1), jobs.count(2)
	zzverif.Assert(base1 <= 2 && base2 <= 1, "at_most_one_start_per_entry_at_restart")
	// walk the clock second by second over the next four seconds: each entry starts exactly at t1 + k*period
	for s := 1; s <= 4; s++ {
		clk.AdvanceTo(t1.Add(time.Duration(s) * time.Second))
		zzverif.WaitQuiescent()
		want1 := base1
		if !removeFirst {
			want1 += int(time.Duration(s) * time.Second / p)
		}
		zzverif.Assert(jobs.count(1) == want1, "first_entry_once_per_activation_after_restart")
		zzverif.Assert(jobs.count(2) == base2+int(time.Duration(s)*time.Second/q), "entry_registered_while_stopped_once_per_activation_after_restart")
	}
	c.Remove(id2)
	ctx = c.Stop()
	<-ctx.Done()
	zzverif.WaitQuiescent()
	zzverif.Assert(zzverif.ThreadsAliveIs(0), "scheduler_and_jobs_gone_after_stop")
	zzverif.Cover("cron_restart_done")
}

// vObsEvery: a fixed-period schedule that reports every call of Next. The scheduler calls Next once when it takes the
// entry over and then once right after each start of the entry's job, in its own goroutine - so the calls mark the
// instants at which starts are decided (the job's body runs later, in a goroutine of its own).
type vObsEvery struct {
	period time.Duration
	onNext func()
}

func (s vObsEvery) Next(t time.Time) time.Time {
	s.onNext()
	return t.Add(s.period)
}

// Remove while the scheduler is waking up: the clock reaches an activation of the entry and, without waiting for the
// scheduler to act on it, a client removes the entry (a second entry stays). The job may be started for that
// activation before Remove returns, or not at all - but the scheduler never decides to start it after Remove has
// returned, Entries called after Remove no longer lists it, and the other entry keeps its activations.
//
//verif:harness prop=C05 name=cron_remove_while_waking threads=6 sched=delay preempt=3 t_preempt=4 unwind=12 witness=lenient
func VerifCronRemoveWhileWaking() {
	start := zzverif.TimeFromNanos(1_000_000_000_000)
	clk := zzverifstubs.NewClock(start)
	c := New(WithClock(clk), WithLogger(vLogger{}), WithLocation(time.UTC))
	p := time.Duration(1+zzverif.Choose("period", 2)) * time.Second
	removed := false
	nextCalls, decidedAfterRemove, runs, otherRuns := 0, 0, 0, 0
	id := c.Schedule(vObsEvery{p, func() {
		zzverif.Ghost(func() {
			nextCalls++
			if nextCalls > 1 && removed {
				decidedAfterRemove++
			}
		})
	}}, FuncJob(func() { zzverif.Ghost(func() { runs++ }) }))
	c.Schedule(vEvery{p}, FuncJob(func() { zzverif.Ghost(func() { otherRuns++ }) }))
	c.Start()
	zzverif.WaitQuiescent()
	clk.AdvanceTo(start.Add(p)) // both entries are due; the scheduler has been woken but may not have run yet
	c.Remove(id)
	zzverif.Ghost(func() { removed = true })
	for _, e := range c.Entries() {
		zzverif.Assert(e.ID != id, "removed_entry_not_listed")
	}
	zzverif.WaitQuiescent()
	zzverif.Assert(decidedAfterRemove == 0, "no_start_decided_after_remove_returned")
	zzverif.Assert(runs <= 1, "at_most_one_start_per_activation")
	zzverif.Assert(otherRuns == 1, "other_entry_unaffected")
	clk.AdvanceTo(start.Add(3 * p))
	zzverif.WaitQuiescent()
	zzverif.Assert(decidedAfterRemove == 0, "no_start_decided_after_remove_returned")
	zzverif.Assert(runs <= 1, "no_start_after_remove")
	zzverif.Assert(otherRuns == 2, "other_entry_unaffected")
	ctx := c.Stop()
	<-ctx.Done()
	zzverif.Cover("cron_remove_while_waking_done")
}

// Schedule immediately followed by Remove of the new entry while the scheduler is busy with a wake-up: once Remove
// has returned the entry is gone - Entries does not list it and its job is never started, however the scheduler
// interleaves the two requests with its wake-up; the entry that was there before keeps its activations.
//
//verif:harness prop=C05 name=cron_add_then_remove threads=6 sched=delay preempt=3 t_preempt=4 unwind=12 witness=lenient
func VerifCronAddThenRemove() {
	start := zzverif.TimeFromNanos(1_000_000_000_000)
	clk := zzverifstubs.NewClock(start)
	c := New(WithClock(clk), WithLogger(vLogger{}), WithLocation(time.UTC))
	p := time.Duration(1+zzverif.Choose("period", 2)) * time.Second
	runs, otherRuns := 0, 0
	c.Schedule(vEvery{p}, FuncJob(func() { zzverif.Ghost(func() { otherRuns++ }) }))
	c.Start()
	zzverif.WaitQuiescent()
	if zzverif.Bool("scheduler_busy") {
		clk.AdvanceTo(start.Add(p)) // the scheduler has been woken and may be anywhere in its wake-up
	}
	id := c.Schedule(vEvery{p}, FuncJob(func() { zzverif.Ghost(func() { runs++ }) }))
	c.Remove(id)
	for _, e := range c.Entries() {
		zzverif.Assert(e.ID != id, "removed_entry_not_listed")
	}
	zzverif.WaitQuiescent()
	clk.AdvanceTo(start.Add(4 * p))
	zzverif.WaitQuiescent()
	zzverif.Assert(runs == 0, "entry_removed_right_after_it_was_added_never_starts")
	zzverif.Assert(otherRuns >= 1, "other_entry_unaffected")
	for _, e := range c.Entries() {
		zzverif.Assert(e.ID != id, "removed_entry_not_listed")
	}
	ctx := c.Stop()
	<-ctx.Done()
	zzverif.Cover("cron_add_then_remove_done")
}

// An entry added while the scheduler runs, due at the same instant as (or later than) the entry the scheduler is
// waiting for, with an entry of a much longer period in the list as well: at every activation instant each entry
// that is due starts exactly once - the new entry is not overlooked because of where it sits in the scheduler's list -
// and Entries reports a Next in the future for each.
//
//verif:harness prop=C05 name=cron_add_while_running threads=8 sched=delay preempt=2 t_preempt=3 unwind=14 witness=lenient
func VerifCronAddWhileRunning() {
	start := zzverif.TimeFromNanos(1_000_000_000_000)
	clk := zzverifstubs.NewClock(start)
	c := New(WithClock(clk), WithLogger(vLogger{}), WithLocation(time.UTC))
	p := time.Duration(1+zzverif.Choose("period", 2)) * time.Second
	q := time.Duration(1+zzverif.Choose("new_period", 3)) * time.Second
	var runsA, runsB, runsLong int
	c.Schedule(vEvery{p}, FuncJob(func() { zzverif.Ghost(func() { runsA++ }) }))
	c.Schedule(vEvery{time.Hour}, FuncJob(func() { zzverif.Ghost(func() { runsLong++ }) }))
	c.Start()
	zzverif.WaitQuiescent()
	c.Schedule(vEvery{q}, FuncJob(func() { zzverif.Ghost(func() { runsB++ }) })) // added at the same clock reading
	zzverif.WaitQuiescent()
	for s := 1; s <= 4; s++ {
		now := start.Add(time.Duration(s) * time.Second)
		clk.AdvanceTo(now)
		zzverif.WaitQuiescent()
		zzverif.Assert(runsA == int(time.Duration(s)*time.Second/p), "first_entry_once_per_activation")
		zzverif.Assert(runsB == int(time.Duration(s)*time.Second/q), "entry_added_while_running_once_per_activation")
		for _, e := range c.Entries() {
			zzverif.Assert(e.Next.After(now), "entries_report_a_future_next")
		}
	}
	zzverif.Assert(runsLong == 0, "long_period_entry_not_started")
	ctx := c.Stop()
	<-ctx.Done()
	zzverif.Cover("cron_add_while_running_done")
}

// Stop while the scheduler is waking up: the clock reaches an activation of two entries and, without waiting for the
// scheduler, a client calls Stop. A job may be started for that activation before Stop returns - but the scheduler
// never decides a start after Stop has returned (start decisions are observed through the entries' Schedule.Next, which
// the scheduler calls in its own goroutine right after each start), and the context Stop returns completes.
//
//verif:harness prop=C05 name=cron_stop_while_waking threads=7 sched=delay preempt=3 t_preempt=4 unwind=12 witness=lenient
func VerifCronStopWhileWaking() {
	start := zzverif.TimeFromNanos(1_000_000_000_000)
	clk := zzverifstubs.NewClock(start)
	c := New(WithClock(clk), WithLogger(vLogger{}), WithLocation(time.UTC))
	p := time.Second
	stopped := false
	decidedAfterStop := 0
	var calls [2]int
	for i := 0; i < 2; i++ {
		i := i
		c.Schedule(vObsEvery{p, func() {
			zzverif.Ghost(func() {
				calls[i]++
				if calls[i] > 1 && stopped {
					decidedAfterStop++
				}
			})
		}}, FuncJob(func() {}))
	}
	c.Start()
	zzverif.WaitQuiescent()
	clk.AdvanceTo(start.Add(p)) // both entries are due; the scheduler has been woken but may not have run yet
	ctx := c.Stop()
	zzverif.Ghost(func() { stopped = true })
	<-ctx.Done()
	zzverif.WaitQuiescent()
	zzverif.Assert(decidedAfterStop == 0, "no_start_decided_after_stop_returned")
	clk.AdvanceTo(start.Add(5 * p))
	zzverif.WaitQuiescent()
	zzverif.Assert(decidedAfterStop == 0, "no_start_decided_after_stop_returned")
	zzverif.Assert(zzverif.ThreadsAliveIs(0), "scheduler_and_jobs_gone_after_stop")
	zzverif.Cover("cron_stop_while_waking_done")
}

// The job wrappers of chain.go apply per entry: with DelayIfStillRunning (or SkipIfStillRunning) in the chain, a job
// of one entry that is still running delays (or skips) later runs of THAT entry only - another entry's job starts at
// its own activation instants regardless.
//
//verif:harness prop=C05 name=cron_chain_per_entry threads=8 sched=delay preempt=1 t_preempt=2 unwind=12 witness=lenient
func VerifCronChainPerEntry() {
	start := zzverif.TimeFromNanos(1_000_000_000_000)
	clk := zzverifstubs.NewClock(start)
	var wrapper JobWrapper
	if zzverif.Bool("skip_instead_of_delay") {
		wrapper = SkipIfStillRunning(vLogger{})
	} else {
		wrapper = DelayIfStillRunningWithClock(vLogger{}, clk)
	}
	c := New(WithClock(clk), WithLogger(vLogger{}), WithLocation(time.UTC), WithChain(wrapper))
	block := make(chan struct{})
	var blockedRuns, otherRuns int
	c.Schedule(vEvery{time.Second}, FuncJob(func() {
		zzverif.Ghost(func() { blockedRuns++ })
		<-block
	}))
	c.Schedule(vEvery{time.Second}, FuncJob(func() { zzverif.Ghost(func() { otherRuns++ }) }))
	c.Start()
	zzverif.WaitQuiescent()
	for s := 1; s <= 2; s++ {
		clk.AdvanceTo(start.Add(time.Duration(s) * time.Second))
		zzverif.WaitQuiescent()
		zzverif.Assert(otherRuns == s, "other_entry_runs_at_each_of_its_activations")
		zzverif.Assert(blockedRuns == 1, "still_running_job_is_not_run_concurrently_with_itself")
	}
	close(block)
	ctx := c.Stop()
	<-ctx.Done()
	zzverif.Cover("cron_chain_per_entry_done")
}

// vZoneEvery: a schedule whose activation instants depend on the zone of the instant it is asked about (as
// SpecSchedule's do: fields are matched in t.Location()); it records whether every instant handed to Next was
// expressed in the expected zone.
type vZoneEvery struct {
	period time.Duration
	zone   *time.Location
	bad    *int
}

func (s vZoneEvery) Next(t time.Time) time.Time {
	if t.Location() != s.zone {
		zzverif.Ghost(func() { *s.bad++ })
	}
	return t.Add(s.period)
}

// WithLocation: the clock reports instants in another zone than the cron's; every instant the scheduler hands to a
// schedule - when the entry is added, at Start, and after every wake-up - is expressed in the cron's location, so
// that zone-relative schedules activate at the instants of THAT zone (and Entries reports them).
//
//verif:harness prop=C05 name=cron_location threads=5 sched=delay preempt=1 t_preempt=2 unwind=12 witness=lenient
func VerifCronLocation() {
	start := zzverif.TimeFromNanos(1_000_000_000_000)
	clk := zzverifstubs.NewClock(start)
	jobs := &vJobs{block: make(chan struct{}), clk: clk}
	zone := new(time.Location)
	c := New(WithClock(clk), WithLogger(vLogger{}), WithLocation(zone))
	zzverif.Assert(c.Location() == zone, "location_reported")
	bad := 0
	p := time.Duration(1+zzverif.Choose("period", 2)) * time.Second
	addBeforeStart := zzverif.Bool("add_before_start")
	if addBeforeStart {
		c.Schedule(vZoneEvery{p, zone, &bad}, jobs.job(1, false))
	}
	c.Start()
	zzverif.WaitQuiescent()
	if !addBeforeStart {
		c.Schedule(vZoneEvery{p, zone, &bad}, jobs.job(1, false))
		zzverif.WaitQuiescent()
	}
	t0 := clk.Now()
	for k := 1; k <= 3; k++ {
		clk.AdvanceTo(t0.Add(time.Duration(k) * p))
		zzverif.WaitQuiescent()
		zzverif.Assert(jobs.count(1) == k, "one_start_per_activation")
		zzverif.Assert(bad == 0, "schedule_asked_in_cron_location")
		es := c.Entries()
		zzverif.Assert(len(es) == 1 && es[0].Next.Equal(t0.Add(time.Duration(k+1)*p)), "entries_next_is_the_activation_used")
	}
	ctx := c.Stop()
	<-ctx.Done()
	zzverif.Cover("cron_location_done")
}

//verif:stub time.ParseDuration vParseDurationC05

// time.ParseDuration for the three duration texts this file uses (symbolic runs; natively the real one)
func vParseDurationC05(s string) (time.Duration, error) {
	switch s {
	case "1s":
		return time.Second, nil
	case "2s":
		return 2 * time.Second, nil
	case "3s":
		return 3 * time.Second, nil
	}
	return 0, errBadDuration
}

var errBadDuration = errorStringC05("time: invalid duration")

type errorStringC05 string

func (e errorStringC05) Error() string { return string(e) }

// The other entry points: AddFunc / AddJob with a spec (refused specs add nothing), Entry(id), and Run - the blocking
// form of Start: it schedules like Start, a second Run (or Start) while running is a no-op that returns at once, and
// it returns when Stop is called.
//
//verif:harness prop=C05 name=cron_run_and_addfunc threads=6 sched=delay preempt=1 t_preempt=2 unwind=40 witness=lenient
func VerifCronRunAndAddFunc() {
	start := zzverif.TimeFromNanos(1_000_000_000_000)
	clk := zzverifstubs.NewClock(start)
	jobs := &vJobs{block: make(chan struct{}), clk: clk}
	c := New(WithClock(clk), WithLogger(vLogger{}), WithLocation(time.UTC))
	_, err := c.AddFunc("@every", jobs.job(9, false))
	zzverif.Assert(err != nil, "bad_spec_refused")
	_, err = c.AddJob("1 2", jobs.job(9, false))
	zzverif.Assert(err != nil, "bad_spec_refused")
	zzverif.Assert(len(c.Entries()) == 0, "refused_spec_adds_nothing")
	p := 1 + zzverif.Choose("period_seconds", 3)
	spec := []string{"@every 1s", "@every 2s", "@every 3s"}[p-1]
	id, err := c.AddFunc(spec, jobs.job(1, false))
	zzverif.Assert(err == nil, "every_spec_accepted")
	zzverif.Assert(c.Entry(id).Valid() && c.Entry(id).ID == id, "entry_found_by_id")
	zzverif.Assert(!c.Entry(id+1).Valid(), "unknown_id_gives_invalid_entry")
	returned := false
	go func() {
		c.Run()
		zzverif.Ghost(func() { returned = true })
	}()
	zzverif.WaitQuiescent()
	zzverif.Assert(!returned, "run_blocks_while_scheduling")
	c.Run()   // already running: returns at once
	c.Start() // likewise
	t0 := clk.Now()
	for k := 1; k <= 2; k++ {
		clk.AdvanceTo(t0.Add(time.Duration(k*p) * time.Second))
		zzverif.WaitQuiescent()
		zzverif.Assert(jobs.count(1) == k, "one_start_per_activation")
	}
	e := c.Entry(id)
	zzverif.Assert(e.Next.Equal(t0.Add(time.Duration(3*p)*time.Second)), "entry_next_is_the_activation_used")
	zzverif.Assert(e.Prev.Equal(t0.Add(time.Duration(2*p)*time.Second)), "entry_prev_is_the_activation_used")
	ctx := c.Stop()
	<-ctx.Done()
	zzverif.WaitQuiescent()
	zzverif.Assert(returned, "run_returns_after_stop")
	zzverif.Assert(zzverif.ThreadsAliveIs(0), "scheduler_gone_after_stop")
	zzverif.Cover("cron_run_and_addfunc_done")
}

package ring

import (
	"encoding/base64"

	"github.com/dapr/kit/zzverif"
)

//verif:harness prop=ZZ name=dbg unwind=100
func VerifDbg() {
	n := base64.StdEncoding.EncodedLen(3)
	zzverif.Assert(n == 4, "len")
	zzverif.Cover("dbg")
}

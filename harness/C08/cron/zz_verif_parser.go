package cron

import (
	"strings"
	"errors"
	"time"

	"github.com/dapr/kit/zzverif"
)

//verif:stub time.LoadLocation vLoadLocation

// the tz database is not modelled: LoadLocation answers an arbitrary (location, error) pair
func vLoadLocation(name string) (*time.Location, error) {
	if zzverif.Bool("unknown_zone") {
		return nil, errors.New("unknown time zone")
	}
	return time.UTC, nil
}

// Parsing performs no store to package-level state (the default parser and the name tables are never written after
// initialisation): two parsers cannot interfere.
//
//verif:harness prop=C08 name=parser_immutable unwind=40 panic=ok
func VerifParserImmutable() {
	specs := []string{"* * * * *", "*/5 1-3 1,15 jan-mar mon", "@daily", "bad spec", "0 0 31 2 *", "TZ=UTC * * * * *"}
	spec := specs[zzverif.Choose("spec", len(specs))]
	_, _ = ParseStandard("* * * * *") // first use (lazy state, if any, is created here)
	before := zzverif.GlobalWrites()
	_, _ = ParseStandard(spec)
	p := NewParser(Second | Minute | Hour | Dom | Month | DowOptional | Descriptor)
	_, _ = p.Parse("1 2 3 4 5")
	zzverif.Assert(zzverif.GlobalWrites() == before, "parse_writes_no_package_level_state")
	zzverif.Cover("parser_immutable_done")
}


// Two callers parse the same (or an aliased) descriptor, each with its own time zone: each gets its own schedule
// object, and the first caller's schedule - its zone and its fields - is bit-for-bit what it was before the second
// caller parsed (nothing of one parse reaches another through the package's tables).
//
//verif:harness prop=C08 name=descriptor_results_independent unwind=40 panic=ok
func VerifDescriptorIndependent() {
	ds := []string{"@yearly", "@annually", "@monthly", "@weekly", "@daily", "@midnight", "@hourly"}
	d1 := ds[zzverif.Choose("first", len(ds))]
	d2 := ds[zzverif.Choose("second", len(ds))]
	z1, z2 := new(time.Location), new(time.Location)
	a, err := parseDescriptor(d1, z1)
	zzverif.Assert(err == nil, "descriptor_accepted")
	s1 := a.(*SpecSchedule)
	before := *s1
	b, err := parseDescriptor(d2, z2)
	zzverif.Assert(err == nil, "descriptor_accepted")
	s2 := b.(*SpecSchedule)
	zzverif.Assert(s1 != s2, "each_parse_returns_its_own_schedule")
	zzverif.Assert(s1.Location == z1 && s2.Location == z2, "each_schedule_keeps_its_own_zone")
	zzverif.Assert(*s1 == before, "first_schedule_unchanged_by_the_second_parse")
	// and a caller that changes its schedule does not change what the next caller gets
	s1.Minute, s1.Location = 0, nil
	c, _ := parseDescriptor(d1, z2)
	s3 := c.(*SpecSchedule)
	zzverif.Assert(s3.Minute == 1 && s3.Location == z2, "later_parse_unaffected_by_a_caller_editing_its_result")
	zzverif.Cover("descriptor_independent_done")
}

// Two independent parsers (every optional-field configuration) parse their own five- or six-field spec at the same
// time: no unsynchronised access to anything shared (race detection = violation) and each gets the schedule of ITS
// spec - package-level tables or scratch slices never carry one caller's fields into the other's result.
//
//verif:harness prop=C08 name=parsers_concurrent threads=3 sched=delay preempt=2 t_preempt=3 unwind=60 race=violation witness=lenient
func VerifParsersConcurrent() {
	type cfg struct {
		opts ParseOption
		spec string
		sec  uint64
		min  uint64
	}
	cfgs := []cfg{
		{SecondOptional | Minute | Hour | Dom | Month | Dow, "7 * * * *", 1, 1 << 7},
		{SecondOptional | Minute | Hour | Dom | Month | Dow, "9 8 * * * *", 1 << 9, 1 << 8},
		{Minute | Hour | Dom | Month | DowOptional, "11 * * *", 1, 1 << 11},
		{Minute | Hour | Dom | Month | Dow, "13 * * * *", 1, 1 << 13},
		// specs that name a time zone (the zone database is a contract stub: some location or an error)
		{Minute | Hour | Dom | Month | Dow, "TZ=UTC 15 * * * *", 1, 1 << 15},
		{Minute | Hour | Dom | Month | Dow, "CRON_TZ=Asia/Tokyo 17 * * * *", 1, 1 << 17},
	}
	a := cfgs[zzverif.Choose("first", len(cfgs))]
	b := cfgs[zzverif.Choose("second", len(cfgs))]
	// first use in the main goroutine: package initialisation (which the engine performs lazily) happens before both
	_, _ = NewParser(Second | Minute | Hour | Dom | Month | DowOptional | Descriptor).Parse("1 2 3 4 5")
	var sa, sb Schedule
	var ea, eb error
	done := make(chan struct{}, 2)
	go func() { sa, ea = NewParser(a.opts).Parse(a.spec); done <- struct{}{} }()
	go func() { sb, eb = NewParser(b.opts).Parse(b.spec); done <- struct{}{} }()
	<-done
	<-done
	// (a spec that names a zone is refused when the zone database - a contract stub - does not know the zone)
	zzverif.Assume(ea == nil || strings.Contains(a.spec, "TZ="))
	zzverif.Assume(eb == nil || strings.Contains(b.spec, "TZ="))
	if ea != nil || eb != nil {
		zzverif.Cover("parsers_concurrent_zone_unknown")
		return
	}
	x, y := sa.(*SpecSchedule), sb.(*SpecSchedule)
	zzverif.Assert(x.Second == a.sec && x.Minute == a.min, "first_parser_gets_its_own_fields")
	zzverif.Assert(y.Second == b.sec && y.Minute == b.min, "second_parser_gets_its_own_fields")
	zzverif.Cover("parsers_concurrent_done")
}

package cron

import (
	"errors"
	"time"

	"github.com/dapr/kit/zzverif"
)

//verif:stub time.LoadLocation vLoadLocation

// the tz database is not modelled: LoadLocation answers an arbitrary (location, error) pair
func vLoadLocation(name string) (*time.Location, error) {
	if zzverif.Bool("unknown_zone") {
		return nil, errors.New("unknown time zone")
	}
	return time.UTC, nil
}

// Parsing performs no store to package-level state (the default parser and the name tables are never written after
// initialisation): two parsers cannot interfere.
//
//verif:harness prop=C08 name=parser_immutable unwind=40 panic=ok
func VerifParserImmutable() {
	specs := []string{"* * * * *", "*/5 1-3 1,15 jan-mar mon", "@daily", "bad spec", "0 0 31 2 *", "TZ=UTC * * * * *"}
	spec := specs[zzverif.Choose("spec", len(specs))]
	_, _ = ParseStandard("* * * * *") // first use (lazy state, if any, is created here)
	before := zzverif.GlobalWrites()
	_, _ = ParseStandard(spec)
	p := NewParser(Second | Minute | Hour | Dom | Month | DowOptional | Descriptor)
	_, _ = p.Parse("1 2 3 4 5")
	zzverif.Assert(zzverif.GlobalWrites() == before, "parse_writes_no_package_level_state")
	zzverif.Cover("parser_immutable_done")
}

package logger

import (
	"github.com/dapr/kit/zzverif"
)

//verif:stub github.com/dapr/kit/logger.newDaprLogger vNewDaprLogger

// the logrus-backed logger is replaced by a distinct opaque logger object per call
func vNewDaprLogger(name string) *daprLogger {
	return &daprLogger{name: name}
}

// Logger registry: concurrent look-ups of equal or different names give one logger per name, and every access to the
// registry map happens under its lock (the race detector is on and a race is a violation).
//
//verif:harness prop=C08 name=logger_registry threads=3 sched=delay preempt=3 t_preempt=4 unwind=10 race=violation reallogger=on witness=lenient
func VerifLoggerRegistry() {
	names := []string{"a", "b"}
	n1 := names[zzverif.Choose("name1", 2)]
	n2 := names[zzverif.Choose("name2", 2)]
	var l1, l2 Logger
	done := make(chan struct{}, 2)
	go func() {
		l1 = NewLogger(n1)
		done <- struct{}{}
	}()
	go func() {
		l2 = NewLogger(n2)
		_ = getLoggers()
		done <- struct{}{}
	}()
	<-done
	<-done
	if n1 == n2 {
		zzverif.Assert(l1 == l2, "one_logger_per_name")
	} else {
		zzverif.Assert(l1 != l2, "different_names_different_loggers")
	}
	zzverif.Assert(NewLogger(n1) == l1, "registry_remembers")
	zzverif.Cover("logger_registry_done")
}

package byteslicepool

import "runtime"

func vOneP() { runtime.GOMAXPROCS(1) }

package byteslicepool

import (
	"github.com/dapr/kit/zzverif"
)

// A slice obtained from Get has length 0, and every byte of its former length is zero - whatever the previous owner
// (or anybody holding on to the buffer) wrote into it; Resize keeps the contents.
//
//verif:harness prop=C08 name=byteslicepool_clean unwind=40 replay_attempts=6
func VerifBSP() {
	if !zzverif.Symbolic() {
		vOneP()
	}
	sp := NewByteSlicePool(4)
	b := sp.Get(zzverif.Choose("cap", 8))
	zzverif.Assert(len(b) == 0, "fresh_slice_empty")
	zzverif.Assert(cap(b) >= 4, "fresh_slice_min_cap")
	n := 1 + zzverif.Choose("n", 4)
	secret := zzverif.Bytes("secret", n)
	b = append(b, secret...)
	r := sp.Resize(b, n+zzverif.Choose("grow", 8))
	zzverif.Assert(zzverif.EqBytes(r[:n], secret), "resize_keeps_contents")
	// the caller still holds b (it has not put it back): nobody else is handed its array, whether Resize grew or not
	o1 := sp.Get(2)
	o2 := sp.Get(2)
	zzverif.Assert(!zzverif.SameArray(o1, b) && !zzverif.SameArray(o2, b) && !zzverif.SameArray(o1, o2), "buffer_still_held_is_not_handed_out")
	zzverif.Assert(!zzverif.SameArray(o1, r) && !zzverif.SameArray(o2, r), "buffer_still_held_is_not_handed_out")
	sp.Put(b)
	if !zzverif.Symbolic() {
		// native replay: the engine replaces the contents of a pooled buffer by arbitrary bytes on Put (the previous
		// owner may still hold the slice and write to it); here the previous owner does exactly that
		for i := range b[:n] {
			b[i] = 0xff
		}
	}
	c := sp.Get(2)
	zzverif.Assert(len(c) == 0, "recycled_slice_empty")
	if zzverif.SameArray(b, c) {
		i := zzverif.Int("i")
		zzverif.Assume(i >= 0)
		zzverif.Assume(i < n)
		zzverif.Assert(zzverif.ByteAt(c, i) == 0, "recycled_slice_zeroed_over_former_length")
		zzverif.Cover("bsp_recycled")
	}
	zzverif.Cover("bsp_done")
}

package v1

import (
	"bytes"
	"crypto/rand"
	"encoding/base64"
	"errors"
	"io"

	"github.com/dapr/kit/zzverif"
	"github.com/dapr/kit/zzverifstubs"
)

//verif:stub crypto/aes.NewCipher zzverifstubs.NewCipher
//verif:stub crypto/cipher.NewGCM zzverifstubs.NewGCM
//verif:stub crypto/cipher.NewGCMWithTagSize zzverifstubs.NewGCMWithTagSize
//verif:stub crypto/cipher.NewGCMWithNonceSize zzverifstubs.NewGCMWithNonceSize
//verif:stub golang.org/x/crypto/chacha20poly1305.New zzverifstubs.NewChaCha
//verif:stub golang.org/x/crypto/hkdf.New zzverifstubs.HKDFNew
//verif:stub crypto/hmac.New zzverifstubs.HmacNew
//verif:stub crypto/hmac.Equal zzverifstubs.HmacEqual
//verif:stub crypto/sha256.New zzverifstubs.NewSHA256
//verif:stub (*encoding/base64.Encoding).Encode zzverifstubs.B64Encode
//verif:stub (*encoding/base64.Encoding).Decode zzverifstubs.B64Decode
//verif:stub encoding/json.Marshal vJSONMarshal
//verif:stub encoding/json.Unmarshal vJSONUnmarshal

// Two Encrypt streams in one process, the second one started while the first still has its payload to produce: each
// document decrypts to its own plaintext. Whatever Encrypt keeps from package-level pools or buffers (file key, nonce
// prefix, segment buffers), the second stream never changes what the first one writes. (The engine's pool model hands
// a buffer that was put back to the next user and lets its contents change; the native replay runs with one P so that
// the real pools behave that way too.)
//
//verif:harness prop=C08 name=encrypt_streams_independent threads=4 sched=delay preempt=0 unwind=200 race=off witness=lenient replay_attempts=6
func VerifEncryptStreamsIndependent() {
	zzverifstubs.Init()
	vWires = nil
	if !zzverif.Symbolic() {
		vOneP()
	}
	rnd := zzverif.Bytes("random", 78)
	rand.Reader = &vRand{b: append([]byte{}, rnd...)}
	wrapFn := func(key []byte, alg string, name string, nonce []byte) ([]byte, []byte, error) {
		w := make([]byte, len(key))
		for i := range key {
			w[i] = key[i] ^ 0xA5
		}
		return w, nil, nil
	}
	unwrapFn := func(wrapped []byte, alg string, name string, nonce, tag []byte) ([]byte, error) {
		if len(wrapped) != 32 {
			return nil, errors.New("bad wrapped key")
		}
		k := make([]byte, len(wrapped))
		for i := range wrapped {
			k[i] = wrapped[i] ^ 0xA5
		}
		return k, nil
	}
	pa := zzverif.Bytes("plaintext_a", 1+zzverif.Choose("len_a", 2))
	pb := zzverif.Bytes("plaintext_b", 1)
	opts := EncryptOptions{WrapKeyFn: wrapFn, Algorithm: KeyAlgorithmAES256KW, KeyName: "k"}
	ea, err := Encrypt(bytes.NewReader(pa), opts)
	zzverif.Assert(err == nil, "encrypt_a_ok")
	eb, err := Encrypt(bytes.NewReader(pb), opts) // starts while stream a has produced nothing yet
	zzverif.Assert(err == nil, "encrypt_b_ok")
	if zzverif.Bool("b_is_consumed_first") {
		_, err = vReadAll(eb, 128, 8)
		zzverif.Assert(err == io.EOF, "stream_b_ends_cleanly")
	}
	docA, err := vReadAll(ea, 128, 8)
	zzverif.Assert(err == io.EOF, "stream_a_ends_cleanly")
	// stream a's document is what the format says for ITS file key and nonce prefix (the first 39 random bytes)
	fkA, npA := rnd[:32], rnd[32:39]
	mlen := 3
	if !zzverif.Symbolic() {
		mlen = bytes.IndexByte(docA[15:], '\n')
	}
	hdr := 15 + mlen + 1 + 44 + 1
	zzverif.Assert(len(docA) == hdr+len(pa)+16, "document_a_layout")
	nonce := append(append([]byte{}, npA...), 0, 0, 0, 0, 1)
	want := vSeal(CipherAESGCM, vHKDF(fkA, npA, []byte("payload")), nonce, pa)
	zzverif.Assert(zzverif.EqBytes(docA[hdr:], want), "stream_a_segment_sealed_under_its_own_key_and_nonce")
	mac := vHMAC(vHKDF(fkA, nil, []byte("header")), docA[:15+mlen+1])
	b64 := make([]byte, 44)
	base64.StdEncoding.Encode(b64, mac)
	zzverif.Assert(zzverif.EqBytes(docA[15+mlen+1:hdr-1], b64), "stream_a_header_signed_under_its_own_key")
	if zzverif.Symbolic() {
		w := vWires[0]
		wantW := make([]byte, 32)
		for i := range wantW {
			wantW[i] = fkA[i] ^ 0xA5
		}
		zzverif.Assert(zzverif.EqBytes(w.wfk, wantW) && zzverif.EqBytes(w.np, npA), "stream_a_manifest_carries_its_own_key_and_prefix")
	}
	_ = unwrapFn
	zzverif.Cover("encrypt_streams_independent_done")
}

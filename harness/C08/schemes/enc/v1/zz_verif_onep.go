package v1

import "runtime"

func vOneP() { runtime.GOMAXPROCS(1) }

package v1

import (
	"io"

	"github.com/dapr/kit/zzverif"
)

// The buffer pool model: Get returns a fresh buffer or any buffer put back earlier (forked); on Put the contents of
// the buffer are replaced by arbitrary bytes ("another stream owns it now and writes whatever it likes").

type vChunkReader struct {
	data  []byte
	pos   int
	reads int
}

func (r *vChunkReader) Read(p []byte) (int, error) {
	r.reads++
	rem := len(r.data) - r.pos
	if rem == 0 {
		return 0, io.EOF
	}
	n := rem
	if len(p) < n {
		n = len(p)
	}
	if r.reads == 1 && n > 1 {
		n = 1 + zzverif.Choose("first_chunk", n)
	}
	copy(p, r.data[r.pos:r.pos+n])
	r.pos += n
	return n, nil
}

func vHeaderDoc(tag string) (doc, M, C []byte) {
	d, m, c, _ := vHeaderDocRest(tag, 0)
	return d, m, c
}

func vHeaderDocRest(tag string, restLen int) (doc, M, C, rest []byte) {
	M = zzverif.Bytes("M_"+tag, 2)
	C = zzverif.Bytes("C_"+tag, 1)
	for _, b := range M {
		zzverif.Assume(b != '\n')
	}
	zzverif.Assume(C[0] != '\n')
	doc = append([]byte(SchemeName+"\n"), M...)
	doc = append(doc, '\n')
	doc = append(doc, C...)
	doc = append(doc, '\n')
	rest = zzverif.Bytes("rest_"+tag, restLen)
	doc = append(doc, rest...)
	return doc, M, C, rest
}

// Two independent streams read their headers one after the other through the shared pool: what the first one got
// back must not change when the second one (which may be handed the very same buffer) runs.
//
//verif:harness prop=C08 name=pool_header_alias unwind=60
func VerifPoolHeaderAlias() {
	docA, MA, CA, restA := vHeaderDocRest("a", 2) // stream A's header is followed by the beginning of its payload
	docB, MB, CB := vHeaderDoc("b")
	var inA io.Reader = &vChunkReader{data: docA}
	var inB io.Reader = &vChunkReader{data: docB}
	mA, cA, errA := readHeader(&inA)
	zzverif.Assert(errA == nil, "header_a_accepted")
	if !zzverif.Symbolic() {
		// native replay: make the interference deterministic - whoever gets the recycled buffer next overwrites it
		b := BufPool.Get().(*[]byte)
		for i := 0; i < 64; i++ {
			(*b)[i] = 0xEE
		}
		BufPool.Put(b)
	}
	mB, cB, errB := readHeader(&inB)
	zzverif.Assert(errB == nil, "header_b_accepted")
	zzverif.Assert(zzverif.EqBytes(mA, MA), "stream_a_manifest_unaffected_by_stream_b")
	zzverif.Assert(zzverif.EqBytes(cA, CA), "stream_a_mac_unaffected_by_stream_b")
	zzverif.Assert(zzverif.EqBytes(mB, MB), "stream_b_manifest")
	zzverif.Assert(zzverif.EqBytes(cB, CB), "stream_b_mac")
	// the bytes stream A had read beyond its header are handed back through the reader it left behind: they too must
	// survive the other stream's use of the pool
	var gotRest []byte
	buf := make([]byte, 4)
	for i := 0; i < 4; i++ {
		n, err := inA.Read(buf)
		gotRest = append(gotRest, buf[:n]...)
		if err != nil {
			break
		}
	}
	zzverif.Assert(zzverif.EqBytes(gotRest, restA), "stream_a_payload_bytes_unaffected_by_stream_b")
	zzverif.Cover("pool_header_alias_done")
}

type vRec struct {
	data []byte
	num  uint32
	last bool
}

// Two segment loops one after the other through the pool: the second one may be handed the first one's buffer with
// arbitrary stale contents; its segments must depend on its own input only, and what the first one handed to its
// callback (copied there) is what its input said.
//
//verif:harness prop=C08 name=pool_segments_independent unwind=30 race=off
func VerifPoolSegments() {
	run := func(tag string) ([]vRec, []byte) {
		L := 1 + zzverif.Choose("L_"+tag, 3)
		src := zzverif.Bytes("src_"+tag, L)
		var calls []vRec
		pr, pw := io.Pipe()
		processSegments(&vChunkReader{data: src}, pw, func(out io.Writer, data []byte, num uint32, last bool) error {
			calls = append(calls, vRec{data: append([]byte{}, data...), num: num, last: last})
			return nil
		}, 2)
		one := make([]byte, 1)
		_, err := pr.Read(one)
		zzverif.Assert(err == io.EOF, "clean_close")
		return calls, src
	}
	for _, tag := range []string{"a", "b"} {
		calls, src := run(tag)
		var got []byte
		for i, c := range calls {
			zzverif.Assert(c.num == uint32(i), "segments_numbered")
			got = append(got, c.data...)
		}
		zzverif.Assert(zzverif.EqBytes(got, src), "segments_carry_own_input_only")
	}
	zzverif.Cover("pool_segments_done")
}

var vErrSeg = errSeg("segment refused")

type errSeg string

func (e errSeg) Error() string { return string(e) }

type vFailReader struct{ err error }

func (r vFailReader) Read(p []byte) (int, error) { return 0, r.err }

// One buffer, one holder: after a stream has ended - cleanly, because its segment callback failed (a tampered segment),
// because its source failed, or because its consumer went away - two later users of the pool that hold a buffer at the
// same time never hold the same one. (A buffer returned to the pool twice would be handed to two streams at once and
// carry one caller's bytes into the other's result.) Also for the header reader.
//
//verif:harness prop=C08 name=pool_one_holder_per_buffer unwind=40 race=off replay_attempts=6
func VerifPoolOneHolder() {
	if !zzverif.Symbolic() {
		// the real sync.Pool keeps per-P caches: with one P what was put back is what the next Get returns
		vOneP()
	}
	how := zzverif.Choose("ending", 5)
	pr, pw := io.Pipe()
	src := zzverif.Bytes("src", zzverif.Choose("L", 4)) // 0..3 bytes: the empty message has its own way out of the loop
	switch how {
	case 0, 1: // clean end / callback failure on a forked segment
		failAt := -1
		if how == 1 {
			failAt = zzverif.Choose("failing_segment", 2)
		}
		k := 0
		processSegments(&vChunkReader{data: src}, pw, func(out io.Writer, data []byte, num uint32, last bool) error {
			if k == failAt {
				return vErrSeg
			}
			k++
			return nil
		}, 2)
	case 2: // the source fails
		processSegments(vFailReader{vErrSeg}, pw, func(out io.Writer, data []byte, num uint32, last bool) error { return nil }, 2)
	case 3: // the consumer closed its end: writes fail
		pr.Close()
		processSegments(&vChunkReader{data: src}, pw, func(out io.Writer, data []byte, num uint32, last bool) error {
			_, err := out.Write(data)
			return err
		}, 2)
	case 4: // the header reader (accepted or refused header)
		doc := zzverif.Bytes("doc", zzverif.Choose("doc_len", 4))
		if zzverif.Bool("well_formed") {
			doc, _, _ = vHeaderDoc("h")
		}
		var in io.Reader = &vChunkReader{data: doc}
		_, _, _ = readHeader(&in)
	}
	b1 := BufPool.Get().(*[]byte)
	b2 := BufPool.Get().(*[]byte)
	zzverif.Assert(b1 != b2, "two_holders_never_share_a_buffer")
	b3 := BufPool.Get().(*[]byte)
	zzverif.Assert(b3 != b1 && b3 != b2, "two_holders_never_share_a_buffer")
	zzverif.Cover("pool_one_holder_done")
}

package aeskw

import (
	"github.com/dapr/kit/zzverif"
	"github.com/dapr/kit/zzverifstubs"
)

// The key-wrap functions share one package-level value, the RFC 3394 default IV. A Wrap / Unwrap by one caller
// (successful or refused) performs no store to package-level state, leaves the IV bit-for-bit intact, and a second
// caller wrapping the same key data under the same key gets the same result as the first: nothing of one call's data
// reaches another call through the package.
//
//verif:harness prop=C08 name=aeskw_no_shared_state unwind=60
func VerifKwNoSharedState() {
	zzverifstubs.Init()
	blk := &zzverifstubs.Block{Key: zzverif.Bytes("kek", 16)}
	n := 8 * (1 + zzverif.Choose("blocks", 2))
	cek := zzverif.Bytes("cek", n)
	other := zzverif.Bytes("other", 8*(2+zzverif.Choose("other_blocks", 2)))
	first, err := Wrap(blk, append([]byte{}, cek...))
	zzverif.Assert(err == nil, "wrap_ok")
	before := zzverif.GlobalWrites()
	// another caller's traffic in between: a wrap of other data and an unwrap of arbitrary (mostly inauthentic) data
	_, _ = Wrap(&zzverifstubs.Block{Key: zzverif.Bytes("kek2", 16)}, append([]byte{}, other[:8]...))
	_, _ = Unwrap(blk, other)
	zzverif.Assert(zzverif.GlobalWrites() == before, "keywrap_writes_no_package_level_state")
	for i := 0; i < 8; i++ {
		zzverif.Assert(defaultIV[i] == 0xA6, "default_iv_intact")
	}
	second, err := Wrap(blk, append([]byte{}, cek...))
	zzverif.Assert(err == nil, "wrap_ok")
	zzverif.Assert(zzverif.EqBytes(first, second), "same_input_same_output_for_the_second_caller")
	zzverif.Cover("aeskw_no_shared_state_done")
}

package ttlcache

import (
	"time"

	"github.com/alphadose/haxmap"

	"github.com/dapr/kit/zzverif"
	"github.com/dapr/kit/zzverifstubs"
)

// haxmap (lock-free, unsafe) is replaced by a sequential map model; its own linearizability is assumed.
//
//verif:stub github.com/alphadose/haxmap.New vHaxNew
//verif:stub (*github.com/alphadose/haxmap.Map[K,V]).Get vHaxGet
//verif:stub (*github.com/alphadose/haxmap.Map[K,V]).Set vHaxSet
//verif:stub (*github.com/alphadose/haxmap.Map[K,V]).Del vHaxDel
//verif:stub (*github.com/alphadose/haxmap.Map[K,V]).Len vHaxLen
//verif:stub (*github.com/alphadose/haxmap.Map[K,V]).ForEach vHaxForEach
//verif:stub (*github.com/alphadose/haxmap.Map[K,V]).GetOrSet vHaxGetOrSet
//verif:stub (*github.com/alphadose/haxmap.Map[K,V]).GetOrCompute vHaxGetOrCompute
//verif:stub (*github.com/alphadose/haxmap.Map[K,V]).GetAndDel vHaxGetAndDel
//verif:stub (*github.com/alphadose/haxmap.Map[K,V]).Swap vHaxSwap
//verif:stub (*github.com/alphadose/haxmap.Map[K,V]).Grow vHaxGrow

type vHM = haxmap.Map[string, cacheEntry[int]]

var vStore map[*vHM]map[string]cacheEntry[int]

func vHaxNew(size ...uintptr) *vHM {
	m := &vHM{}
	if vStore == nil {
		vStore = map[*vHM]map[string]cacheEntry[int]{}
	}
	vStore[m] = map[string]cacheEntry[int]{}
	return m
}
func vHaxGet(m *vHM, key string) (cacheEntry[int], bool) {
	v, ok := vStore[m][key]
	return v, ok
}
func vHaxSet(m *vHM, key string, v cacheEntry[int]) { vStore[m][key] = v }
func vHaxDel(m *vHM, keys ...string) {
	for _, k := range keys {
		delete(vStore[m], k)
	}
}
func vHaxLen(m *vHM) uintptr { return uintptr(len(vStore[m])) }
func vHaxGetOrSet(m *vHM, key string, v cacheEntry[int]) (cacheEntry[int], bool) {
	if old, ok := vStore[m][key]; ok {
		return old, true
	}
	vStore[m][key] = v
	return v, false
}
func vHaxGetOrCompute(m *vHM, key string, fn func() cacheEntry[int]) (cacheEntry[int], bool) {
	if old, ok := vStore[m][key]; ok {
		return old, true
	}
	v := fn()
	vStore[m][key] = v
	return v, false
}
func vHaxGetAndDel(m *vHM, key string) (cacheEntry[int], bool) {
	v, ok := vStore[m][key]
	delete(vStore[m], key)
	return v, ok
}
func vHaxSwap(m *vHM, key string, v cacheEntry[int]) (cacheEntry[int], bool) {
	old, ok := vStore[m][key]
	if ok {
		vStore[m][key] = v
	}
	return old, ok
}
func vHaxGrow(m *vHM, n uintptr) {}
func vHaxForEach(m *vHM, fn func(string, cacheEntry[int]) bool) {
	for k, v := range vStore[m] {
		if !fn(k, v) {
			return
		}
	}
}

type vEntry struct {
	val    int
	setAt  time.Time
	ttlSec int64
}

func vSteps() int {
	if zzverif.Thorough() {
		return 4
	}
	return 3
}

// Reference: Get(k) hits iff k's latest Set is still there (not deleted/reset/cleaned) and strictly less than its TTL
// (capped by MaxTTL) has elapsed. Cleanup removes only entries whose expiry is strictly before now.
//
//verif:harness prop=C15 name=ttl_sequence threads=2 sched=delay preempt=0 unwind=12 witness=lenient solver=cvc5
func VerifTTLSequence() {
	vStore = nil
	start := zzverif.TimeFromNanos(1_000_000_000_000)
	clk := zzverifstubs.NewClock(start)
	maxTTL := zzverif.Int64("max_ttl")
	zzverif.Assume(maxTTL >= 0)
	zzverif.Assume(maxTTL <= 1_000_000)
	c := NewCache[int](CacheOptions{MaxTTL: maxTTL, clock: clk, CleanupInterval: time.Hour})
	model := map[string]*vEntry{}
	keys := []string{"a", ""} // any string is a key, the empty one included
	for i := 0; i < vSteps(); i++ {
		k := keys[zzverif.Choose("key", 2)]
		switch zzverif.Choose("op", 6) {
		case 0:
			ttl := zzverif.Int64("ttl")
			zzverif.Assume(ttl >= 1)
			// any positive number of seconds when a MaxTTL caps it (the cap applies to the SECONDS, before they become a
			// duration); without a cap the seconds must fit a time.Duration
			zzverif.Assume(zzverif.Or(maxTTL > 0, ttl <= 1_000_000))
			v := zzverif.Int("val")
			c.Set(k, v, ttl)
			eff := ttl
			if maxTTL > 0 && ttl > maxTTL {
				eff = maxTTL
			}
			model[k] = &vEntry{val: v, setAt: clk.Now(), ttlSec: eff}
		case 1:
			got, ok := c.Get(k)
			e, present := model[k]
			want := present && clk.Now().Sub(e.setAt) < time.Duration(e.ttlSec)*time.Second
			zzverif.Assert(ok == want, "get_hit_iff_live")
			if ok && present {
				zzverif.Assert(got == e.val, "get_returns_latest_value")
			}
		case 2:
			c.Delete(k)
			delete(model, k)
		case 3:
			c.Cleanup()
			for kk, e := range model {
				exp := e.setAt.Add(time.Duration(e.ttlSec) * time.Second)
				if exp.Before(clk.Now()) {
					delete(model, kk) // expired entries may go
				}
			}
		case 4:
			c.Reset()
			model = map[string]*vEntry{}
		case 5:
			d := zzverif.Int64("advance_ns")
			zzverif.Assume(d >= 0)
			zzverif.Assume(d <= 2_000_000_000_000_000)
			clk.Advance(time.Duration(d))
		}
		// Cleanup / Reset / Delete never make a live entry of an untouched key disappear, and never leave extra keys
		if zzverif.Symbolic() { // the stored set is observed through the map model
			for kk := range model {
				_, there := vStore[c.m][kk]
				zzverif.Assert(there, "live_entry_still_stored")
			}
			for kk := range vStore[c.m] {
				_, there := model[kk]
				zzverif.Assert(there, "no_resurrected_entry")
			}
		}
	}
	// final probe of every key (also what the native replay can observe of the stored set)
	for _, kk := range keys {
		got, ok := c.Get(kk)
		e, present := model[kk]
		want := present && clk.Now().Sub(e.setAt) < time.Duration(e.ttlSec)*time.Second
		zzverif.Assert(ok == want, "get_hit_iff_live")
		if ok && present {
			zzverif.Assert(got == e.val, "get_returns_latest_value")
		}
	}
	c.Stop()
	zzverif.Assert(zzverif.ThreadsAliveIs(0), "stop_returns_after_cleaner_exited")
	// Stop ends the background cleaner, nothing else: what was live is still served
	for _, kk := range keys {
		_, ok := c.Get(kk)
		e, present := model[kk]
		want := present && clk.Now().Sub(e.setAt) < time.Duration(e.ttlSec)*time.Second
		zzverif.Assert(ok == want, "get_hit_iff_live_after_stop")
	}
	zzverif.Cover("ttl_sequence_done")
}

// the periodic cleaner: a ticker tick removes expired entries only; Stop returns only after the cleaner goroutine is gone
//
//verif:harness prop=C15 name=ttl_cleaner threads=2 sched=delay preempt=2 t_preempt=3 unwind=12 witness=lenient
func VerifTTLCleaner() {
	vStore = nil
	start := zzverif.TimeFromNanos(1_000_000_000_000)
	clk := zzverifstubs.NewClock(start)
	c := NewCache[int](CacheOptions{clock: clk, CleanupInterval: 10 * time.Second})
	t1 := zzverif.Int64("ttl_a")
	zzverif.Assume(t1 >= 1)
	zzverif.Assume(t1 <= 30)
	c.Set("a", 1, t1)
	c.Set("b", 2, 1000)
	zzverif.WaitQuiescent() // the cleaner has armed its ticker
	clk.Advance(10 * time.Second) // one tick
	zzverif.WaitQuiescent()
	_, okB := c.Get("b")
	zzverif.Assert(okB, "cleanup_keeps_live_entry")
	if zzverif.Symbolic() {
		_, storedA := vStore[c.m]["a"]
		if t1 >= 10 {
			zzverif.Assert(storedA, "cleanup_removes_only_expired")
		} else {
			zzverif.Assert(!storedA, "cleanup_removes_expired")
		}
	}
	_, okA := c.Get("a")
	zzverif.Assert(okA == (t1 > 10), "get_hit_iff_live")
	c.Stop()
	zzverif.Assert(zzverif.ThreadsAliveIs(0), "stop_returns_after_cleaner_exited")
	c.Stop() // idempotent
	zzverif.Cover("ttl_cleaner_done")
}

// Stop from two goroutines at once: each call returns only after the background cleaner has exited
//
//verif:harness prop=C15 name=ttl_stop_concurrent threads=3 sched=delay preempt=3 t_preempt=4 unwind=12 witness=lenient
func VerifTTLStopConcurrent() {
	vStore = nil
	clk := zzverifstubs.NewClock(zzverif.TimeFromNanos(1_000_000_000_000))
	c := NewCache[int](CacheOptions{clock: clk, CleanupInterval: 10 * time.Second})
	exited := func() bool {
		select {
		case <-c.runningCh:
			return true
		default:
			return false
		}
	}
	done := make(chan struct{}, 2)
	for i := 0; i < 2; i++ {
		go func() {
			c.Stop()
			zzverif.Assert(exited(), "stop_returns_after_cleaner_exited")
			done <- struct{}{}
		}()
	}
	<-done
	<-done
	zzverif.Cover("ttl_stop_concurrent_done")
}

// Overwrite: the latest Set decides - value and expiry - whether its TTL is shorter or longer than the old one
//
//verif:harness prop=C15 name=ttl_overwrite threads=2 sched=delay preempt=0 unwind=12 witness=lenient solver=cvc5
func VerifTTLOverwrite() {
	vStore = nil
	start := zzverif.TimeFromNanos(1_000_000_000_000)
	clk := zzverifstubs.NewClock(start)
	maxTTL := zzverif.Int64("max_ttl")
	zzverif.Assume(maxTTL >= 0)
	zzverif.Assume(maxTTL <= 1_000_000)
	c := NewCache[int](CacheOptions{MaxTTL: maxTTL, clock: clk, CleanupInterval: time.Hour})
	t1, t2 := zzverif.Int64("ttl1"), zzverif.Int64("ttl2")
	zzverif.Assume(t1 >= 1)
	zzverif.Assume(t1 <= 1_000_000)
	zzverif.Assume(t2 >= 1)
	zzverif.Assume(t2 <= 1_000_000)
	v1, v2 := zzverif.Int("v1"), zzverif.Int("v2")
	c.Set("k", v1, t1)
	gap := zzverif.Int64("gap_ns")
	zzverif.Assume(gap >= 0)
	zzverif.Assume(gap <= 2_000_000_000_000_000)
	clk.Advance(time.Duration(gap))
	c.Set("k", v2, t2)
	setAt := clk.Now()
	d := zzverif.Int64("elapsed_ns")
	zzverif.Assume(d >= 0)
	zzverif.Assume(d <= 2_000_000_000_000_000)
	clk.Advance(time.Duration(d))
	eff := t2
	if maxTTL > 0 && t2 > maxTTL {
		eff = maxTTL
	}
	got, ok := c.Get("k")
	live := clk.Now().Sub(setAt) < time.Duration(eff)*time.Second
	zzverif.Assert(ok == live, "get_hit_iff_latest_set_still_live")
	if ok {
		zzverif.Assert(got == v2, "get_returns_latest_value")
	}
	c.Cleanup()
	if zzverif.Symbolic() {
		_, stored := vStore[c.m]["k"]
		exp := setAt.Add(time.Duration(eff) * time.Second)
		if exp.Before(clk.Now()) {
			zzverif.Assert(!stored, "cleanup_removes_expired")
		} else {
			zzverif.Assert(stored, "cleanup_keeps_unexpired")
		}
	}
	c.Stop()
	zzverif.Cover("ttl_overwrite_done")
}

// Sub-second instants: the cache clock is not aligned to whole seconds, entries are set, time passes by fractions of
// a second and a manual Cleanup runs during an entry's last second - exactly at, just before and just after its expiry.
// Cleanup removes only what has expired (expiry strictly before now) and Get hits iff strictly less than the TTL has
// elapsed. Offsets, TTLs and steps are forked from small sets that include every boundary (a symbolic division of
// the nanosecond clock by 10^9, which an implementation comparing whole seconds would introduce, is beyond the
// solvers; with forked values the same code is decided by evaluation).
//
//verif:harness prop=C15 name=ttl_subsecond threads=2 sched=delay preempt=0 unwind=12 witness=lenient
func VerifTTLSubSecond() {
	vStore = nil
	offs := []int64{0, 1, 500_000_000, 900_000_000, 999_999_999}
	start := zzverif.TimeFromNanos(1_000_000_000_000 + offs[zzverif.Choose("clock_offset_ns", len(offs))])
	clk := zzverifstubs.NewClock(start)
	c := NewCache[int](CacheOptions{clock: clk, CleanupInterval: time.Hour})
	ttl := int64(1 + zzverif.Choose("ttl_s", 2))
	c.Set("k", 7, ttl)
	c.Set("other", 8, 1000)
	steps := []time.Duration{1, 100 * time.Millisecond, 500 * time.Millisecond, 999_999_999, time.Second, time.Second + 1,
		1500 * time.Millisecond, 2 * time.Second, 2*time.Second + 1}
	elapsed := steps[zzverif.Choose("elapsed", len(steps))]
	clk.Advance(elapsed)
	c.Cleanup()
	live := elapsed < time.Duration(ttl)*time.Second
	expiredStrictly := elapsed > time.Duration(ttl)*time.Second
	if zzverif.Symbolic() {
		_, stored := vStore[c.m]["k"]
		if !expiredStrictly {
			zzverif.Assert(stored, "cleanup_keeps_what_has_not_expired")
		} else {
			zzverif.Assert(!stored, "cleanup_removes_expired")
		}
	}
	got, ok := c.Get("k")
	zzverif.Assert(ok == live, "get_hit_iff_live")
	if ok {
		zzverif.Assert(got == 7, "get_returns_latest_value")
	}
	_, ok2 := c.Get("other")
	zzverif.Assert(ok2, "untouched_live_entry_survives_cleanup")
	c.Stop()
	zzverif.Cover("ttl_subsecond_done")
}

// Two cleanups with a re-Set in between: Set k (symbolic TTL), time passes, Cleanup, Set k again (another TTL), time
// passes, Cleanup, Get - the second Cleanup judges k by its CURRENT entry only: a live k is still there, an expired
// one is gone, and a second key that was never touched after its Set survives while it is live. (A fixed shape with
// symbolic TTLs and advances: the operation-sequence harness reaches this length only in the thorough tier.)
//
//verif:harness prop=C15 name=ttl_cleanup_twice threads=2 sched=delay preempt=0 unwind=12 witness=lenient solver=cvc5
func VerifTTLCleanupTwice() {
	vStore = nil
	start := zzverif.TimeFromNanos(1_000_000_000_000)
	clk := zzverifstubs.NewClock(start)
	c := NewCache[int](CacheOptions{clock: clk, CleanupInterval: time.Hour})
	t1, t2 := zzverif.Int64("ttl1"), zzverif.Int64("ttl2")
	zzverif.Assume(t1 >= 1 && t1 <= 100 && t2 >= 1 && t2 <= 100)
	d1, d2 := zzverif.Int64("advance1_s"), zzverif.Int64("advance2_s")
	zzverif.Assume(d1 >= 0 && d1 <= 200 && d2 >= 0 && d2 <= 200)
	c.Set("k", 1, t1)
	c.Set("other", 9, 1000)
	clk.Advance(time.Duration(d1) * time.Second)
	c.Cleanup()
	c.Set("k", 2, t2)
	clk.Advance(time.Duration(d2) * time.Second)
	c.Cleanup()
	got, ok := c.Get("k")
	zzverif.Assert(ok == (d2 < t2), "get_hit_iff_latest_set_still_live")
	if ok {
		zzverif.Assert(got == 2, "get_returns_latest_value")
	}
	_, ok2 := c.Get("other")
	zzverif.Assert(ok2, "untouched_live_entry_survives_cleanup")
	c.Stop()
	zzverif.Cover("ttl_cleanup_twice_done")
}

package broadcaster

import (
	"context"

	"github.com/dapr/kit/zzverif"
)

//verif:chancap (*github.com/dapr/kit/events/broadcaster.Broadcaster[T]).subscribe 10 2

type vMsg struct {
	id      int
	payload int
}

type vConsumer struct {
	ch  chan vMsg
	got []vMsg
}

func vConsume(c *vConsumer) {
	for m := range c.ch {
		mm := m
		zzverif.Ghost(func() { c.got = append(c.got, mm) })
	}
}

func vCount(got []vMsg, id int) int {
	n := 0
	for _, m := range got {
		if m.id == id {
			n++
		}
	}
	return n
}

func vIndex(got []vMsg, id int) int {
	for i, m := range got {
		if m.id == id {
			return i
		}
	}
	return -1
}

// Two subscribers that keep reading, two broadcasting goroutines (values symbolic): every value arrives exactly once
// at each subscriber, both see one common order, which respects the order of calls made by one goroutine; after Close
// returned every forwarder goroutine is gone.
//
//verif:harness prop=C11 name=broadcast_all_once_same_order threads=7 sched=delay preempt=3 t_preempt=4 unwind=12 maxpaths=400000 witness=lenient
func VerifBroadcastOrder() {
	b := New[vMsg]()
	c1 := &vConsumer{ch: make(chan vMsg)}
	c2 := &vConsumer{ch: make(chan vMsg)}
	ctx := context.Background()
	b.Subscribe(ctx, c1.ch, c2.ch)
	go vConsume(c1)
	go vConsume(c2)
	p1, p2, p3 := zzverif.Int("p1"), zzverif.Int("p2"), zzverif.Int("p3")
	done := make(chan struct{}, 2)
	go func() {
		zzverif.MustFinish()
		b.Broadcast(vMsg{1, p1})
		b.Broadcast(vMsg{2, p2})
		done <- struct{}{}
	}()
	go func() {
		zzverif.MustFinish()
		b.Broadcast(vMsg{3, p3})
		done <- struct{}{}
	}()
	<-done
	<-done
	zzverif.WaitQuiescent()
	for _, c := range []*vConsumer{c1, c2} {
		zzverif.Assert(len(c.got) == 3, "each_value_exactly_once")
		zzverif.Assert(vCount(c.got, 1) == 1, "each_value_exactly_once")
		zzverif.Assert(vCount(c.got, 2) == 1, "each_value_exactly_once")
		zzverif.Assert(vCount(c.got, 3) == 1, "each_value_exactly_once")
		zzverif.Assert(vIndex(c.got, 1) < vIndex(c.got, 2), "order_respects_call_order")
	}
	for i := 0; i < 3; i++ {
		zzverif.Assert(c1.got[i].id == c2.got[i].id, "one_common_order")
		zzverif.Assert(c1.got[i].payload == c2.got[i].payload, "payload_preserved")
	}
	zzverif.Assert(c1.got[vIndex(c1.got, 1)].payload == p1, "payload_preserved")
	zzverif.Assert(c1.got[vIndex(c1.got, 3)].payload == p3, "payload_preserved")
	b.Close()
	b.Broadcast(vMsg{4, 0})
	zzverif.WaitQuiescent()
	zzverif.Assert(len(c1.got) == 3, "nothing_delivered_after_close")
	zzverif.Assert(zzverif.ThreadsAliveIs(2), "forwarders_gone_after_close") // only the two consumers are left
	zzverif.Cover("broadcast_order_done")
}

// A subscriber that never reads (more values outstanding than its buffer holds) leaves while a Broadcast may be in
// progress; the two other subscribers keep reading. Broadcast, a later Subscribe and Close must all return, each staying
// subscriber gets every value exactly once, in order.
//
//verif:harness prop=C11 name=broadcast_departure threads=8 sched=delay preempt=2 t_preempt=3 maxpaths=400000 unwind=14 witness=lenient
func VerifBroadcastDeparture() {
	b := New[vMsg]()
	stalled := make(chan vMsg) // nobody ever receives from it
	c2 := &vConsumer{ch: make(chan vMsg)}
	c2b := &vConsumer{ch: make(chan vMsg)} // a second staying subscriber, behind the first in the fan-out
	ctx1, leave := context.WithCancel(context.Background())
	b.Subscribe(ctx1, stalled)
	b.Subscribe(context.Background(), c2.ch)
	b.Subscribe(context.Background(), c2b.ch)
	go vConsume(c2)
	go vConsume(c2b)
	n := 5 // buffer (2, scaled from 10) + 1 held by the forwarder + 2 more
	if !zzverif.Symbolic() {
		n += 8 // native replay runs with the real buffer of 10
	}
	done := make(chan struct{}, 1)
	go func() {
		zzverif.MustFinish()
		for i := 1; i <= n; i++ {
			b.Broadcast(vMsg{i, i})
		}
		done <- struct{}{}
	}()
	// the stalled subscriber leaves at some point (the scheduler decides where relative to the broadcasts)
	leave()
	<-done
	zzverif.WaitQuiescent()
	for _, c := range []*vConsumer{c2, c2b} {
		zzverif.Assert(len(c.got) == n, "staying_subscriber_gets_every_value_once")
		for i := 0; i < len(c.got); i++ {
			zzverif.Assert(c.got[i].id == i+1, "staying_subscriber_order")
		}
	}
	c3 := &vConsumer{ch: make(chan vMsg)}
	b.Subscribe(context.Background(), c3.ch)
	go vConsume(c3)
	b.Close()
	zzverif.Cover("broadcast_departure_done")
}

// Close at any moment while broadcasts are in flight towards a subscriber that keeps reading: nothing deadlocks, each
// value is delivered at most once and in call order, nothing arrives once Close returned and the system is quiescent.
//
//verif:harness prop=C11 name=broadcast_close_anytime threads=5 sched=delay preempt=3 t_preempt=4 unwind=14 witness=lenient maxpaths=400000
func VerifBroadcastClose() {
	b := New[vMsg]()
	c2 := &vConsumer{ch: make(chan vMsg)}
	b.Subscribe(context.Background(), c2.ch)
	go vConsume(c2)
	done := make(chan struct{}, 1)
	go func() {
		zzverif.MustFinish()
		for i := 1; i <= 3; i++ {
			b.Broadcast(vMsg{i, i})
		}
		done <- struct{}{}
	}()
	b.Close()
	zzverif.WaitQuiescent()
	atClose := len(c2.got)
	<-done
	b.Broadcast(vMsg{9, 9})
	zzverif.WaitQuiescent()
	zzverif.Assert(len(c2.got) == atClose, "nothing_delivered_after_close_returned")
	for i := 1; i <= 3; i++ {
		zzverif.Assert(vCount(c2.got, i) <= 1, "at_most_once")
	}
	for i := 0; i+1 < len(c2.got); i++ {
		zzverif.Assert(c2.got[i].id < c2.got[i+1].id, "order_respects_call_order")
	}
	zzverif.Assert(zzverif.ThreadsAliveIs(1), "forwarders_gone_after_close")
	zzverif.Cover("broadcast_close_done")
}

// Membership over time: a sequence of departures and new subscriptions (which of the current subscribers leaves at
// each step is forked) interleaved with broadcasts. After every step, exactly the subscribers that are still
// subscribed receive the next value - a departure removes the one that left and nobody else, whatever identifiers the
// implementation gives to subscribers that came later.
//
//verif:harness prop=C11 name=broadcast_membership threads=12 sched=delay preempt=0 unwind=14 witness=lenient
func VerifBroadcastMembership() {
	b := New[vMsg]()
	type member struct {
		c      *vConsumer
		cancel context.CancelFunc
		live   bool
	}
	var ms []*member
	join := func() {
		ctx, cancel := context.WithCancel(context.Background())
		m := &member{c: &vConsumer{ch: make(chan vMsg)}, cancel: cancel, live: true}
		b.Subscribe(ctx, m.c.ch)
		go vConsume(m.c)
		ms = append(ms, m)
	}
	join()
	join()
	next := 1
	check := func() {
		b.Broadcast(vMsg{next, next})
		zzverif.WaitQuiescent()
		for _, m := range ms {
			if m.live {
				zzverif.Assert(vCount(m.c.got, next) == 1, "subscribed_member_receives_the_value_once")
			} else {
				zzverif.Assert(vCount(m.c.got, next) <= 1, "departed_member_at_most_once")
			}
		}
		next++
	}
	check()
	steps := 4
	if zzverif.Thorough() {
		steps = 6
	}
	for s := 0; s < steps; s++ {
		if zzverif.Bool("join") {
			join()
		} else {
			var live []*member
			for _, m := range ms {
				if m.live {
					live = append(live, m)
				}
			}
			if len(live) == 0 {
				join()
			} else {
				m := live[zzverif.Choose("who_leaves", len(live))]
				m.cancel()
				m.live = false
				zzverif.WaitQuiescent()
			}
		}
		check()
	}
	b.Close()
	zzverif.Cover("broadcast_membership_done")
}

// Close from two goroutines at once while values are still on their way to a subscriber: whichever Close call returns,
// nothing is delivered to anybody after it has returned (each call waits for the deliveries in flight, not only the
// one that closed first), and a Close issued afterwards returns at once. Deliveries are counted exactly, as the number
// of values in the subscriber's (large enough, never read) channel, so a delivery that happened before a Close
// returned is never mistaken for a later one.
//
//verif:harness prop=C11 name=broadcast_concurrent_close threads=7 sched=delay preempt=3 t_preempt=4 unwind=14 witness=lenient
func VerifBroadcastConcurrentClose() {
	b := New[vMsg]()
	ch := make(chan vMsg, 8)
	b.Subscribe(context.Background(), ch)
	b.Broadcast(vMsg{1, 1})
	b.Broadcast(vMsg{2, 2})
	var atReturn [2]int
	done := make(chan struct{}, 2)
	for i := 0; i < 2; i++ {
		i := i
		go func() {
			zzverif.MustFinish()
			b.Close()
			zzverif.Ghost(func() { atReturn[i] = len(ch) })
			done <- struct{}{}
		}()
	}
	<-done
	<-done
	zzverif.WaitQuiescent()
	zzverif.Assert(len(ch) == atReturn[0] && len(ch) == atReturn[1], "nothing_delivered_after_a_close_returned")
	b.Close()
	b.Broadcast(vMsg{3, 3})
	zzverif.WaitQuiescent()
	zzverif.Assert(len(ch) == atReturn[0], "nothing_delivered_after_a_close_returned")
	zzverif.Cover("broadcast_concurrent_close_done")
}

// Close while a subscriber is stalled: it has never read and has not cancelled, values are buffered for it (one held
// by its forwarder, more in its buffer), a second subscriber reads normally. Close returns nevertheless - it does not
// wait for the stalled subscriber - and the healthy subscriber's forwarder is gone afterwards.
//
//verif:harness prop=C11 name=broadcast_close_with_stalled_subscriber threads=6 sched=delay preempt=2 t_preempt=3 unwind=14 witness=lenient
func VerifBroadcastCloseStalled() {
	b := New[vMsg]()
	stalled := make(chan vMsg) // never read, never cancelled
	c2 := &vConsumer{ch: make(chan vMsg)}
	b.Subscribe(context.Background(), stalled)
	b.Subscribe(context.Background(), c2.ch)
	go vConsume(c2)
	n := 1 + zzverif.Choose("values", 3)
	for i := 1; i <= n; i++ {
		b.Broadcast(vMsg{i, i})
	}
	if zzverif.Bool("settle_before_close") {
		zzverif.WaitQuiescent()
	}
	closed := make(chan struct{})
	go func() {
		zzverif.MustFinish()
		b.Close()
		close(closed)
	}()
	<-closed
	zzverif.WaitQuiescent()
	for i := 1; i <= n; i++ {
		zzverif.Assert(vCount(c2.got, i) <= 1, "at_most_once")
	}
	zzverif.Assert(zzverif.ThreadsAliveIs(1), "forwarders_gone_after_close") // only the healthy consumer is left
	zzverif.Cover("broadcast_close_stalled_done")
}

// A subscriber that starts reading late: more values than its buffer holds are broadcast before it reads the first
// one (the broadcaster waits for room, as it must); it then receives every value exactly once and in the order of the
// Broadcast calls, and so does a second subscriber that reads promptly.
//
//verif:harness prop=C11 name=broadcast_late_reader_order threads=7 sched=delay preempt=2 t_preempt=3 unwind=14 witness=lenient
func VerifBroadcastLateReader() {
	b := New[vMsg]()
	late := &vConsumer{ch: make(chan vMsg)}
	prompt := &vConsumer{ch: make(chan vMsg)}
	b.Subscribe(context.Background(), late.ch)
	b.Subscribe(context.Background(), prompt.ch)
	go vConsume(prompt)
	n := 6 // buffer (2, scaled from 10) + 1 held by the forwarder + 3 more
	if !zzverif.Symbolic() {
		n += 8
	}
	done := make(chan struct{}, 1)
	go func() {
		zzverif.MustFinish()
		for i := 1; i <= n; i++ {
			b.Broadcast(vMsg{i, i})
		}
		done <- struct{}{}
	}()
	zzverif.WaitQuiescent() // the broadcaster is parked on the late subscriber's full buffer
	go vConsume(late)
	<-done
	zzverif.WaitQuiescent()
	for _, c := range []*vConsumer{late, prompt} {
		zzverif.Assert(len(c.got) == n, "every_value_exactly_once")
		for i := 0; i < len(c.got); i++ {
			zzverif.Assert(c.got[i].id == i+1, "values_in_broadcast_order")
		}
	}
	b.Close()
	zzverif.Cover("broadcast_late_reader_done")
}

// A bystander leaves while a Broadcast is waiting for a slow subscriber: four subscribers in subscription order - Z
// (reads promptly, leaves), A (starts reading late: more values outstanding than its buffer holds, so a Broadcast call
// waits for it), S1 and S2 (read promptly). Z's departure during that wait takes nothing from, and duplicates nothing
// for, the subscribers behind A in the fan-out: S1, S2 and A receive every value exactly once, in call order.
//
//verif:harness prop=C11 name=broadcast_bystander_leaves_while_waiting threads=12 sched=delay preempt=1 t_preempt=2 unwind=20 witness=lenient
func VerifBroadcastBystanderLeaves() {
	b := New[vMsg]()
	z := &vConsumer{ch: make(chan vMsg)}
	a := &vConsumer{ch: make(chan vMsg)}
	s1 := &vConsumer{ch: make(chan vMsg)}
	s2 := &vConsumer{ch: make(chan vMsg)}
	ctxZ, leaveZ := context.WithCancel(context.Background())
	b.Subscribe(ctxZ, z.ch)
	b.Subscribe(context.Background(), a.ch)
	b.Subscribe(context.Background(), s1.ch)
	b.Subscribe(context.Background(), s2.ch)
	go vConsume(z)
	go vConsume(s1)
	go vConsume(s2)
	n := 4 // A's buffer (2, scaled from 10) + 1 held by its forwarder: the 4th call waits
	if !zzverif.Symbolic() {
		n += 8 // native replay runs with the real buffer of 10
	}
	done := make(chan struct{}, 1)
	go func() {
		for i := 1; i <= n; i++ {
			b.Broadcast(vMsg{i, i})
		}
		done <- struct{}{}
	}()
	zzverif.WaitQuiescent() // the last Broadcast call is waiting for room in A's buffer
	leaveZ()
	zzverif.WaitQuiescent()
	go vConsume(a) // A catches up
	<-done
	zzverif.WaitQuiescent()
	for _, c := range []*vConsumer{a, s1, s2} {
		zzverif.Assert(len(c.got) == n, "every_staying_subscriber_gets_every_value_once")
		for i := 0; i < len(c.got) && i < n; i++ {
			zzverif.Assert(c.got[i].id == i+1, "staying_subscriber_order")
		}
	}
	b.Close()
	zzverif.Cover("broadcast_bystander_leaves_done")
}

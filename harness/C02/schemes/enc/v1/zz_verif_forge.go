package v1

import (
	"crypto/rand"
	"bytes"
	"encoding/base64"
	"errors"
	"io"
	"strconv"

	"github.com/dapr/kit/zzverif"
	"github.com/dapr/kit/zzverifstubs"
)

//verif:stub crypto/aes.NewCipher zzverifstubs.NewCipher
//verif:stub crypto/cipher.NewGCM zzverifstubs.NewGCM
//verif:stub golang.org/x/crypto/chacha20poly1305.New zzverifstubs.NewChaCha
//verif:stub golang.org/x/crypto/hkdf.New zzverifstubs.HKDFNew
//verif:stub crypto/hmac.New zzverifstubs.HmacNew
//verif:stub crypto/hmac.Equal zzverifstubs.HmacEqual
//verif:stub crypto/sha256.New zzverifstubs.NewSHA256
//verif:stub (*encoding/base64.Encoding).Encode zzverifstubs.B64Encode
//verif:stub (*encoding/base64.Encoding).Decode zzverifstubs.B64Decode
//verif:stub encoding/json.Marshal vJSONMarshal
//verif:stub encoding/json.Unmarshal vJSONUnmarshal

// A forger who holds NO key of the vault writes a whole document by the published format under a file key of its own
// choice (32 symbolic bytes) and puts a wrapped-key field into the manifest that is not the wrapping of anything: the
// vault refuses to unwrap it (error, and no key or a short one - what AES-KW and RSA-OAEP do with a blob that fails
// their integrity check). Such a document differs from everything Encrypt produced for this vault in every byte that
// matters, and none of its plaintext is authenticated by a key the recipient holds: Decrypt must fail, or its stream
// must end in an error - for EVERY file key the forger may have picked. The solver is asked for the file key.
//
//verif:harness prop=C02 name=forged_document threads=3 sched=delay preempt=0 unwind=200 race=off witness=lenient
func VerifForgedDocument() {
	zzverifstubs.Init()
	vWires = nil
	// standard assumption on the primitives: different inputs never give the same key, MAC or ciphertext
	zzverif.UFCollisionFree("HKDF")
	zzverif.UFCollisionFree("HMAC_SHA256")
	zzverif.UFCollisionFree("Seal")
	forgerKey := zzverif.Bytes("forger_file_key", 32)
	np := zzverif.Bytes("nonce_prefix", 7)
	wfk := zzverif.Bytes("bogus_wrapped_key", 32)
	ciph := []Cipher{CipherAESGCM, CipherChaCha20Poly1305}[zzverif.Choose("cipher", 2)]
	plain := zzverif.Bytes("forged_plaintext", 1+zzverif.Choose("plaintext_len", 2))
	var manifest []byte
	if zzverif.Symbolic() {
		manifest = []byte("{x}")
		vWires = append(vWires, vWire{tok: manifest, k: "key", kw: KeyAlgorithmAES256KW.ID(), cph: ciph.ID(), wfk: wfk, np: np})
	} else {
		manifest = []byte(`{"k":"key","kw":1,"wfk":"` + base64.StdEncoding.EncodeToString(wfk) + `","cph":` + strconv.Itoa(ciph.ID()) +
			`,"np":"` + base64.StdEncoding.EncodeToString(np) + `"}`)
	}
	msg := append(append([]byte("dapr.io/enc/v1\n"), manifest...), '\n')
	mac := vHMAC(vHKDF(forgerKey, nil, []byte("header")), msg)
	b64 := make([]byte, base64.StdEncoding.EncodedLen(32))
	base64.StdEncoding.Encode(b64, mac)
	doc := append(append(append([]byte{}, msg...), b64...), '\n')
	nonce := append(append([]byte{}, np...), 0, 0, 0, 0, 1)
	doc = append(doc, vSeal(ciph, vHKDF(forgerKey, np, []byte("payload")), nonce, plain)...)

	refusal := zzverif.Choose("vault_refusal", 2)
	unwraps := 0
	unwrapFn := func(wrapped []byte, alg string, name string, nonce, tag []byte) ([]byte, error) {
		unwraps++
		// the vault holds no key under which this blob unwraps
		if refusal == 0 {
			return nil, errors.New("vault: integrity check failed")
		}
		return make([]byte, 16), errors.New("vault: integrity check failed")
	}
	dec, err := Decrypt(bytes.NewReader(doc), DecryptOptions{UnwrapKeyFn: unwrapFn})
	zzverif.Assert(unwraps == 1, "vault_asked_once")
	if err != nil {
		zzverif.Cover("forged_document_refused")
		return
	}
	out, rerr := vReadAll(dec, 4, 8)
	zzverif.Assert(rerr != io.EOF, "forged_document_never_ends_cleanly")
	zzverif.Assert(len(out) == 0, "forged_plaintext_never_released")
}

// "... or a different file key unwrapped": an authentic document (the real Encrypt, symbolic file key and plaintext)
// is given to Decrypt with a vault that answers with something else than the document's file key - a refusal (nil or a
// short key with an error) or ANY other 32-byte key (symbolic, assumed different). Decrypt must fail or its stream must
// end in an error (unless exactly the plaintext came out), and nothing that is not a prefix of the plaintext is released. Primitives collision-free as above.
//
//verif:harness prop=C02 name=different_key_unwrapped threads=3 sched=delay preempt=0 unwind=200 race=off witness=lenient
func VerifDifferentKeyUnwrapped() {
	zzverifstubs.Init()
	vWires = nil
	zzverif.UFCollisionFree("HKDF")
	zzverif.UFCollisionFree("HMAC_SHA256")
	zzverif.UFCollisionFree("Seal")
	rnd := zzverif.Bytes("random", 39)
	rand.Reader = &vRand{b: append([]byte{}, rnd...)}
	plain := zzverif.Bytes("plaintext", zzverif.Choose("plaintext_len", 3))
	ciph := []Cipher{CipherAESGCM, CipherChaCha20Poly1305}[zzverif.Choose("cipher", 2)]
	wrapFn := func(key []byte, alg string, name string, nonce []byte) ([]byte, []byte, error) {
		w := make([]byte, len(key))
		for i := range key {
			w[i] = key[i] ^ 0xA5
		}
		return w, nil, nil
	}
	enc, err := Encrypt(bytes.NewReader(plain), EncryptOptions{WrapKeyFn: wrapFn, Algorithm: KeyAlgorithmAES256KW, KeyName: "k", Cipher: &ciph})
	zzverif.Assume(err == nil)
	doc, err := vReadAll(enc, 128, 8)
	zzverif.Assume(err == io.EOF)

	answer := zzverif.Choose("vault_answer", 3)
	other := zzverif.Bytes("other_key", 32)
	zzverif.Assume(!zzverif.EqBytes(other, rnd[:32]))
	unwrapFn := func(wrapped []byte, alg string, name string, nonce, tag []byte) ([]byte, error) {
		switch answer {
		case 0:
			return nil, errors.New("vault: no such key")
		case 1:
			return make([]byte, 16), errors.New("vault: integrity check failed")
		}
		return append([]byte{}, other...), nil
	}
	dec, err := Decrypt(bytes.NewReader(doc), DecryptOptions{UnwrapKeyFn: unwrapFn})
	if err != nil {
		zzverif.Cover("different_key_refused")
		return
	}
	out, rerr := vReadAll(dec, 4, 8)
	// the property allows a clean end only when exactly the original plaintext was released
	zzverif.Assert(rerr != io.EOF || (len(out) == len(plain) && zzverif.EqBytes(out, plain)), "different_key_ends_in_error_unless_plaintext_exact")
	zzverif.Assert(len(out) <= len(plain) && zzverif.EqBytes(out, plain[:len(out)]), "different_key_releases_only_plaintext_prefix")
}

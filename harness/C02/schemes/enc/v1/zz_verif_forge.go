package v1

import (
	"bytes"
	"encoding/base64"
	"errors"
	"io"
	"strconv"

	"github.com/dapr/kit/zzverif"
	"github.com/dapr/kit/zzverifstubs"
)

//verif:stub crypto/aes.NewCipher zzverifstubs.NewCipher
//verif:stub crypto/cipher.NewGCM zzverifstubs.NewGCM
//verif:stub golang.org/x/crypto/chacha20poly1305.New zzverifstubs.NewChaCha
//verif:stub golang.org/x/crypto/hkdf.New zzverifstubs.HKDFNew
//verif:stub crypto/hmac.New zzverifstubs.HmacNew
//verif:stub crypto/hmac.Equal zzverifstubs.HmacEqual
//verif:stub crypto/sha256.New zzverifstubs.NewSHA256
//verif:stub (*encoding/base64.Encoding).Encode zzverifstubs.B64Encode
//verif:stub (*encoding/base64.Encoding).Decode zzverifstubs.B64Decode
//verif:stub encoding/json.Marshal vJSONMarshal
//verif:stub encoding/json.Unmarshal vJSONUnmarshal

// A forger who holds NO key of the vault writes a whole document by the published format under a file key of its own
// choice (32 symbolic bytes) and puts a wrapped-key field into the manifest that is not the wrapping of anything: the
// vault refuses to unwrap it (error, and no key or a short one - what AES-KW and RSA-OAEP do with a blob that fails
// their integrity check). Such a document differs from everything Encrypt produced for this vault in every byte that
// matters, and none of its plaintext is authenticated by a key the recipient holds: Decrypt must fail, or its stream
// must end in an error - for EVERY file key the forger may have picked. The solver is asked for the file key.
//
//verif:harness prop=C02 name=forged_document threads=3 sched=delay preempt=0 unwind=200 race=off witness=lenient
func VerifForgedDocument() {
	zzverifstubs.Init()
	vWires = nil
	// standard assumption on the primitives: different inputs never give the same key, MAC or ciphertext
	zzverif.UFCollisionFree("HKDF")
	zzverif.UFCollisionFree("HMAC_SHA256")
	zzverif.UFCollisionFree("Seal")
	forgerKey := zzverif.Bytes("forger_file_key", 32)
	np := zzverif.Bytes("nonce_prefix", 7)
	wfk := zzverif.Bytes("bogus_wrapped_key", 32)
	ciph := []Cipher{CipherAESGCM, CipherChaCha20Poly1305}[zzverif.Choose("cipher", 2)]
	plain := zzverif.Bytes("forged_plaintext", 1+zzverif.Choose("plaintext_len", 2))
	var manifest []byte
	if zzverif.Symbolic() {
		manifest = []byte("{x}")
		vWires = append(vWires, vWire{tok: manifest, k: "key", kw: KeyAlgorithmAES256KW.ID(), cph: ciph.ID(), wfk: wfk, np: np})
	} else {
		manifest = []byte(`{"k":"key","kw":1,"wfk":"` + base64.StdEncoding.EncodeToString(wfk) + `","cph":` + strconv.Itoa(ciph.ID()) +
			`,"np":"` + base64.StdEncoding.EncodeToString(np) + `"}`)
	}
	msg := append(append([]byte("dapr.io/enc/v1\n"), manifest...), '\n')
	mac := vHMAC(vHKDF(forgerKey, nil, []byte("header")), msg)
	b64 := make([]byte, base64.StdEncoding.EncodedLen(32))
	base64.StdEncoding.Encode(b64, mac)
	doc := append(append(append([]byte{}, msg...), b64...), '\n')
	nonce := append(append([]byte{}, np...), 0, 0, 0, 0, 1)
	doc = append(doc, vSeal(ciph, vHKDF(forgerKey, np, []byte("payload")), nonce, plain)...)

	refusal := zzverif.Choose("vault_refusal", 2)
	unwraps := 0
	unwrapFn := func(wrapped []byte, alg string, name string, nonce, tag []byte) ([]byte, error) {
		unwraps++
		// the vault holds no key under which this blob unwraps
		if refusal == 0 {
			return nil, errors.New("vault: integrity check failed")
		}
		return make([]byte, 16), errors.New("vault: integrity check failed")
	}
	dec, err := Decrypt(bytes.NewReader(doc), DecryptOptions{UnwrapKeyFn: unwrapFn})
	zzverif.Assert(unwraps == 1, "vault_asked_once")
	if err != nil {
		zzverif.Cover("forged_document_refused")
		return
	}
	out, rerr := vReadAll(dec, 4, 8)
	zzverif.Assert(rerr != io.EOF, "forged_document_never_ends_cleanly")
	zzverif.Assert(len(out) == 0, "forged_plaintext_never_released")
}

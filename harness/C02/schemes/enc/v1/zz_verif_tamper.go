package v1

import (
	"bytes"
	"crypto/cipher"
	"errors"
	"io"

	"github.com/dapr/kit/zzverif"
	"github.com/dapr/kit/zzverifstubs"
)

//verif:stub crypto/aes.NewCipher zzverifstubs.NewCipher
//verif:stub crypto/cipher.NewGCM vIdealGCM
//verif:stub golang.org/x/crypto/hkdf.New zzverifstubs.HKDFNew
//verif:stub crypto/hmac.New zzverifstubs.HmacNew
//verif:stub crypto/sha256.New zzverifstubs.NewSHA256

// ---- ideal AEAD: Open succeeds exactly on the (nonce, ciphertext) pairs that were sealed --------------------------

type vSealed struct {
	nonce, ct, pt []byte
}

var vAuthentic []vSealed

type vAEAD struct{}

func (vAEAD) NonceSize() int { return 12 }
func (vAEAD) Overhead() int  { return 16 }
func (vAEAD) Seal(dst, nonce, plaintext, aad []byte) []byte {
	panic("not used by the decrypt-side harnesses")
}
func (vAEAD) Open(dst, nonce, ct, aad []byte) ([]byte, error) {
	for _, s := range vAuthentic {
		if len(ct) == len(s.ct) && zzverif.EqBytes(nonce, s.nonce) && zzverif.EqBytes(ct, s.ct) {
			return append(dst, s.pt...), nil
		}
	}
	return nil, errors.New("cipher: message authentication failed")
}

func vIdealGCM(b cipher.Block) (cipher.AEAD, error) { return vAEAD{}, nil }

// ---- sources -------------------------------------------------------------------------------------------------------

type vTReader struct {
	data    []byte
	pos     int
	reads   int
	split   int
	failAt  int
	failErr error
	errWithData bool // the failing Read also returns the bytes in front of the failure point
}

func (r *vTReader) Read(p []byte) (int, error) {
	r.reads++
	if r.failAt >= 0 && r.pos >= r.failAt {
		return 0, r.failErr
	}
	rem := len(r.data) - r.pos
	if rem == 0 {
		return 0, io.EOF
	}
	if len(p) == 0 {
		return 0, nil
	}
	lim := rem
	if len(p) < lim {
		lim = len(p)
	}
	if r.failAt >= 0 && r.pos+lim > r.failAt {
		lim = r.failAt - r.pos
	}
	n := lim
	if r.reads <= r.split {
		n = 1 + zzverif.Choose("chunk", lim) // 1..lim, forked
	}
	copy(p, r.data[r.pos:r.pos+n])
	r.pos += n
	if r.errWithData && r.failAt >= 0 && r.pos >= r.failAt {
		return n, r.failErr
	}
	return n, nil
}

func vNonce(prefix []byte, num uint32, last bool) []byte {
	n := append(append([]byte{}, prefix...), byte(num>>24), byte(num>>16), byte(num>>8), byte(num), 0)
	if last {
		n[11] = 1
	}
	return n
}

const vS = 1 // plaintext segment size used by the harness (the loop is parametric in it, see C01 seg_loop)

type vDoc struct {
	fk    fileKey
	pts   [][]byte
	cts   [][]byte
	plain []byte
}

// an authentic document of m segments (each a fresh symbolic ciphertext block registered with the ideal AEAD)
func vMakeDoc(tag string, m int) *vDoc {
	fk, err := importFileKey(zzverif.Bytes("file_key_"+tag, 32), zzverif.Bytes("nonce_prefix_"+tag, 7), CipherAESGCM)
	zzverif.Assert(err == nil, "import_ok")
	d := &vDoc{fk: fk}
	for j := 0; j < m; j++ {
		pt := zzverif.Bytes("pt_"+tag, vS)
		ct := zzverif.Bytes("ct_"+tag, vS+16)
		d.pts = append(d.pts, pt)
		d.cts = append(d.cts, ct)
		d.plain = append(d.plain, pt...)
		vAuthentic = append(vAuthentic, vSealed{nonce: vNonce(fk.noncePrefix, uint32(j), j == m-1), ct: ct, pt: pt})
	}
	return d
}

// run the decrypt-side segment loop over src and collect what the consumer of the returned stream sees
func vDecryptStream(fk fileKey, src io.Reader) (out []byte, err error) {
	pr, pw := io.Pipe()
	go processSegments(src, pw, fk.DecryptSegment, vS+16)
	buf := make([]byte, 2)
	for i := 0; i < 12; i++ {
		var n int
		n, err = pr.Read(buf)
		out = append(out, buf[:n]...)
		if err != nil {
			return out, err
		}
	}
	zzverif.Assume(false) // read budget of the harness exhausted
	return out, nil
}

func vIsPrefix(a, b []byte) bool {
	if len(a) > len(b) {
		return false
	}
	return zzverif.EqBytes(a, b[:len(a)])
}

// An arbitrary byte string X is decrypted against an authentic document of m segments: every byte released is part
// of a prefix of the original plaintext, a clean end happens only after the whole plaintext, otherwise the stream ends
// with an error. X ranges over all strings up to one segment longer than the document: this covers flips, inserts,
// removals, truncation at every offset, dropped / duplicated / swapped / appended segments.
//
//verif:harness prop=C02 name=tamper_stream threads=2 sched=delay preempt=0 unwind=40 race=off witness=lenient
func VerifTamperStream() {
	zzverifstubs.Init()
	vAuthentic = nil
	m := 1 + zzverif.Choose("segments", 2)
	d := vMakeDoc("a", m)
	maxX := (m+1)*(vS+16) + 1
	xl := 1 + zzverif.Choose("xlen", maxX) // the completely empty payload is the subject of truncated_to_header
	X := zzverif.Bytes("X", xl)
	out, err := vDecryptStream(d.fk, &vTReader{data: X, failAt: -1, split: 1})
	zzverif.Assert(vIsPrefix(out, d.plain), "released_bytes_are_prefix_of_plaintext")
	if err == io.EOF {
		zzverif.Assert(zzverif.EqBytes(out, d.plain), "clean_eof_only_after_whole_plaintext")
	} else {
		zzverif.Assert(err != nil, "stream_ends_with_error")
	}
	zzverif.Cover("tamper_stream_done")
}

// the authentic document itself decrypts to the plaintext (non-vacuity of the ideal AEAD model)
//
//verif:harness prop=C02 name=authentic_stream threads=2 sched=delay preempt=0 unwind=40 race=off witness=lenient
func VerifAuthenticStream() {
	zzverifstubs.Init()
	vAuthentic = nil
	m := 1 + zzverif.Choose("segments", 2)
	d := vMakeDoc("a", m)
	var X []byte
	for _, c := range d.cts {
		X = append(X, c...)
	}
	out, err := vDecryptStream(d.fk, &vTReader{data: X, failAt: -1, split: 2})
	zzverif.Assert(err == io.EOF, "authentic_document_ends_cleanly")
	zzverif.Assert(zzverif.EqBytes(out, d.plain), "authentic_document_decrypts")
	zzverif.Cover("authentic_stream_done")
}

// segments spliced in from a second authentic document (other key / other nonce prefix) never decrypt
//
//verif:harness prop=C02 name=splice_other_document threads=2 sched=delay preempt=0 unwind=40 race=off witness=lenient
func VerifSplice() {
	zzverifstubs.Init()
	vAuthentic = nil
	a := vMakeDoc("a", 2)
	b := vMakeDoc("b", 2)
	zzverif.Assume(!zzverif.EqBytes(a.fk.noncePrefix, b.fk.noncePrefix))
	// position j of document a replaced by the segment at position k of document b
	j, k := zzverif.Choose("j", 2), zzverif.Choose("k", 2)
	// ciphertexts sealed under different keys / nonces are unrelated byte strings (ideal AEAD)
	zzverif.Assume(!zzverif.EqBytes(b.cts[k], a.cts[j]))
	var X []byte
	for i := 0; i < 2; i++ {
		if i == j {
			X = append(X, b.cts[k]...)
		} else {
			X = append(X, a.cts[i]...)
		}
	}
	out, err := vDecryptStream(a.fk, &vTReader{data: X, failAt: -1, split: 0})
	zzverif.Assert(vIsPrefix(out, a.plain), "released_bytes_are_prefix_of_plaintext")
	zzverif.Assert(err != io.EOF, "spliced_document_does_not_end_cleanly")
	zzverif.Assert(err != nil, "stream_ends_with_error")
	zzverif.Cover("splice_done")
}

var errSrc = errors.New("source failure")

type vWrapErr struct{ inner error }

func (w vWrapErr) Error() string { return "wrapped: " + w.inner.Error() }
func (w vWrapErr) Unwrap() error { return w.inner }

// an error from the source reader at any offset surfaces as an error on the output stream; what was released before
// is a prefix of the plaintext
//
//verif:harness prop=C02 name=source_error threads=2 sched=delay preempt=0 unwind=40 race=off witness=lenient
func VerifSourceError() {
	zzverifstubs.Init()
	vAuthentic = nil
	d := vMakeDoc("a", 2)
	var X []byte
	for _, c := range d.cts {
		X = append(X, c...)
	}
	at := zzverif.Choose("fail_at", len(X)+1)
	// the failure is any error value a reader may return other than io.EOF, including the io package's own
	fails := []error{errSrc, io.ErrUnexpectedEOF, vWrapErr{io.ErrUnexpectedEOF}, io.ErrClosedPipe, io.ErrNoProgress, io.ErrShortBuffer}
	fe := fails[zzverif.Choose("source_error_kind", len(fails))]
	out, err := vDecryptStream(d.fk, &vTReader{data: X, failAt: at, failErr: fe, split: 1, errWithData: zzverif.Bool("error_together_with_data")})
	zzverif.Assert(err != nil && err != io.EOF, "source_error_does_not_end_cleanly")
	zzverif.Assert(errors.Is(err, fe), "source_error_surfaces_on_output")
	zzverif.Assert(vIsPrefix(out, d.plain), "released_bytes_are_prefix_of_plaintext")
	zzverif.Cover("source_error_done")
}

// The whole payload removed (only the header left): the format writes no segment at all for an empty message, so a
// document cut right after its header is indistinguishable from an authentic empty message.
//
//verif:harness prop=C02 name=truncated_to_header threads=2 sched=delay preempt=0 unwind=40 race=off witness=lenient
func VerifTruncatedToHeader() {
	zzverifstubs.Init()
	vAuthentic = nil
	d := vMakeDoc("a", 1+zzverif.Choose("segments", 2))
	out, err := vDecryptStream(d.fk, &vTReader{data: nil, failAt: -1})
	zzverif.Assert(len(out) == 0, "released_bytes_are_prefix_of_plaintext")
	zzverif.Cover("truncated_to_header_done")
	zzverif.Assert(err != io.EOF, "payload_removed_entirely_does_not_end_cleanly")
}

// What makes a moved, duplicated or dropped segment fail to authenticate is that every position has its own nonce:
// for ANY two positions (segment number 0..2^32-1, last flag) that differ, the nonces differ (and both start with the
// document's nonce prefix, so segments of another document never fit either). tamper_stream explores short documents;
// this lemma covers positions a short document never reaches (e.g. segments 65 536 apart).
//
//verif:harness prop=C02 name=nonce_injective unwind=16
func VerifNonceInjective() {
	fk := fileKey{noncePrefix: zzverif.Bytes("nonce_prefix", 7)}
	n1, n2 := zzverif.Uint32("num1"), zzverif.Uint32("num2")
	l1, l2 := zzverif.Bool("last1"), zzverif.Bool("last2")
	zzverif.Assume(zzverif.Or(n1 != n2, l1 != l2))
	a := fk.nonceForSegment(n1, l1)
	b := fk.nonceForSegment(n2, l2)
	zzverif.Assert(len(a) == 12 && len(b) == 12, "nonce_length")
	zzverif.Assert(!zzverif.EqBytes(a, b), "different_positions_have_different_nonces")
	zzverif.Assert(zzverif.EqBytes(a[:7], fk.noncePrefix), "nonce_starts_with_the_document_prefix")
	other := fileKey{noncePrefix: zzverif.Bytes("other_prefix", 7)}
	if !zzverif.EqBytes(other.noncePrefix, fk.noncePrefix) {
		c := other.nonceForSegment(n1, l1)
		zzverif.Assert(!zzverif.EqBytes(a, c), "another_document_has_other_nonces")
	}
	zzverif.Cover("nonce_injective_done")
}

// The real segment size. tamper_stream runs the segment loop with a one-byte segment (the loop takes the size as a
// parameter), which cannot see anything that depends on the real constants. Here the loop runs as Decrypt runs it,
// with 65 552-byte ciphertext segments: an authentic document of one full segment followed by a short last one is
// cut so that only 1..16 bytes of the last segment remain (or 1..17 arbitrary bytes are appended to a one-segment
// document, or the only segment loses its last 1..17 bytes, or the whole body is 1..16 bytes long): the stream must not end cleanly, and what was released
// is a prefix of the plaintext. Segment contents are concrete (the ideal AEAD compares them), the tail is symbolic.
//
//verif:harness prop=C02 name=real_size_tail threads=2 sched=delay preempt=0 unwind=40 race=off witness=lenient
func VerifRealSizeTail() {
	zzverifstubs.Init()
	vAuthentic = nil
	fk, err := importFileKey(zzverif.Bytes("file_key", 32), zzverif.Bytes("nonce_prefix", 7), CipherAESGCM)
	zzverif.Assert(err == nil, "import_ok")
	const S = SegmentSize
	pt0 := make([]byte, S)
	ct0 := bytes.Repeat([]byte{0x5a}, S+SegmentOverhead)
	var X, plain []byte
	mode := zzverif.Choose("mode", 5)
	t := 1 + zzverif.Choose("tail_len", 17)
	// native replay: the segments are really sealed (the engine's ideal AEAD is not there)
	seal := func(pt []byte, num uint32, last bool) []byte {
		w := &vCollectT{}
		buf := make([]byte, len(pt), len(pt)+SegmentOverhead)
		copy(buf, pt)
		if err := fk.EncryptSegment(w, buf, num, last); err != nil {
			panic(err)
		}
		return w.b
	}
	if !zzverif.Symbolic() {
		ct0 = seal(pt0, 0, mode != 0)
	}
	switch mode {
	case 0: // [full segment, not last] + the first 1..16 bytes of the (17-byte) last segment
		zzverif.Assume(t <= 16)
		pt1 := zzverif.Bytes("pt1", 1)
		ct1 := zzverif.Bytes("ct1", 17)
		if !zzverif.Symbolic() {
			ct1 = seal(pt1, 1, true)
		}
		vAuthentic = append(vAuthentic, vSealed{nonce: vNonce(fk.noncePrefix, 0, false), ct: ct0, pt: pt0},
			vSealed{nonce: vNonce(fk.noncePrefix, 1, true), ct: ct1, pt: pt1})
		plain = append(append([]byte{}, pt0...), pt1...)
		X = append(append([]byte{}, ct0...), ct1[:t]...)
	case 1: // one-segment document with 1..17 arbitrary bytes appended
		vAuthentic = append(vAuthentic, vSealed{nonce: vNonce(fk.noncePrefix, 0, true), ct: ct0, pt: pt0})
		plain = pt0
		X = append(append([]byte{}, ct0...), zzverif.Bytes("junk", t)...)
	case 2: // one-segment document that lost its last 1..17 bytes
		vAuthentic = append(vAuthentic, vSealed{nonce: vNonce(fk.noncePrefix, 0, true), ct: ct0, pt: pt0})
		plain = pt0
		X = append([]byte{}, ct0[:len(ct0)-t]...)
	case 3, 4: // a short one-segment document (one byte of plaintext) of which only the first 1..16 bytes remain (3),
		// or whose body was replaced by 1..16 arbitrary bytes (4): a body shorter than a tag is never a segment
		zzverif.Assume(t <= 16)
		pt1 := zzverif.Bytes("pt1", 1)
		ct1 := zzverif.Bytes("ct1", 17)
		if !zzverif.Symbolic() {
			ct1 = seal(pt1, 0, true)
		}
		vAuthentic = append(vAuthentic, vSealed{nonce: vNonce(fk.noncePrefix, 0, true), ct: ct1, pt: pt1})
		plain = pt1
		if mode == 3 {
			X = append([]byte{}, ct1[:t]...)
		} else {
			X = zzverif.Bytes("junk", t)
		}
	}
	pr, pw := io.Pipe()
	go processSegments(&vTReader{data: X, failAt: -1, split: 0}, pw, fk.DecryptSegment, SegmentSize+SegmentOverhead)
	var out []byte
	buf := make([]byte, S+64)
	var rerr error
	for i := 0; i < 6; i++ {
		var n int
		n, rerr = pr.Read(buf)
		out = append(out, buf[:n]...)
		if rerr != nil {
			break
		}
	}
	zzverif.Assume(rerr != nil)
	zzverif.Assert(len(out) <= len(plain) && zzverif.EqBytes(out, plain[:len(out)]), "released_bytes_are_prefix_of_plaintext")
	zzverif.Assert(rerr != io.EOF, "shortened_or_extended_document_does_not_end_cleanly")
	zzverif.Cover("real_size_tail_done")
}

type vCollectT struct{ b []byte }

func (c *vCollectT) Write(p []byte) (int, error) {
	c.b = append(c.b, p...)
	return len(p), nil
}

// A source failure that arrives together with data while the header is being read (one Read returns the rest of the
// document AND an error): after readHeader, reading the stream it handed back yields the bytes behind the header and
// then the source's error - the failure is not lost because the header happened to be complete in that read.
//
//verif:harness prop=C02 name=header_read_source_error unwind=60
func VerifHeaderReadSourceError() {
	M := zzverif.Bytes("M", 2)
	C := zzverif.Bytes("C", 1)
	zzverif.Assume(M[0] != '\n' && M[1] != '\n' && C[0] != '\n')
	rest := zzverif.Bytes("rest", zzverif.Choose("rest_len", 3))
	doc := append([]byte(SchemeName+"\n"), M...)
	doc = append(doc, '\n')
	doc = append(doc, C...)
	doc = append(doc, '\n')
	hdr := len(doc)
	doc = append(doc, rest...)
	at := hdr + zzverif.Choose("fail_after_rest_bytes", len(rest)+1) // the failure comes with (some of) the bytes behind the header
	src := &vTReader{data: doc, failAt: at, failErr: errSrc, errWithData: zzverif.Bool("error_together_with_data"), split: zzverif.Choose("split_reads", 2)}
	var in io.Reader = src
	m, c, err := readHeader(&in)
	if err != nil {
		zzverif.Assert(errors.Is(err, errSrc), "only_the_source_error_fails_a_well_formed_header")
		zzverif.Cover("header_read_source_error_refused")
		return
	}
	zzverif.Assert(zzverif.EqBytes(m, M) && zzverif.EqBytes(c, C), "header_lines_returned")
	var got []byte
	buf := make([]byte, 2)
	var rerr error
	for i := 0; i < 8; i++ {
		var n int
		n, rerr = in.Read(buf)
		got = append(got, buf[:n]...)
		if rerr != nil {
			break
		}
	}
	zzverif.Assume(rerr != nil)
	zzverif.Assert(errors.Is(rerr, errSrc), "source_error_behind_the_header_surfaces")
	zzverif.Assert(len(got) == at-hdr && zzverif.EqBytes(got, rest[:at-hdr]), "bytes_behind_the_header_preserved")
	zzverif.Cover("header_read_source_error_done")
}

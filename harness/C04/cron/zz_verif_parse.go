package cron

import (
	"strings"
	"time"

	"github.com/dapr/kit/zzverif"
)

//verif:stub time.LoadLocation vLoadLocationC04

// normalizeFields against doc.go: the parser's option word is symbolic (9 bits), the number of fields is 0..7 and each
// field is a one-byte symbolic string. The configured places (with an optional one counted when present) take the
// given fields in order, an omitted optional field and every unconfigured place get the documented default, a wrong
// count or two optionals are refused.
//
//verif:harness prop=C04 name=normalize_fields unwind=20
func VerifNormalizeFields() {
	opts := zzverif.Int("options")
	zzverif.Assume(opts >= 0)
	zzverif.Assume(opts < 1<<9)
	n := zzverif.Choose("count", 8)
	in := make([]string, n)
	for i := range in {
		in[i] = zzverif.String("f"+string(rune('0'+i)), 1)
	}
	got, err := normalizeFields(append([]string{}, in...), ParseOption(opts))

	// the documented meaning, written independently of the implementation
	bit := func(k uint) bool { return opts>>k&1 == 1 }
	secOpt, dowOpt := bit(1), bit(7)
	if secOpt && dowOpt {
		zzverif.Assert(err != nil, "two_optionals_refused")
		zzverif.Cover("normalize_two_optionals")
		return
	}
	present := []bool{bit(0) || secOpt, bit(2), bit(3), bit(4), bit(5), bit(6) || dowOpt}
	max := 0
	for _, p := range present {
		if p {
			max++
		}
	}
	min := max
	if secOpt || dowOpt {
		min = max - 1
	}
	if n < min || n > max {
		zzverif.Assert(err != nil, "wrong_field_count_refused")
		zzverif.Cover("normalize_wrong_count")
		return
	}
	zzverif.Assert(err == nil, "right_field_count_accepted")
	zzverif.Assert(len(got) == 6, "six_slots")
	def := []string{"0", "0", "0", "*", "*", "*"}
	k := 0
	for slot := 0; slot < 6; slot++ {
		want := def[slot]
		if present[slot] {
			omitted := n == min && min < max && ((slot == 0 && secOpt) || (slot == 5 && dowOpt))
			if !omitted {
				want = in[k]
				k++
			}
		}
		zzverif.Assert(got[slot] == want, "slot_holds_its_field_or_default")
	}
	zzverif.Assert(k == n, "every_field_used_once")
	zzverif.Cover("normalize_accepted")
}

// parseDescriptor: exactly the documented descriptors are accepted, each with its documented meaning; any other
// "@..." word is refused ("@every" is judged by every_delay).
//
//verif:harness prop=C04 name=descriptor unwind=40
func VerifDescriptor() {
	n := 5 + zzverif.Choose("len", 5) // "@daily" .. "@annually"
	d := "@" + zzverif.String("d", n)
	zzverif.Assume(!strings.HasPrefix(d, "@every "))
	sch, err := parseDescriptor(d, time.UTC)
	one := func(r bounds) uint64 { return 1 << r.min }
	type exp struct{ dom, month, dow, hour uint64 }
	var want *exp
	switch d {
	case "@yearly", "@annually":
		want = &exp{one(dom), one(months), all(dow), one(hours)}
	case "@monthly":
		want = &exp{one(dom), all(months), all(dow), one(hours)}
	case "@weekly":
		want = &exp{all(dom), all(months), one(dow), one(hours)}
	case "@daily", "@midnight":
		want = &exp{all(dom), all(months), all(dow), one(hours)}
	case "@hourly":
		want = &exp{all(dom), all(months), all(dow), all(hours)}
	}
	if want == nil {
		zzverif.Assert(err != nil, "unknown_descriptor_refused")
		zzverif.Cover("descriptor_refused")
		return
	}
	zzverif.Assert(err == nil, "documented_descriptor_accepted")
	s := sch.(*SpecSchedule)
	zzverif.Assert(s.Second == 1 && s.Minute == 1, "descriptor_on_minute_zero_second_zero")
	zzverif.Assert(s.Hour == want.hour && s.Dom == want.dom && s.Month == want.month && s.Dow == want.dow, "descriptor_meaning")
	zzverif.Assert(s.Location == time.UTC, "descriptor_keeps_zone")
	// the meaning of a schedule does not change when the same descriptor is parsed again for another zone
	before := *s
	again, err := parseDescriptor(d, new(time.Location))
	zzverif.Assert(err == nil && again.(*SpecSchedule) != s, "each_parse_gives_its_own_schedule")
	zzverif.Assert(*s == before, "schedule_keeps_its_zone_and_fields_when_the_descriptor_is_parsed_again")
	zzverif.Cover("descriptor_accepted")
}

// Month and weekday names in any letter case denote their numbers, in single values and in ranges; names of the other
// kind and three-letter words that are not names are refused.
//
//verif:harness prop=C04 name=names unwind=60 solver=z3-new
func VerifNames() {
	mn := []string{"jan", "feb", "mar", "apr", "may", "jun", "jul", "aug", "sep", "oct", "nov", "dec"}
	dn := []string{"sun", "mon", "tue", "wed", "thu", "fri", "sat"}
	isMonth := zzverif.Bool("month_field")
	r, names, base := dow, dn, uint64(0)
	if isMonth {
		r, names, base = months, mn, 1
	}
	// the word is either one of the names with an arbitrary letter case (symbolic case bits), or an arbitrary
	// three-letter word that is not a name
	word := func(tag string) (string, int) {
		idx := zzverif.Choose(tag+"_name", len(names)+1) - 1
		w := zzverif.String(tag, 3)
		for i := 0; i < 3; i++ {
			c := w[i] | 0x20
			zzverif.Assume(c >= 'a')
			zzverif.Assume(c <= 'z')
		}
		if idx >= 0 {
			nm := names[idx]
			zzverif.Assume(zzverif.And(zzverif.And(w[0]|0x20 == nm[0], w[1]|0x20 == nm[1]), w[2]|0x20 == nm[2]))
			return w, idx
		}
		for _, nm := range names {
			zzverif.Assume(!zzverif.And(zzverif.And(w[0]|0x20 == nm[0], w[1]|0x20 == nm[1]), w[2]|0x20 == nm[2]))
		}
		return w, -1
	}
	a, ai := word("a")
	mode := zzverif.Choose("mode", 3)
	if mode == 2 {
		// a step is a number: a word after '/' is refused whether or not it is a name of the field
		pre := []string{"*", "1", "1-5"}[zzverif.Choose("stepped", 3)]
		_, err := getRange(pre+"/"+a, r)
		zzverif.Assert(err != nil, "word_as_step_refused")
		zzverif.Cover("names_step_refused")
		return
	}
	if mode == 1 {
		b, bi := word("b")
		bits, err := getRange(a+"-"+b, r)
		if ai < 0 || bi < 0 || ai > bi {
			zzverif.Assert(err != nil, "unknown_name_or_inverted_name_range_refused")
			zzverif.Cover("names_range_refused")
			return
		}
		zzverif.Assert(err == nil, "name_range_accepted")
		zzverif.Assert(bits == getBits(uint(base)+uint(ai), uint(base)+uint(bi), 1), "name_range_denotes_its_numbers")
		zzverif.Cover("names_range_accepted")
		return
	}
	bits, err := getRange(a, r)
	if ai < 0 {
		zzverif.Assert(err != nil, "unknown_name_refused")
		zzverif.Cover("names_refused")
		return
	}
	zzverif.Assert(err == nil, "name_accepted")
	zzverif.Assert(bits == 1<<(base+uint64(ai)), "name_denotes_its_number")
	zzverif.Cover("names_accepted")
}

// getField: a comma-separated list denotes the union of its terms; one bad term refuses the whole field.
//
//verif:harness prop=C04 name=field_list unwind=80 solver=z3-new
func VerifFieldList() {
	fields := []bounds{seconds, hours, dom, months, dow}
	r := fields[zzverif.Choose("field", len(fields))]
	maxTerms := 2
	if zzverif.Thorough() {
		maxTerms = 3
	}
	k := 1 + zzverif.Choose("terms", maxTerms)
	expr := ""
	var want uint64
	bad := false
	for i := 0; i < k; i++ {
		tag := string(rune('a' + i))
		a, av := vNum(tag, 2)
		term, lo, hi := a, av, av
		if zzverif.Bool(tag + "_is_range") {
			b, bv := vNum(tag+"hi", 2)
			term, hi = a+"-"+b, bv
		}
		if i > 0 {
			expr += ","
		}
		expr += term
		termBad := zzverif.Or(zzverif.Or(lo < uint64(r.min), hi > uint64(r.max)), lo > hi)
		if termBad {
			bad = true
		} else {
			want |= getBits(uint(lo), uint(hi), 1)
		}
	}
	bits, err := getField(expr, r)
	if bad {
		zzverif.Assert(err != nil, "list_with_a_bad_term_refused")
		zzverif.Cover("field_list_refused")
		return
	}
	zzverif.Assert(err == nil, "list_of_good_terms_accepted")
	zzverif.Assert(bits == want, "list_denotes_the_union")
	zzverif.Cover("field_list_accepted")
}

// Parse end to end: each field of the spec lands in its own slot of the schedule for every parser configuration
// (standard five fields, seconds required, seconds optional, day-of-week optional); every field is a symbolic number
// (one digit; two in the thorough tier) except at most one '*'.
//
//verif:harness prop=C04 name=parse_slots unwind=120 solver=z3-new
func VerifParseSlots() {
	type cfg struct {
		opts  ParseOption
		slots []int // schedule slot of each given field
	}
	cfgs := []cfg{
		{Minute | Hour | Dom | Month | Dow, []int{1, 2, 3, 4, 5}},
		{Second | Minute | Hour | Dom | Month | Dow, []int{0, 1, 2, 3, 4, 5}},
		{SecondOptional | Minute | Hour | Dom | Month | Dow, []int{1, 2, 3, 4, 5}},
		{SecondOptional | Minute | Hour | Dom | Month | Dow, []int{0, 1, 2, 3, 4, 5}},
		{Minute | Hour | Dom | Month | DowOptional, []int{1, 2, 3, 4}},
		{Minute | Hour | Dom | Month | DowOptional, []int{1, 2, 3, 4, 5}},
	}
	c := cfgs[zzverif.Choose("config", len(cfgs))]
	rs := []bounds{seconds, minutes, hours, dom, months, dow}
	want := []uint64{1, 1, 1, all(dom), all(months), all(dow)} // defaults "0 0 0 * * *"
	if c.opts&(Second|SecondOptional) == 0 {
		want[0] = 1
	}
	spec := ""
	bad := false
	starAt := zzverif.Choose("star_field", len(c.slots)+1) // one of the fields is '*', or none
	digits := 1
	if zzverif.Thorough() {
		digits = 2
	}
	for i, slot := range c.slots {
		if i > 0 {
			spec += " "
		}
		tag := string(rune('a' + i))
		if i == starAt {
			spec += "*"
			want[slot] = all(rs[slot])
			continue
		}
		a, av := vNum(tag, digits)
		spec += a
		if av < uint64(rs[slot].min) || av > uint64(rs[slot].max) {
			bad = true
		} else {
			want[slot] = 1 << av
		}
	}
	sch, err := NewParser(c.opts).Parse(spec)
	if bad {
		zzverif.Assert(err != nil, "out_of_range_value_refused")
		zzverif.Cover("parse_slots_refused")
		return
	}
	zzverif.Assert(err == nil, "well_formed_spec_accepted")
	s := sch.(*SpecSchedule)
	got := []uint64{s.Second, s.Minute, s.Hour, s.Dom, s.Month, s.Dow}
	for i := range got {
		zzverif.Assert(got[i] == want[i], "field_lands_in_its_slot")
	}
	zzverif.Assert(s.Location == time.Local, "no_prefix_means_local_zone")
	zzverif.Cover("parse_slots_accepted")
}

var vZoneA = new(time.Location)

var vZoneAsked []string
var vZoneUnknown bool

// the tz database is not modelled: LoadLocation records the name it was asked for and answers an arbitrary
// (location, error) pair
func vLoadLocationC04(name string) (*time.Location, error) {
	vZoneAsked = append(vZoneAsked, name)
	vZoneUnknown = zzverif.Bool("unknown_zone")
	if vZoneUnknown {
		return nil, errUnknownZone
	}
	return vZoneA, nil
}

var errUnknownZone = errorStringC04("unknown time zone")

type errorStringC04 string

func (e errorStringC04) Error() string { return string(e) }

// "TZ=<zone> <spec>" and "CRON_TZ=<zone> <spec>": the zone name (symbolic, 1..3 characters without blank or '=') is
// looked up exactly as written, the schedule gets that location and otherwise the same meaning as the bare spec; an
// unknown zone refuses the whole expression, and so does a prefix with nothing after it. Without a prefix the
// location is time.Local.
//
//verif:harness prop=C04 name=tz_prefix unwind=60 solver=z3-new witness=lenient
func VerifTZPrefix() {
	vZoneAsked = nil
	zone := zzverif.String("zone", 1+zzverif.Choose("zone_len", 3))
	for i := 0; i < len(zone); i++ {
		c := zone[i]
		zzverif.Assume(c > ' ' && c < 0x7f && c != '=')
	}
	prefix := []string{"TZ=", "CRON_TZ="}[zzverif.Choose("prefix", 2)]
	body := []string{"5 4 * * *", "*/15 * 1 jan ?", "@daily", ""}[zzverif.Choose("body", 4)]
	bare, bareErr := ParseStandard(body)
	spec := prefix + zone
	if body != "" || zzverif.Bool("trailing_blank") {
		spec += " " + body
	}
	sch, err := ParseStandard(spec)
	if body == "" {
		zzverif.Assert(err != nil, "zone_without_schedule_refused")
		zzverif.Cover("tz_prefix_zone_only")
		return
	}
	if !zzverif.Symbolic() {
		// native replay: the real tz database; only the refusal of a zone-only expression is compared
		zzverif.Cover("tz_prefix_native")
		return
	}
	zzverif.Assert(len(vZoneAsked) == 1 && vZoneAsked[0] == zone, "zone_looked_up_exactly_as_written")
	if vZoneUnknown {
		zzverif.Assert(err != nil, "unknown_zone_refused")
		zzverif.Cover("tz_prefix_unknown_zone")
		return
	}
	zzverif.Assert(bareErr == nil && err == nil, "known_zone_accepted")
	a, b := bare.(*SpecSchedule), sch.(*SpecSchedule)
	zzverif.Assert(b.Location == vZoneA, "schedule_gets_the_named_zone")
	zzverif.Assert(a.Second == b.Second && a.Minute == b.Minute && a.Hour == b.Hour && a.Dom == b.Dom && a.Month == b.Month && a.Dow == b.Dow,
		"prefix_does_not_change_the_fields")
	zzverif.Cover("tz_prefix_accepted")
}

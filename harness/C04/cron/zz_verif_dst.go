package cron

import (
	"time"

	"github.com/dapr/kit/zzverif"
)

// Next around a DST fall-back in a zone of the real tz database (America/New_York, 2012-11-04: 02:00 EDT -> 01:00 EST,
// the hour 01:00-02:00 happens twice). Start instants are forked over every quarter of an hour from 00:00 EDT to
// 02:45 EST (plus 30 s), both passes of the repeated hour included; they are concrete, so calendar arithmetic runs on
// the real time package in that zone. The solver's part is the schedule: the minute field is an arbitrary non-empty
// subset of {0, 15, 30, 45}, the hour field an arbitrary non-empty subset of {0, 1, 2, 3} or unrestricted - every
// branch of Next on a field bit is decided by the solver, and for every path the result must be (a) strictly after the
// start, (b) an instant whose wall-clock minute and hour are in the sets, and (c) the EARLIEST such whole minute: no
// quarter-hour instant in between has its wall-clock fields in the sets.
//
//verif:harness prop=C04 name=next_dst_fall_back unwind=400 solver=z3-new
func VerifNextDSTFallBack() {
	// 2012-11-04 04:00 UTC = 00:00 EDT; the transition is at 06:00 UTC
	vNextAroundTransition("America/New_York", time.Date(2012, 11, 4, 4, 0, 30, 0, time.UTC), "next_dst_fall_back_done")
}

// The same around the spring-forward transition (2012-03-11: 02:00 EST -> 03:00 EDT, the wall-clock hour 02:00-03:00
// does not exist that day): start instants from 00:00 EST to 04:45 EDT; an hour set containing only the missing hour
// is first matched on the next day.
//
//verif:harness prop=C04 name=next_dst_spring_forward unwind=400 solver=z3-new
func VerifNextDSTSpringForward() {
	// 2012-03-11 05:00 UTC = 00:00 EST; the transition is at 07:00 UTC
	vNextAroundTransition("America/New_York", time.Date(2012, 3, 11, 5, 0, 30, 0, time.UTC), "next_dst_spring_forward_done")
}

// A fixed-offset zone whose offset is not a whole number of hours (Asia/Kolkata, UTC+5:30), start instants from 00:00
// to 03:45 local time, and Lord Howe Island's half-hour DST changes (2012-04-01 02:00 LHDT -> 01:30 LHST: half an hour is
// repeated; 2012-10-07 02:00 LHST -> 02:30 LHDT: half an hour is missing).
//
//verif:harness prop=C04 name=next_half_hour_zones unwind=400 solver=z3-new
func VerifNextHalfHourZones() {
	switch zzverif.Choose("zone_and_date", 3) {
	case 1:
		// 2012-03-31 13:00 UTC = 2012-04-01 00:00 LHDT (UTC+11); the transition is at 15:00 UTC
		vNextAroundTransition("Australia/Lord_Howe", time.Date(2012, 3, 31, 13, 0, 30, 0, time.UTC), "next_half_hour_zones_done")
		return
	case 2:
		// 2012-10-06 13:30 UTC = 2012-10-07 00:00 LHST (UTC+10:30); 02:00 LHST -> 02:30 LHDT at 15:30 UTC
		vNextAroundTransition("Australia/Lord_Howe", time.Date(2012, 10, 6, 13, 30, 30, 0, time.UTC), "next_half_hour_zones_done")
		return
	}
	// 2012-05-31 18:30 UTC = 2012-06-01 00:00 IST
	vNextAroundTransition("Asia/Kolkata", time.Date(2012, 5, 31, 18, 30, 30, 0, time.UTC), "next_half_hour_zones_done")
}

func vNextAroundTransition(zoneName string, base time.Time, cover string) {
	zone := zzverif.RealZone(zoneName)
	k := zzverif.Choose("quarter_hour", 16)
	start := base.Add(time.Duration(k) * 15 * time.Minute).In(zone)
	minutes := zzverif.Uint64("minute_set")
	const quarters = uint64(1)<<0 | 1<<15 | 1<<30 | 1<<45
	zzverif.Assume(minutes != 0)
	zzverif.Assume(minutes&^quarters == 0)
	hours := uint64(1)<<24 - 1
	restrictHours := zzverif.Bool("hours_restricted")
	if restrictHours {
		hours = zzverif.Uint64("hour_set")
		zzverif.Assume(hours != 0)
		zzverif.Assume(hours&^0xf == 0)
	}
	all := func(lo, hi uint) uint64 { return getBits(lo, hi, 1) | starBit }
	s := &SpecSchedule{Second: 1, Minute: minutes, Hour: hours, Dom: all(1, 31), Month: all(1, 12), Dow: all(0, 6), Location: zone}
	got := s.Next(start)
	matches := func(u time.Time) bool {
		return minutes&(uint64(1)<<uint(u.Minute())) != 0 && hours&(uint64(1)<<uint(u.Hour())) != 0
	}
	if restrictHours && got.IsZero() {
		zzverif.Assume(false) // (cannot happen: hour 0..3 of the next day matches)
	}
	zzverif.Assert(got.After(start), "next_is_strictly_after_start")
	zzverif.Assert(got.Second() == 0 && got.Nanosecond() == 0, "next_is_a_whole_minute")
	zzverif.Assert(matches(got), "next_matches_the_fields_on_the_zone_wall_clock")
	// every quarter-hour instant strictly between start and the result (in absolute time) does not match
	u := start.Truncate(15 * time.Minute)
	for i := 0; i < 120; i++ {
		u = u.Add(15 * time.Minute)
		if !u.Before(got) {
			break
		}
		zzverif.Assert(!matches(u), "no_earlier_matching_instant")
	}
	zzverif.Cover(cover)
}

// A transition AT MIDNIGHT (America/Sao_Paulo, 2018-11-04: 00:00 -03 -> 01:00 -02, the hour 00:00-01:00 does not
// exist that day; and 2019-02-17: 00:00 -02 -> 23:00 -03 of the day before, the hour 23:00-24:00 of 02-16 happens
// twice; America/Havana 2009-11-01 and 2009-03-08 likewise, the first one on the first of a month) with the DAY fields
// in play: start instants every hour from 21:30 two and a half hours before the transition
// to 04:30 after it; day-of-month an arbitrary non-empty subset of the three days around it, hour an arbitrary
// non-empty subset of {0, 1, 22, 23} or unrestricted, minute and second 0. The result is strictly after the start,
// matches on the zone's wall clock, and no whole hour in between matches. Also Asia/Pyongyang 2018 (half an hour
// skipped across midnight) and Pacific/Apia 2011 (a whole calendar day skipped).
//
//verif:harness prop=C04 name=next_dst_at_midnight unwind=400 solver=z3-new nonterm=violation replay_timeout=20
func VerifNextDSTAtMidnight() {
	zone := zzverif.RealZone("America/Sao_Paulo")
	var base time.Time
	var dayBits uint64
	switch zzverif.Choose("transition", 6) {
	case 4:
		// Asia/Pyongyang 2018-05-04: 23:30 (+08:30) -> 00:00 of 05-05 (+09:00): half an hour skipped ACROSS midnight
		zone = zzverif.RealZone("Asia/Pyongyang")
		base = time.Date(2018, 5, 4, 12, 0, 30, 0, time.UTC) // 20:30:30 +08:30 on 05-04; transition at 15:00 UTC
		dayBits = 7 << 4
	case 5:
		// Pacific/Apia 2011-12-29 24:00 -> 2011-12-31 00:00: the whole of 12-30 does not exist
		zone = zzverif.RealZone("Pacific/Apia")
		base = time.Date(2011, 12, 30, 7, 30, 30, 0, time.UTC) // 21:30:30 -10 on 12-29; transition at 10:00 UTC
		dayBits = 7 << 29
	case 0:
		base = time.Date(2018, 11, 4, 0, 30, 30, 0, time.UTC) // 21:30:30 -03 on 11-03; transition at 03:00 UTC
		dayBits = 7 << 3
	case 1:
		base = time.Date(2019, 2, 16, 23, 30, 30, 0, time.UTC) // 21:30:30 -02 on 02-16; transition at 02:00 UTC on 02-17
		dayBits = 7 << 16
	case 2:
		// America/Havana 2009-11-01: 01:00 CDT -> 00:00 CST, the first hour of the FIRST of the month happens twice
		zone = zzverif.RealZone("America/Havana")
		base = time.Date(2009, 11, 1, 1, 30, 30, 0, time.UTC) // 21:30:30 -04 on 10-31; transition at 05:00 UTC
		dayBits = 1<<31 | 1<<1 | 1<<2
	case 3:
		// America/Havana 2009-03-08: 00:00 CST -> 01:00 CDT
		zone = zzverif.RealZone("America/Havana")
		base = time.Date(2009, 3, 8, 2, 30, 30, 0, time.UTC) // 21:30:30 -05 on 03-07; transition at 05:00 UTC
		dayBits = 7 << 7
	}
	start := base.Add(time.Duration(zzverif.Choose("hours_after_base", 8)) * time.Hour).In(zone)
	days := zzverif.Uint64("day_set")
	zzverif.Assume(days != 0)
	zzverif.Assume(days&^dayBits == 0)
	hours := uint64(1)<<24 - 1
	if zzverif.Bool("hours_restricted") {
		hours = zzverif.Uint64("hour_set")
		zzverif.Assume(hours != 0)
		zzverif.Assume(hours&^(uint64(1)<<0|1<<1|1<<22|1<<23) == 0)
	}
	all := func(lo, hi uint) uint64 { return getBits(lo, hi, 1) | starBit }
	s := &SpecSchedule{Second: 1, Minute: 1, Hour: hours, Dom: days, Month: all(1, 12), Dow: all(0, 6), Location: zone}
	got := s.Next(start)
	matches := func(u time.Time) bool {
		return u.Minute() == 0 && days&(uint64(1)<<uint(u.Day())) != 0 && hours&(uint64(1)<<uint(u.Hour())) != 0
	}
	// the three days come round again next month at the latest: there is a result
	zzverif.Assert(!got.IsZero(), "next_exists")
	zzverif.Assert(got.After(start), "next_is_strictly_after_start")
	zzverif.Assert(got.Second() == 0 && got.Nanosecond() == 0, "next_is_a_whole_minute")
	zzverif.Assert(matches(got), "next_matches_the_fields_on_the_zone_wall_clock")
	u := start.Truncate(30 * time.Minute) // (offsets of +08:30: whole wall-clock hours lie on the half-hour grid)
	for i := 0; i < 160; i++ {
		u = u.Add(30 * time.Minute)
		if !u.Before(got) {
			break
		}
		zzverif.Assert(!matches(u), "no_earlier_matching_instant")
	}
	zzverif.Cover("next_dst_at_midnight_done")
}

// A transition that is NOT on the hour: Pacific/Chatham (UTC+12:45 / +13:45) changes at 02:45 standard time
// (2012-09-30 02:45 -> 03:45: of the wall-clock hour 03:00-04:00 only the last quarter exists; 2012-04-01 03:45 -> 02:45:
// the last quarter of hour 2 and the first three quarters of hour 3 happen twice).
//
//verif:harness prop=C04 name=next_dst_off_the_hour unwind=400 solver=z3-new
func VerifNextDSTOffTheHour() {
	if zzverif.Bool("autumn") {
		// 2012-03-31 10:15 UTC = 2012-04-01 00:00 CHADT (+13:45); the change is at 14:00 UTC
		vNextAroundTransition("Pacific/Chatham", time.Date(2012, 3, 31, 10, 15, 30, 0, time.UTC), "next_dst_off_the_hour_done")
		return
	}
	// 2012-09-29 11:15 UTC = 2012-09-30 00:00 CHAST (+12:45); the change is at 14:00 UTC
	vNextAroundTransition("Pacific/Chatham", time.Date(2012, 9, 29, 11, 15, 30, 0, time.UTC), "next_dst_off_the_hour_done")
}

// More kinds of transition, same shape (quarter-hour start instants over four hours, symbolic minute and hour sets):
// Antarctica/Troll, whose DST shift is TWO hours (2016-03-27 01:00 +00 -> 03:00 +02; 2016-10-30 03:00 +02 -> 01:00 +00,
// two hours repeated); Atlantic/Azores 2016-10-30 01:00 +00 -> 00:00 -01 (the hour after midnight repeated);
// Europe/London 2016-03-27 01:00 -> 02:00; Asia/Amman 2016-10-28 01:00 +03 -> 00:00 +02.
//
//verif:harness prop=C04 name=next_dst_more_zones unwind=400 solver=z3-new nonterm=violation replay_timeout=20
func VerifNextDSTMoreZones() {
	switch zzverif.Choose("zone_and_date", 5) {
	case 0:
		vNextAroundTransition("Antarctica/Troll", time.Date(2016, 3, 27, 0, 0, 30, 0, time.UTC), "next_dst_more_zones_done") // change at 01:00 UTC
	case 1:
		vNextAroundTransition("Antarctica/Troll", time.Date(2016, 10, 29, 23, 0, 30, 0, time.UTC), "next_dst_more_zones_done") // 01:00 +02 on 10-30; change at 01:00 UTC
	case 2:
		vNextAroundTransition("Atlantic/Azores", time.Date(2016, 10, 29, 23, 0, 30, 0, time.UTC), "next_dst_more_zones_done") // 23:00 +00 on 10-29; change at 01:00 UTC
	case 3:
		vNextAroundTransition("Europe/London", time.Date(2016, 3, 27, 0, 0, 30, 0, time.UTC), "next_dst_more_zones_done") // change at 01:00 UTC
	case 4:
		vNextAroundTransition("Asia/Amman", time.Date(2016, 10, 27, 20, 0, 30, 0, time.UTC), "next_dst_more_zones_done") // 23:00 +03 on 10-27; change at 22:00 UTC
	}
}

// The MONTH field at a change that removes midnight of the first of a month (America/Asuncion, 2017-10-01 00:00 -04 ->
// 01:00 -03): start instants every hour from 20:30 on 09-30 to 03:30 on 10-01, month an arbitrary non-empty subset of
// {September, October, November}, hour an arbitrary non-empty subset of {0, 1, 23} or unrestricted, minute and second
// 0: strictly after the start, matching on the wall clock, no whole hour in between matches.
//
//verif:harness prop=C04 name=next_dst_first_of_month unwind=2000 solver=z3-new nonterm=violation replay_timeout=20
func VerifNextDSTFirstOfMonth() {
	zone := zzverif.RealZone("America/Asuncion")
	base := time.Date(2017, 10, 1, 0, 30, 30, 0, time.UTC) // 20:30:30 -04 on 09-30; the change is at 04:00 UTC
	start := base.Add(time.Duration(zzverif.Choose("hours_after_base", 8)) * time.Hour).In(zone)
	months := zzverif.Uint64("month_set")
	zzverif.Assume(months != 0)
	zzverif.Assume(months&^(uint64(7)<<9) == 0)
	hours := uint64(1)<<24 - 1
	if zzverif.Bool("hours_restricted") {
		hours = zzverif.Uint64("hour_set")
		zzverif.Assume(hours != 0)
		zzverif.Assume(hours&^(uint64(1)<<0|1<<1|1<<23) == 0)
	}
	all := func(lo, hi uint) uint64 { return getBits(lo, hi, 1) | starBit }
	s := &SpecSchedule{Second: 1, Minute: 1, Hour: hours, Dom: all(1, 31), Month: months, Dow: all(0, 6), Location: zone}
	got := s.Next(start)
	matches := func(u time.Time) bool {
		return u.Minute() == 0 && months&(uint64(1)<<uint(u.Month())) != 0 && hours&(uint64(1)<<uint(u.Hour())) != 0
	}
	zzverif.Assert(!got.IsZero(), "next_exists")
	zzverif.Assert(got.After(start), "next_is_strictly_after_start")
	zzverif.Assert(got.Second() == 0 && got.Nanosecond() == 0, "next_is_a_whole_minute")
	zzverif.Assert(matches(got), "next_matches_the_fields_on_the_zone_wall_clock")
	u := start.Truncate(time.Hour)
	for i := 0; i < 1600; i++ {
		u = u.Add(time.Hour)
		if !u.Before(got) {
			break
		}
		zzverif.Assert(!matches(u), "no_earlier_matching_instant")
	}
	zzverif.Cover("next_dst_first_of_month_done")
}

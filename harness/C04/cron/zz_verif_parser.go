package cron

import (
	"github.com/dapr/kit/zzverif"
)

// vNum: a decimal number of 1 or 2 symbolic digits; returns its text and its value
func vNum(name string, maxDigits int) (string, uint64) {
	n := 1
	if maxDigits > 1 {
		n = 1 + zzverif.Choose(name+"_digits", maxDigits)
	}
	s := zzverif.String(name, n)
	var v uint64
	for i := 0; i < n; i++ {
		c := s[i]
		zzverif.Assume(c >= '0')
		zzverif.Assume(c <= '9')
		v = v*10 + uint64(c-'0')
	}
	return s, v
}

// getRange against the documented field grammar (doc.go): number | number-number | */step | number/step |
// number-number/step | * | ?, for every field. Accepted expressions denote exactly {start + k*step <= end} (and the
// star bit for an unstepped star); out-of-range values, inverted ranges and zero steps are refused.
//
//verif:harness prop=C04 name=getrange_grammar unwind=110 solver=z3-new
func VerifGetRangeGrammar() {
	fields := []bounds{seconds, minutes, hours, dom, months, dow}
	r := fields[zzverif.Choose("field", len(fields))]
	form := zzverif.Choose("form", 6)
	// the step is one of a few concrete values (a symbolic modulus stalls the solvers); start/end digits stay symbolic
	vStep := func() (string, uint64) {
		steps := []string{"0", "1", "2", "3", "5", "7", "10", "15", "30", "61"}
		if !zzverif.Thorough() {
			steps = []string{"0", "1", "2", "5", "15"}
		}
		st := steps[zzverif.Choose("step", len(steps))]
		var v uint64
		for i := 0; i < len(st); i++ {
			v = v*10 + uint64(st[i]-'0')
		}
		return st, v
	}
	var expr string
	var start, end, step uint64
	star := false
	switch form {
	case 0:
		a, av := vNum("a", 2)
		expr, start, end, step = a, av, av, 1
	case 1:
		a, av := vNum("a", 2)
		b, bv := vNum("b", 2)
		expr, start, end, step = a+"-"+b, av, bv, 1
	case 2:
		a, av := vNum("a", 2)
		s, sv := vStep()
		expr, start, end, step = a+"/"+s, av, uint64(r.max), sv
	case 3:
		a, av := vNum("a", 2)
		b, bv := vNum("b", 2)
		s, sv := vStep()
		expr, start, end, step = a+"-"+b+"/"+s, av, bv, sv
	case 4:
		s, sv := vStep()
		sym := []string{"*", "?"}[zzverif.Choose("star_or_question", 2)]
		expr, start, end, step = sym+"/"+s, uint64(r.min), uint64(r.max), sv
		star = sv <= 1
	case 5:
		expr, start, end, step = []string{"*", "?"}[zzverif.Choose("star_or_question", 2)], uint64(r.min), uint64(r.max), 1
		star = true
	}
	bits, err := getRange(expr, r)
	bad := zzverif.Or(zzverif.Or(start < uint64(r.min), end > uint64(r.max)), zzverif.Or(start > end, step == 0))
	if err != nil {
		zzverif.Assert(bad, "refuses_only_invalid_expressions")
		zzverif.Cover("getrange_refused")
		return
	}
	zzverif.Assert(!bad, "refuses_out_of_range_inverted_and_zero_step")
	zzverif.Assert((bits&starBit != 0) == star, "star_bit_only_for_unstepped_star")
	i := zzverif.Uint64("i")
	zzverif.Assume(i <= 62)
	want := false
	if i >= start && i <= end {
		want = uint8(i-start)%uint8(step) == 0
	}
	zzverif.Assert((bits>>i&1 == 1) == want, "denotes_exactly_the_documented_set")
	zzverif.Cover("getrange_accepted")
}

package cron

import (
	"time"

	"github.com/dapr/kit/zzverif"
)

func vBit(mask uint64, v int) bool { return 1<<uint(v)&mask != 0 }

// the documented meaning of a schedule at instant x (wall clock of the schedule's zone): every field's bit is set;
// days: both day fields must match if either is a star, otherwise one of them is enough
func vMatches(s *SpecSchedule, x time.Time, withDow bool) bool {
	ok := zzverif.And(vBit(s.Second, x.Second()), vBit(s.Minute, x.Minute()))
	ok = zzverif.And(ok, vBit(s.Hour, x.Hour()))
	ok = zzverif.And(ok, vBit(s.Month, int(x.Month())))
	dom := vBit(s.Dom, x.Day())
	if !withDow {
		// Dow is '*': either-day rule degenerates to the day-of-month test
		return zzverif.And(ok, dom)
	}
	dow := vBit(s.Dow, int(x.Weekday()))
	var day bool
	if s.Dom&starBit > 0 || s.Dow&starBit > 0 {
		day = zzverif.And(dom, dow)
	} else {
		day = zzverif.Or(dom, dow)
	}
	return zzverif.And(ok, day)
}

func vStar() *SpecSchedule {
	return &SpecSchedule{Second: all(seconds), Minute: all(minutes), Hour: all(hours), Dom: all(dom), Month: all(months),
		Dow: all(dow), Location: time.UTC}
}

// vMask: an arbitrary non-empty set of valid values of a field (no star bit)
func vMask(name string, r bounds) uint64 {
	m := zzverif.Uint64(name)
	valid := getBits(r.min, r.max, 1)
	zzverif.Assume(m&^valid == 0)
	zzverif.Assume(m != 0)
	return m
}

// Next(t) for a symbolic instant t: the result is after t, on a whole second, matches the schedule, and no whole
// second strictly between t and the result matches (minimality, by a Skolem instant).
func vCheckNext(s *SpecSchedule, constrain func(t time.Time)) {
	t := zzverif.CivilTime("t", time.UTC)
	constrain(t)
	r := s.Next(t)
	zzverif.Assert(!r.IsZero(), "next_exists")
	zzverif.Assert(r.After(t), "next_strictly_after")
	zzverif.Assert(r.Nanosecond() == 0, "next_on_whole_second")
	zzverif.Assert(vMatches(s, r, false), "next_matches_expression")
	x := zzverif.CivilTime("x", time.UTC)
	zzverif.Assume(x.Nanosecond() == 0)
	zzverif.Assume(x.After(t))
	zzverif.Assume(x.Before(r))
	zzverif.Assert(!vMatches(s, x, false), "next_is_earliest")
}

// vWindow: the search loop runs once per candidate value, so the bound on the number of iterations is stated as a
// window: the start instant's field is >= w and the mask only contains values in [min, min+(max-w)] or [w, max]
// (the values the search can reach within max-w+1 steps before and after wrapping round).
func vWindow(r bounds, w uint) uint64 {
	return getBits(r.min, r.min+(r.max-w), 1) | getBits(w, r.max, 1)
}

func vW(quick, thorough uint) uint {
	if zzverif.Thorough() {
		return thorough
	}
	return quick
}

//verif:harness prop=C04 name=next_second unwind=70 qtimeout=30 solver=z3-new
func VerifNextSecond() {
	s := vStar()
	w := vW(55, 45)
	s.Second = vMask("second_mask", seconds)
	zzverif.Assume(s.Second&^vWindow(seconds, w) == 0)
	vCheckNext(s, func(t time.Time) { zzverif.Assume(t.Second() >= int(w)) })
	zzverif.Cover("next_second_done")
}

//verif:harness prop=C04 name=next_minute unwind=70 qtimeout=30 solver=z3-new
func VerifNextMinute() {
	s := vStar()
	w := vW(56, 46)
	s.Minute = vMask("minute_mask", minutes)
	zzverif.Assume(s.Minute&^vWindow(minutes, w) == 0)
	vCheckNext(s, func(t time.Time) { zzverif.Assume(t.Minute() >= int(w)) })
	zzverif.Cover("next_minute_done")
}

//verif:harness prop=C04 name=next_hour unwind=70 qtimeout=30 solver=z3-new
func VerifNextHour() {
	s := vStar()
	w := vW(20, 12)
	s.Hour = vMask("hour_mask", hours)
	zzverif.Assume(s.Hour&^vWindow(hours, w) == 0)
	vCheckNext(s, func(t time.Time) { zzverif.Assume(t.Hour() >= int(w)) })
	zzverif.Cover("next_hour_done")
}

//verif:harness prop=C04 name=next_month unwind=70 qtimeout=30 solver=z3-new
func VerifNextMonth() {
	s := vStar()
	w := vW(9, 5)
	s.Month = vMask("month_mask", months)
	zzverif.Assume(s.Month&^vWindow(months, w) == 0)
	vCheckNext(s, func(t time.Time) { zzverif.Assume(int(t.Month()) >= int(w)) })
	zzverif.Cover("next_month_done")
}

//verif:harness prop=C04 name=next_dom unwind=70 qtimeout=30 solver=z3-new incr=off
func VerifNextDom() {
	s := vStar()
	w := vW(27, 22)
	m := vMask("dom_mask", dom)
	zzverif.Assume(m&^vWindow(dom, w) == 0)
	// keep a day that exists in every month, so that a match exists within the search window
	zzverif.Assume(m&getBits(1, 28, 1) != 0)
	s.Dom = m
	vCheckNext(s, func(t time.Time) { zzverif.Assume(t.Day() >= int(w)) })
	zzverif.Cover("next_dom_done")
}

// getBits: bit i is set iff min <= i <= max and (i-min) is a multiple of step
//
//verif:harness prop=C04 name=getbits unwind=70 solver=z3-new
func VerifGetBits() {
	lo, hi := zzverif.Uint64("min"), zzverif.Uint64("max")
	// the step is concretised by forking (a symbolic modulus stalls every back end)
	step := []uint64{1, 2, 3, 5, 7, 10, 15, 20, 30, 59, 60}[zzverif.Choose("step", 11)]
	zzverif.Assume(lo <= hi)
	zzverif.Assume(hi <= 59)
	bits := getBits(uint(lo), uint(hi), uint(step))
	i := zzverif.Uint64("i")
	zzverif.Assume(i <= 63)
	// quotient/remainder Skolem pair instead of a second division: i - lo = q*step + rem
	want := false
	if i >= lo && i <= hi {
		want = uint8(i-lo)%uint8(step) == 0 // 8-bit remainder: values are < 64
	}
	zzverif.Assert((bits>>i&1 == 1) == want, "getbits_exact")
	zzverif.Cover("getbits_done")
}

// Every(d): delay = max(d, 1s) truncated to whole seconds
//
//verif:harness prop=C04 name=every_delay unwind=8 solver=cvc5
func VerifEveryDelay() {
	d := zzverif.Int64("d")
	zzverif.Assume(d > -(1 << 62))
	zzverif.Assume(d < 1<<62)
	e := Every(time.Duration(d))
	want := d
	if want < int64(time.Second) {
		want = int64(time.Second)
	}
	got := int64(e.Delay)
	zzverif.Assert(got%int64(time.Second) == 0, "every_whole_seconds")
	zzverif.Assert(got <= want, "every_truncates")
	zzverif.Assert(want-got < int64(time.Second), "every_truncates")
	zzverif.Assert(got >= int64(time.Second), "every_at_least_one_second")
	zzverif.Cover("every_delay_done")
}

// Two restricted fields: month and hour. Start instants at the end of a month (day >= 28) late in the day, so that the
// hour search wraps past midnight into the next month and the month restriction has to be re-checked.
//
//verif:harness prop=C04 name=next_month_and_hour unwind=70 qtimeout=30 solver=z3-new incr=off
func VerifNextMonthHour() {
	s := vStar()
	wm := vW(12, 9)
	wh := vW(22, 19)
	s.Month = vMask("month_mask", months)
	zzverif.Assume(s.Month&^vWindow(months, wm) == 0)
	s.Hour = vMask("hour_mask", hours)
	zzverif.Assume(s.Hour&^vWindow(hours, wh) == 0)
	vCheckNext(s, func(t time.Time) {
		zzverif.Assume(int(t.Month()) >= int(wm))
		zzverif.Assume(t.Hour() >= int(wh))
		zzverif.Assume(t.Day() >= 28)
	})
	zzverif.Cover("next_month_and_hour_done")
}

// vCheckNextDays: as vCheckNext, with the day-of-week field in play. The weekday of every instant is tied to its date
// by the calendar (years ylo..yhi for the start instant), so the Skolem instant x cannot have a weekday the real
// calendar does not give it.
func vCheckNextDays(s *SpecSchedule, constrain func(t time.Time)) {
	const ylo, yhi = 2024, 2027
	t := zzverif.CivilTimeYears("t", time.UTC, ylo, yhi)
	constrain(t)
	r := s.Next(t)
	zzverif.Assert(!r.IsZero(), "next_exists")
	zzverif.Assert(r.After(t), "next_strictly_after")
	zzverif.Assert(r.Nanosecond() == 0, "next_on_whole_second")
	zzverif.Assert(vMatches(s, r, true), "next_matches_expression_days")
	x := zzverif.CivilTimeYears("x", time.UTC, ylo, yhi+1)
	zzverif.Assume(x.Nanosecond() == 0)
	zzverif.Assume(x.After(t))
	zzverif.Assume(x.Before(r))
	zzverif.Assert(!vMatches(s, x, true), "next_is_earliest_days")
}

// Day-of-week restricted, day-of-month '*': the day must be one of the listed weekdays.
//
//verif:harness prop=C04 name=next_dow unwind=70 qtimeout=30 solver=z3-new incr=off
func VerifNextDow() {
	s := vStar()
	s.Dow = vMask("dow_mask", dow)
	vCheckNextDays(s, func(t time.Time) {})
	zzverif.Cover("next_dow_done")
}

// Both day fields restricted: a day matches if EITHER field matches (documented cron rule); with '?'/'*' in one of
// them (star bit) both must match. The day-of-month mask is arbitrary: the weekday mask guarantees a match within a
// week, which bounds the search loop.
//
//verif:harness prop=C04 name=next_either_day unwind=70 qtimeout=30 solver=z3-new incr=off
func VerifNextEitherDay() {
	s := vStar()
	s.Dow = vMask("dow_mask", dow)
	s.Dom = vMask("dom_mask", dom)
	if zzverif.Bool("dom_is_star") {
		s.Dom = all(dom)
	}
	vCheckNextDays(s, func(t time.Time) {})
	zzverif.Cover("next_either_day_done")
}

// An inner field that rolls over must send the search back to the outer fields. The seconds field is ":00 only" (as
// in every five-field expression), the hours are a symbolic list, the start is in the last seconds of an hour: the next
// second that matches is in the next hour, which has to be checked against the hour list again - and so on outwards.
//
//verif:harness prop=C04 name=next_second_and_hour unwind=70 qtimeout=30 solver=z3-new incr=off
func VerifNextSecondHour() {
	s := vStar()
	wh := vW(21, 16)
	s.Second = 1
	s.Hour = vMask("hour_mask", hours)
	zzverif.Assume(s.Hour&^vWindow(hours, wh) == 0)
	vCheckNext(s, func(t time.Time) {
		// Next first moves to the next whole second: from second 57 or 58 that is second 58 or 59 of the same minute,
		// which does not match, so the seconds loop runs into the next minute (and hour)
		zzverif.Assume(t.Second() >= 57)
		zzverif.Assume(t.Second() <= 58)
		zzverif.Assume(t.Minute() == 59)
		zzverif.Assume(t.Hour() >= int(wh))
	})
	zzverif.Cover("next_second_and_hour_done")
}

// The same one level up: minutes ":00 only", a symbolic list of days of the month, start in the last minute of a day.
//
//verif:harness prop=C04 name=next_minute_and_dom unwind=70 qtimeout=30 solver=z3-new incr=off
func VerifNextMinuteDom() {
	s := vStar()
	wd := vW(26, 22)
	s.Minute = 1
	m := vMask("dom_mask", dom)
	zzverif.Assume(m&^vWindow(dom, wd) == 0)
	zzverif.Assume(m&getBits(1, 28, 1) != 0)
	s.Dom = m
	vCheckNext(s, func(t time.Time) {
		zzverif.Assume(t.Minute() == 59)
		zzverif.Assume(t.Hour() == 23)
		zzverif.Assume(t.Day() >= int(wd))
	})
	zzverif.Cover("next_minute_and_dom_done")
}

package streams

import (
	"io"

	"github.com/dapr/kit/zzverif"
)

const vMaxL = 6

// LimitReadCloser(src, N) for symbolic N in 0..8, sources of 0..6 symbolic bytes split into arbitrary chunks (zero-length
// reads, EOF alone or with the last data) and consumer buffers of 1..4 bytes: a source of at most N bytes is delivered
// unchanged and ends with EOF; a longer one delivers at most N bytes (a prefix), then ErrStreamTooLarge - never EOF -
// with the source closed once; after Close the source has been closed exactly once.
//
//verif:harness prop=C16 name=limit_read unwind=12
func VerifLimitRead() {
	L := zzverif.Choose("L", vMaxL+1)
	data := zzverif.Bytes("data", L)
	N := zzverif.Int64("N")
	zzverif.Assume(N >= 0)
	zzverif.Assume(N <= 8)
	src := &vSrc{data: data, eofWithData: zzverif.Bool("eofWithData"), maxZero: 1, failAt: -1}
	r := LimitReadCloser(src, N)
	bs := zzverif.Int("bufsize")
	zzverif.Assume(bs >= 1)
	zzverif.Assume(bs <= 4)
	buf := make([]byte, bs)
	var out []byte
	var err error
	for i := 0; i < 10; i++ {
		var n int
		n, err = r.Read(buf)
		zzverif.Assert(n >= 0, "limit_n_nonneg")
		zzverif.Assert(n <= bs, "limit_n_le_buf")
		out = append(out, buf[:n]...)
		if err != nil {
			break
		}
	}
	zzverif.Assume(err != nil) // the read budget of the harness was enough to reach the end
	if int64(L) <= N {
		zzverif.Assert(err == io.EOF, "limit_small_ends_with_eof")
		zzverif.Assert(zzverif.EqBytes(out, data), "limit_small_bytes_preserved")
	} else {
		zzverif.Assert(err != io.EOF, "limit_oversize_never_eof")
		zzverif.Assert(err == ErrStreamTooLarge, "limit_oversize_err")
		zzverif.Assert(int64(len(out)) <= N, "limit_oversize_at_most_n")
		zzverif.Assert(zzverif.EqBytes(out, data[:len(out)]), "limit_oversize_prefix")
		zzverif.Assert(src.closes == 1, "limit_oversize_source_closed_once")
	}
	r.Close()
	zzverif.Assert(src.closes == 1, "limit_closed_exactly_once_after_close")
	zzverif.Cover("limit_done")
}

package streams

import (
	"io"

	"github.com/dapr/kit/zzverif"
)

// plainSrc is a reader that is not a Closer (MultiReaderCloser accepts plain readers too).
type plainSrc struct{ s *vSrc }

func (p plainSrc) Read(b []byte) (int, error) { return p.s.Read(b) }

func vMkSources(k int, maxL int) ([]*vSrc, []io.Reader, []byte) {
	var srcs []*vSrc
	var rs []io.Reader
	var all []byte
	for i := 0; i < k; i++ {
		L := zzverif.Choose("L", maxL+1)
		d := zzverif.Bytes("data", L)
		s := &vSrc{data: d, eofWithData: zzverif.Bool("eofWithData"), maxZero: 1, failAt: -1}
		srcs = append(srcs, s)
		rs = append(rs, s)
		all = append(all, d...)
	}
	return srcs, rs, all
}

// MultiReaderCloser over 0..2 sources read with buffers of 1..3 bytes: the concatenation, then EOF; each source closed
// exactly once after Close.
//
//verif:harness prop=C16 name=multi_read unwind=14
func VerifMultiRead() {
	k := zzverif.Choose("k", 3) // 0..2 sources
	srcs, rs, all := vMkSources(k, 2)
	mr := NewMultiReaderCloser(rs...)
	bs := zzverif.Int("bufsize")
	zzverif.Assume(bs >= 1)
	zzverif.Assume(bs <= 3)
	buf := make([]byte, bs)
	var out []byte
	var err error
	for i := 0; i < 12; i++ {
		var n int
		n, err = mr.Read(buf)
		out = append(out, buf[:n]...)
		if err != nil {
			break
		}
	}
	zzverif.Assume(err != nil)
	zzverif.Assert(err == io.EOF, "multi_ends_with_eof")
	zzverif.Assert(zzverif.EqBytes(out, all), "multi_concatenation")
	mr.Close()
	for _, s := range srcs {
		zzverif.Assert(s.closes == 1, "multi_read_each_source_closed_once")
	}
	zzverif.Cover("multi_read_done")
}

// sink collects what io.Copy writes.
type vSink struct{ got []byte }

func (w *vSink) Write(p []byte) (int, error) {
	w.got = append(w.got, p...)
	return len(p), nil
}

// The WriteTo path (what io.Copy uses) with a small copy buffer: same bytes, same count, each source closed exactly once.
//
//verif:harness prop=C16 name=multi_writeto unwind=14
func VerifMultiWriteTo() {
	k := zzverif.Choose("k", 3)
	srcs, rs, all := vMkSources(k, 2)
	mr := NewMultiReaderCloser(rs...)
	w := &vSink{}
	// io.Copy takes the WriteTo fast path; a small buffer keeps the copy loop inside the bounds
	n, err := mr.writeToWithBuffer(w, make([]byte, 3))
	zzverif.Assert(err == nil, "multi_writeto_no_error")
	zzverif.Assert(n == int64(len(all)), "multi_writeto_count")
	zzverif.Assert(zzverif.EqBytes(w.got, all), "multi_writeto_concatenation")
	mr.Close()
	for _, s := range srcs {
		zzverif.Assert(s.closes == 1, "multi_writeto_each_source_closed_once")
	}
	zzverif.Cover("multi_writeto_done")
}

// The public path io.Copy(dst, multiReader), which takes WriteTo with its 32 KiB buffer.
//
//verif:harness prop=C16 name=multi_copy unwind=14
func VerifMultiCopy() {
	// the public path: io.Copy(dst, multiReader) -> WriteTo
	L := zzverif.Choose("L", 3)
	d := zzverif.Bytes("data", L)
	s := &vSrc{data: d, eofWithData: zzverif.Bool("eofWithData"), maxZero: 1, failAt: -1}
	mr := NewMultiReaderCloser(s)
	w := &vSink{}
	n, err := io.Copy(w, mr)
	zzverif.Assert(err == nil, "multi_copy_no_error")
	zzverif.Assert(n == int64(L), "multi_copy_count")
	zzverif.Assert(zzverif.EqBytes(w.got, d), "multi_copy_bytes")
	mr.Close()
	zzverif.Assert(s.closes == 1, "multi_copy_source_closed_once")
	zzverif.Cover("multi_copy_done")
}

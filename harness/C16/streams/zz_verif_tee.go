package streams

import (
	"io"

	"github.com/dapr/kit/zzverif"
)

// TeeReadCloser: after every Read the writer has received exactly the bytes the consumer has received; the stream ends
// with EOF after the whole source, keeps answering EOF, and Close closes the source once.
//
//verif:harness prop=C16 name=tee_read unwind=12
func VerifTeeRead() {
	L := zzverif.Choose("L", 5)
	d := zzverif.Bytes("data", L)
	s := &vSrc{data: d, eofWithData: zzverif.Bool("eofWithData"), maxZero: 1, failAt: -1}
	w := &vSink{}
	t := NewTeeReadCloser(s, w)
	bs := zzverif.Int("bufsize")
	zzverif.Assume(bs >= 1)
	zzverif.Assume(bs <= 3)
	buf := make([]byte, bs)
	var out []byte
	var err error
	for i := 0; i < 10; i++ {
		var n int
		n, err = t.Read(buf)
		out = append(out, buf[:n]...)
		// at every step the writer has received exactly what the consumer has received
		zzverif.Assert(zzverif.EqBytes(w.got, out), "tee_writer_in_step")
		if err != nil {
			break
		}
	}
	zzverif.Assume(err != nil)
	zzverif.Assert(err == io.EOF, "tee_ends_with_eof")
	zzverif.Assert(zzverif.EqBytes(out, d), "tee_bytes_preserved")
	zzverif.Assert(zzverif.EqBytes(w.got, d), "tee_writer_got_source")
	n, err2 := t.Read(buf)
	zzverif.Assert(n == 0, "tee_after_eof_n")
	zzverif.Assert(err2 == io.EOF, "tee_after_eof_err")
	t.Close()
	zzverif.Assert(s.closes == 1, "tee_source_closed_once")
	zzverif.Cover("tee_done")
}

type vCloseSink struct {
	vSink
	closes int
	err    error
}

func (w *vCloseSink) Close() error {
	w.closes++
	return w.err
}

// Stop and Close of a TeeReadCloser whose writer can be closed too: Stop closes the writer (once) and not the source,
// returns the writer's error, and every later Read fails with io.ErrClosedPipe without touching the source; Close
// closes the source exactly once and the writer, reports their errors, and later Reads
// fail the same way; what was read before is what the writer received.
//
//verif:harness prop=C16 name=tee_stop_close unwind=12
func VerifTeeStopClose() {
	L := 1 + zzverif.Choose("L", 3)
	d := zzverif.Bytes("data", L)
	s := &vSrc{data: d, eofWithData: zzverif.Bool("eofWithData"), maxZero: 1, failAt: -1}
	w := &vCloseSink{}
	if zzverif.Bool("writer_close_fails") {
		w.err = vErrSrc
	}
	t := NewTeeReadCloser(s, w)
	buf := make([]byte, 1+zzverif.Choose("bufsize", 2))
	var out []byte
	k := zzverif.Choose("reads_before", 3)
	for i := 0; i < k; i++ {
		n, err := t.Read(buf)
		out = append(out, buf[:n]...)
		if err != nil {
			break
		}
	}
	zzverif.Assert(len(w.got) == len(out) && zzverif.EqBytes(w.got, out), "tee_writer_in_step")
	stopFirst := zzverif.Bool("stop_first")
	if stopFirst {
		err := t.Stop()
		zzverif.Assert(err == w.err, "stop_returns_writer_close_error")
		zzverif.Assert(w.closes == 1 && s.closes == 0, "stop_closes_writer_only")
		reads := s.reads
		n, err := t.Read(buf)
		zzverif.Assert(n == 0 && err == io.ErrClosedPipe, "read_after_stop_is_closed_pipe")
		zzverif.Assert(s.reads == reads, "read_after_stop_does_not_touch_source")
		zzverif.Assert(len(w.got) == len(out), "nothing_written_after_stop")
	}
	err := t.Close()
	zzverif.Assert(s.closes == 1, "close_closes_source_once")
	zzverif.Assert(w.closes >= 1, "writer_closed")
	if !stopFirst {
		zzverif.Assert((err != nil) == (w.err != nil), "close_reports_writer_close_error")
	} else {
		zzverif.Assert(err == nil, "close_after_stop_has_nothing_to_report")
	}
	n, err := t.Read(buf)
	zzverif.Assert(n == 0 && err == io.ErrClosedPipe, "read_after_close_is_closed_pipe")
	t.Close()
	zzverif.Assert(s.closes == 1, "second_close_does_not_close_source_again")
	zzverif.Cover("tee_stop_close_done")
}

package streams

import (
	"io"

	"github.com/dapr/kit/zzverif"
)

// TeeReadCloser: after every Read the writer has received exactly the bytes the consumer has received; the stream ends
// with EOF after the whole source, keeps answering EOF, and Close closes the source once.
//
//verif:harness prop=C16 name=tee_read unwind=12
func VerifTeeRead() {
	L := zzverif.Choose("L", 5)
	d := zzverif.Bytes("data", L)
	s := &vSrc{data: d, eofWithData: zzverif.Bool("eofWithData"), maxZero: 1, failAt: -1}
	w := &vSink{}
	t := NewTeeReadCloser(s, w)
	bs := zzverif.Int("bufsize")
	zzverif.Assume(bs >= 1)
	zzverif.Assume(bs <= 3)
	buf := make([]byte, bs)
	var out []byte
	var err error
	for i := 0; i < 10; i++ {
		var n int
		n, err = t.Read(buf)
		out = append(out, buf[:n]...)
		// at every step the writer has received exactly what the consumer has received
		zzverif.Assert(zzverif.EqBytes(w.got, out), "tee_writer_in_step")
		if err != nil {
			break
		}
	}
	zzverif.Assume(err != nil)
	zzverif.Assert(err == io.EOF, "tee_ends_with_eof")
	zzverif.Assert(zzverif.EqBytes(out, d), "tee_bytes_preserved")
	zzverif.Assert(zzverif.EqBytes(w.got, d), "tee_writer_got_source")
	n, err2 := t.Read(buf)
	zzverif.Assert(n == 0, "tee_after_eof_n")
	zzverif.Assert(err2 == io.EOF, "tee_after_eof_err")
	t.Close()
	zzverif.Assert(s.closes == 1, "tee_source_closed_once")
	zzverif.Cover("tee_done")
}

package streams

import (
	"errors"
	"io"

	"github.com/dapr/kit/zzverif"
)

var vErrSrc = errors.New("source failure")

// A source that fails mid-stream (at a symbolic offset, after delivering the bytes in front of it in arbitrary chunks),
// consumed through each of the three wrappers: the consumer gets exactly the bytes in front of the failure, then the
// source's error - not EOF and not a clean end - ; the tee writer has received exactly those bytes; after Close every
// closable source has been closed exactly once .
//
//verif:harness prop=C16 name=stream_errors unwind=14
func VerifStreamErrors() {
	L := 1 + zzverif.Choose("L", 4)
	d := zzverif.Bytes("data", L)
	at := zzverif.Choose("fail_at", L) // strictly inside the data: the source never reports a clean end
	s := &vSrc{data: d, eofWithData: zzverif.Bool("eofWithData"), maxZero: 1, failAt: at, failErr: vErrSrc,
		errWithData: zzverif.Bool("error_comes_with_the_last_bytes")}
	w := &vSink{}
	var r io.ReadCloser
	var second *vSrc
	wrapper := zzverif.Choose("wrapper", 3)
	switch wrapper {
	case 0:
		slack := zzverif.Int64("slack")
		zzverif.Assume(slack >= 0)
		zzverif.Assume(slack <= 2)
		r = LimitReadCloser(s, int64(L)+slack)
	case 1:
		second = &vSrc{data: zzverif.Bytes("data2", 1), failAt: -1, maxZero: 0}
		r = NewMultiReaderCloser(s, second)
	case 2:
		r = NewTeeReadCloser(s, w)
	}
	bs := 1 + zzverif.Choose("bufsize", 3)
	buf := make([]byte, bs)
	var out []byte
	var err error
	for i := 0; i < 10; i++ {
		var n int
		n, err = r.Read(buf)
		out = append(out, buf[:n]...)
		if err != nil {
			break
		}
	}
	zzverif.Assume(err != nil)
	zzverif.Assert(err != io.EOF, "failing_source_never_looks_complete")
	zzverif.Assert(errors.Is(err, vErrSrc), "source_error_surfaces")
	zzverif.Assert(len(out) == at && zzverif.EqBytes(out, d[:at]), "bytes_in_front_of_the_failure_delivered_exactly")
	if wrapper == 2 {
		zzverif.Assert(len(w.got) == len(out) && zzverif.EqBytes(w.got, out), "tee_writer_got_exactly_the_delivered_bytes")
	}
	r.Close()
	zzverif.Assert(s.closes == 1, "failing_source_closed_exactly_once_after_close")
	if second != nil {
		zzverif.Assert(second.closes == 1, "unread_source_closed_exactly_once_after_close")
	}
	reads := s.reads
	r.Close()
	zzverif.Assert(s.closes == 1 && s.reads == reads, "second_close_is_a_no_op")
	zzverif.Cover("stream_errors_done")
}

// Close before the end: a MultiReaderCloser over three sources (closable and plain ones mixed, symbolic bytes) is read
// for a forked number of bytes and then closed: what was read is a prefix of the concatenation, every closable source
// - fully read, partly read or untouched - has been closed exactly once, and a Read after Close yields nothing.
//
//verif:harness prop=C16 name=multi_partial_close unwind=14
func VerifMultiPartialClose() {
	var srcs []*vSrc
	var rs []io.Reader
	var all []byte
	for i := 0; i < 3; i++ {
		d := zzverif.Bytes("data", zzverif.Choose("L", 3))
		s := &vSrc{data: d, eofWithData: zzverif.Bool("eofWithData"), maxZero: 0, failAt: -1}
		srcs = append(srcs, s)
		if i == 1 && zzverif.Bool("second_is_plain_reader") {
			rs = append(rs, plainSrc{s})
		} else {
			rs = append(rs, s)
		}
		all = append(all, d...)
	}
	mr := NewMultiReaderCloser(rs...)
	reads := zzverif.Choose("reads_before_close", 5)
	buf := make([]byte, 1+zzverif.Choose("bufsize", 2))
	var out []byte
	for i := 0; i < reads; i++ {
		n, err := mr.Read(buf)
		out = append(out, buf[:n]...)
		if err != nil {
			zzverif.Assert(err == io.EOF && len(out) == len(all), "eof_only_after_everything")
			break
		}
	}
	zzverif.Assert(len(out) <= len(all) && zzverif.EqBytes(out, all[:len(out)]), "prefix_of_the_concatenation")
	mr.Close()
	for i, s := range srcs {
		if _, plain := rs[i].(plainSrc); plain {
			zzverif.Assert(s.closes == 0, "plain_reader_is_not_closed")
		} else {
			zzverif.Assert(s.closes == 1, "each_closable_source_closed_exactly_once")
		}
	}
	n, err := mr.Read(buf)
	_ = err
	zzverif.Assert(n == 0, "read_after_close_yields_no_bytes")
	mr.Close()
	for i, s := range srcs {
		if _, plain := rs[i].(plainSrc); !plain {
			zzverif.Assert(s.closes == 1, "second_close_is_a_no_op")
		}
	}
	zzverif.Cover("multi_partial_close_done")
}

// io.ReadAll over LimitReadCloser (the consumer style of an HTTP body): at most N bytes come back; an oversize source
// makes ReadAll fail with ErrStreamTooLarge, a source within the limit comes back whole with no error.
//
//verif:harness prop=C16 name=limit_readall unwind=14
func VerifLimitReadAll() {
	L := zzverif.Choose("L", 5)
	d := zzverif.Bytes("data", L)
	N := int64(zzverif.Choose("N", 5))
	s := &vSrc{data: d, eofWithData: zzverif.Bool("eofWithData"), maxZero: 1, failAt: -1}
	r := LimitReadCloser(s, N)
	out, err := io.ReadAll(r)
	if int64(L) <= N {
		zzverif.Assert(err == nil, "within_limit_no_error")
		zzverif.Assert(zzverif.EqBytes(out, d), "within_limit_bytes_preserved")
	} else {
		zzverif.Assert(err == ErrStreamTooLarge, "oversize_fails_with_stream_too_large")
		zzverif.Assert(int64(len(out)) <= N && zzverif.EqBytes(out, d[:len(out)]), "oversize_delivers_at_most_n_prefix")
		zzverif.Assert(s.closes == 1, "oversize_source_closed")
	}
	r.Close()
	zzverif.Assert(s.closes == 1, "closed_exactly_once_after_close")
	zzverif.Cover("limit_readall_done")
}

type vFailingSink struct {
	got    []byte
	failAt int // fail once this many bytes have been accepted
}

func (w *vFailingSink) Write(p []byte) (int, error) {
	if len(w.got)+len(p) > w.failAt {
		n := w.failAt - len(w.got)
		w.got = append(w.got, p[:n]...)
		return n, vErrSrc
	}
	w.got = append(w.got, p...)
	return len(p), nil
}

// The WriteTo path (io.Copy) with a failure part-way - a source that fails mid-stream, or a destination writer that
// fails after a forked number of bytes: the copy reports the error, what reached the writer is a prefix of the
// concatenation, and after Close every closable source - the ones already copied, the one the copy stopped in and the
// ones not yet touched - has been closed exactly once.
//
//verif:harness prop=C16 name=multi_writeto_errors unwind=14
func VerifMultiWriteToErrors() {
	d1 := zzverif.Bytes("data1", 1+zzverif.Choose("L1", 2))
	d2 := zzverif.Bytes("data2", 1+zzverif.Choose("L2", 2))
	d3 := zzverif.Bytes("data3", 1)
	all := append(append(append([]byte{}, d1...), d2...), d3...)
	s1 := &vSrc{data: d1, eofWithData: zzverif.Bool("eofWithData"), maxZero: 0, failAt: -1}
	s2 := &vSrc{data: d2, maxZero: 0, failAt: -1}
	s3 := &vSrc{data: d3, maxZero: 0, failAt: -1}
	w := &vFailingSink{failAt: len(all) + 1}
	if zzverif.Bool("writer_fails") {
		w.failAt = zzverif.Choose("writer_fail_at", len(all))
	} else {
		s2.failAt = zzverif.Choose("source_fail_at", len(d2))
		s2.failErr = vErrSrc
	}
	mr := NewMultiReaderCloser(s1, s2, s3)
	n, err := mr.writeToWithBuffer(w, make([]byte, 2))
	zzverif.Assert(err != nil, "copy_reports_the_failure")
	zzverif.Assert(n == int64(len(w.got)) || n >= int64(len(w.got)), "count_covers_what_was_written")
	zzverif.Assert(len(w.got) <= len(all) && zzverif.EqBytes(w.got, all[:len(w.got)]), "writer_got_a_prefix")
	mr.Close()
	zzverif.Assert(s1.closes == 1 && s2.closes == 1 && s3.closes == 1, "each_source_closed_exactly_once_after_close")
	mr.Close()
	zzverif.Assert(s1.closes == 1 && s2.closes == 1 && s3.closes == 1, "second_close_is_a_no_op")
	zzverif.Cover("multi_writeto_errors_done")
}

// LimitReadCloser over a source that fails, the failure arriving alone or together with data - also together with the
// very byte that crosses the limit: the consumer never receives more than N bytes, what it receives is a prefix of the
// source, and the stream does not end cleanly (the source's error or ErrStreamTooLarge).
//
//verif:harness prop=C16 name=limit_with_failing_source unwind=14
func VerifLimitFailingSource() {
	L := 1 + zzverif.Choose("L", 5)
	d := zzverif.Bytes("data", L)
	N := int64(zzverif.Choose("N", 5))
	at := 1 + zzverif.Choose("fail_at", L) // 1..L: at least one byte in front of the failure
	s := &vSrc{data: d, maxZero: 0, failAt: at, failErr: vErrSrc, errWithData: zzverif.Bool("error_together_with_data")}
	r := LimitReadCloser(s, N)
	buf := make([]byte, 1+zzverif.Choose("bufsize", 4))
	var out []byte
	var err error
	for i := 0; i < 10; i++ {
		var n int
		n, err = r.Read(buf)
		zzverif.Assert(n >= 0 && n <= len(buf), "read_count_in_range")
		out = append(out, buf[:n]...)
		if err != nil {
			break
		}
	}
	zzverif.Assume(err != nil)
	zzverif.Assert(int64(len(out)) <= N, "never_more_than_n_bytes")
	zzverif.Assert(len(out) <= at && zzverif.EqBytes(out, d[:len(out)]), "prefix_of_the_source")
	zzverif.Assert(err != io.EOF, "failing_or_oversize_source_never_looks_complete")
	zzverif.Assert(errors.Is(err, vErrSrc) || err == ErrStreamTooLarge, "source_error_or_too_large")
	r.Close()
	zzverif.Assert(s.closes == 1, "closed_exactly_once_after_close")
	zzverif.Cover("limit_with_failing_source_done")
}

package streams

import (
	"io"

	"github.com/dapr/kit/zzverif"
)

// vSrc is a source over symbolic bytes with symbolic chunking: every Read returns an arbitrary 0 <= n <= min(len(p),
// remaining) bytes (zero-length reads limited to maxZero), the end is reported either together with the last data
// (eofWithData) or by a separate (0, EOF), and an optional failure is injected before byte failAt.
type vSrc struct {
	data        []byte
	pos         int
	eofWithData bool
	maxZero     int
	zeros       int
	closes      int
	reads       int
	failAt      int // -1: never
	failErr     error
	readAfterClose int
	errWithData    bool // the failure is returned by the same Read that delivers the bytes in front of it
}

func (s *vSrc) Read(p []byte) (int, error) {
	s.reads++
	if s.closes > 0 {
		s.readAfterClose++
	}
	if len(p) == 0 {
		return 0, nil
	}
	rem := len(s.data) - s.pos
	if s.failAt >= 0 && s.pos >= s.failAt {
		return 0, s.failErr
	}
	if rem == 0 {
		return 0, io.EOF
	}
	n := zzverif.Int("chunk")
	zzverif.Assume(n >= 0)
	zzverif.Assume(n <= rem)
	zzverif.Assume(n <= len(p))
	if s.failAt >= 0 {
		zzverif.Assume(s.pos+n <= s.failAt)
	}
	if n == 0 {
		s.zeros++
		zzverif.Assume(s.zeros <= s.maxZero)
		return 0, nil
	}
	copy(p, s.data[s.pos:s.pos+n])
	s.pos += n
	if s.errWithData && s.failAt >= 0 && s.pos >= s.failAt {
		return n, s.failErr
	}
	if s.pos == len(s.data) && s.eofWithData {
		return n, io.EOF
	}
	return n, nil
}

func (s *vSrc) Close() error {
	s.closes++
	return nil
}

package context

import (
	"context"

	"github.com/dapr/kit/zzverif"
)

type vMember struct {
	ctx    context.Context
	cancel context.CancelFunc
	done   bool // ghost: cancel has been called
	never  bool // a context that can never end (context.Background and the like: Done() is nil)
}

func vNeverEnding() *vMember {
	return &vMember{ctx: context.Background(), cancel: func() {}, never: true}
}

type vState struct {
	p            *Pool
	members      []*vMember // contexts that are certainly members
	maybe        []*vMember // contexts offered in the window where tracking is optional
	cancelCalled bool
}

func (s *vState) allMembersDone() bool {
	for _, m := range s.members {
		if !m.done {
			return false
		}
	}
	return true
}

// never early: if the pool is done then Cancel was called or every member has ended
func (s *vState) checkNeverEarly() {
	if s.p.Err() != nil {
		zzverif.Assert(s.cancelCalled || s.allMembersDone(), "pool_done_only_after_all_members_or_cancel")
	}
}

func vNewMember(ended bool) *vMember {
	ctx, cancel := context.WithCancel(context.Background())
	m := &vMember{ctx: ctx, cancel: cancel}
	if ended {
		cancel()
		m.done = true
	}
	return m
}

func vOps() int {
	if zzverif.Thorough() {
		return 4
	}
	return 3
}

//verif:harness prop=C20 name=pool_lifecycle threads=2 sched=delay preempt=2 t_preempt=3 unwind=12 witness=lenient
func VerifPoolLifecycle() {
	s := &vState{}
	n := zzverif.Choose("initial", 3)
	var ctxs []context.Context
	for i := 0; i < n; i++ {
		m := vNewMember(zzverif.Choose("initial_ended", 2) == 1)
		s.members = append(s.members, m)
		ctxs = append(ctxs, m.ctx)
	}
	s.p = NewPool(ctxs...)
	s.checkNeverEarly()
	for op := 0; op < vOps(); op++ {
		what := zzverif.Choose("op", 6)
		switch what {
		case 0: // end a live member
			var live []*vMember
			for _, m := range s.members {
				if !m.done && !m.never {
					live = append(live, m)
				}
			}
			if len(live) == 0 {
				continue
			}
			m := live[zzverif.Choose("which", len(live))]
			s.checkNeverEarly()
			m.done = true
			m.cancel()
		case 1, 2, 5: // Add a live / an already ended / a never-ending context
			m := vNewMember(what == 2)
			if what == 5 {
				m = vNeverEnding()
			}
			certain := !s.cancelCalled && !s.allMembersDone() // pool cannot have ended: a member is live
			s.p.Add(m.ctx)
			if certain {
				s.members = append(s.members, m)
			} else {
				// offered when the pool may already have ended: whether it is tracked is unspecified
				s.maybe = append(s.maybe, m)
			}
		case 3:
			s.p.Cancel()
			s.cancelCalled = true
			zzverif.Assert(s.p.Size() == 0, "size_zero_after_cancel")
		case 4:
			sz := s.p.Size()
			zzverif.Assert(sz <= len(s.members)+len(s.maybe), "size_at_most_offered")
			if s.cancelCalled {
				zzverif.Assert(sz == 0, "size_zero_after_cancel")
			}
		}
		s.checkNeverEarly()
		zzverif.Yield() // the watcher may run here
		s.checkNeverEarly()
	}
	// let the watcher catch up with everything that has happened: still not early
	zzverif.WaitQuiescent()
	s.checkNeverEarly()
	// eventually: once every member has ended the pool ends and its watcher goroutine exits
	immortal := false
	for _, m := range s.members {
		if m.never {
			immortal = true
		} else if !m.done {
			m.done = true
			m.cancel()
		}
	}
	immortalMaybe := false
	for _, m := range s.maybe {
		if m.never {
			immortalMaybe = true
		}
		m.cancel()
	}
	zzverif.WaitQuiescent()
	if immortalMaybe && !immortal && !s.cancelCalled {
		// a never-ending context offered when the pool might already have ended: whether it is tracked (and keeps the
		// pool live) is unspecified; end the pool explicitly
		s.checkNeverEarly()
		s.p.Cancel()
		s.cancelCalled = true
		zzverif.WaitQuiescent()
	}
	if immortal && !s.cancelCalled {
		// a member that can never end keeps the pool live until Cancel
		s.checkNeverEarly()
		zzverif.Assert(s.p.Err() == nil, "pool_live_while_a_never_ending_member_is_tracked")
		s.p.Cancel()
		s.cancelCalled = true
		zzverif.WaitQuiescent()
	}
	zzverif.Assert(s.p.Err() != nil, "pool_done_once_all_members_done")
	zzverif.Assert(zzverif.ThreadsAliveIs(0), "watcher_goroutine_ended")
	zzverif.Cover("pool_lifecycle_done")
}

// Cancel on a pool that has already ended by itself (every member ended, the watcher has cancelled the pool's
// context), and Cancel twice - also from two goroutines at once: never a panic, Size reports zero after Cancel, the
// pool stays done and a context offered afterwards is ignored.
//
//verif:harness prop=C20 name=pool_cancel_after_end threads=4 sched=delay preempt=2 t_preempt=3 unwind=12 witness=lenient
func VerifPoolCancelAfterEnd() {
	n := 1 + zzverif.Choose("members", 2)
	var ms []*vMember
	var ctxs []context.Context
	for i := 0; i < n; i++ {
		m := vNewMember(false)
		ms = append(ms, m)
		ctxs = append(ctxs, m.ctx)
	}
	p := NewPool(ctxs...)
	endedByItself := zzverif.Bool("pool_ended_by_itself_first")
	if endedByItself {
		for _, m := range ms {
			m.cancel()
		}
		zzverif.WaitQuiescent()
		zzverif.Assert(p.Err() != nil, "pool_done_once_all_members_done")
	}
	if zzverif.Bool("two_concurrent_cancels") {
		done := make(chan struct{}, 2)
		for i := 0; i < 2; i++ {
			go func() {
				zzverif.MustFinish()
				p.Cancel()
				done <- struct{}{}
			}()
		}
		<-done
		<-done
	} else {
		p.Cancel()
		p.Cancel()
	}
	zzverif.Assert(p.Size() == 0, "size_zero_after_cancel")
	zzverif.WaitQuiescent()
	zzverif.Assert(p.Err() != nil, "pool_done_after_cancel")
	late := vNewMember(false)
	p.Add(late.ctx)
	zzverif.Assert(p.Size() == 0, "context_offered_after_the_end_is_ignored")
	for _, m := range ms {
		m.cancel()
	}
	late.cancel()
	zzverif.WaitQuiescent()
	zzverif.Assert(zzverif.ThreadsAliveIs(0), "watcher_goroutine_ended")
	zzverif.Cover("pool_cancel_after_end_done")
}

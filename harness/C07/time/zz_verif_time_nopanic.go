package time

import (
	"github.com/dapr/kit/zzverif"
)

// No string makes ParseISO8601Duration panic or loop: arbitrary bytes of every length in the bound (the loop is
// bounded by the input length: unwinding assertions on).
//
//verif:harness prop=C07 name=iso8601_nopanic unwind=24 solver=z3-new maxpaths=600000
func VerifISO8601NoPanic() {
	max := 4
	if zzverif.Thorough() {
		max = 5
	}
	prefixes := []string{"", "P", "R", "PT", "R5/P", "R/"}
	pre := prefixes[zzverif.Choose("prefix", len(prefixes))]
	l := zzverif.Choose("len", max+1)
	s := pre + zzverif.String("s", l)
	y, m, d, dur, rep, err := ParseISO8601Duration(s)
	if err != nil {
		_ = y + m + d + rep + int(dur)
	}
	zzverif.Cover("iso8601_returned")
}

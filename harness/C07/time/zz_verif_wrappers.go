package time

import (
	"errors"
	"time"

	"github.com/dapr/kit/zzverif"
)

//verif:stub time.ParseDuration vStdParseDuration
//verif:stub time.Parse vStdParse
//verif:stub (time.Time).AddDate vStdAddDate

// contract stubs of the standard parsers: any result - an arbitrary duration / instant, or an error - and no panic
func vStdParseDuration(s string) (time.Duration, error) {
	if zzverif.Bool("std_duration_fails") {
		return 0, errors.New("time: invalid duration")
	}
	return time.Duration(zzverif.Int64("std_duration")), nil
}

func vStdAddDate(t time.Time, years, months, days int) time.Time {
	return zzverif.FlatTime("std_adddate")
}

func vStdParse(layout, value string) (time.Time, error) {
	if zzverif.Bool("std_time_fails") {
		return time.Time{}, errors.New("parsing time: cannot parse")
	}
	return zzverif.FlatTime("std_time"), nil
}

// ParseDuration and ParseTime (ISO-8601 first, then the Go duration syntax, then RFC 3339; with and without an
// offset instant) return a value or an error for every string - whatever the standard parsers answer - and never panic;
// repetitions are refused by ParseTime.
//
//verif:harness prop=C07 name=parse_duration_time_nopanic unwind=24 solver=z3-new
func VerifParseWrappersNoPanic() {
	prefixes := []string{"", "P", "R", "PT", "R5/P", "R/P"}
	pre := prefixes[zzverif.Choose("prefix", len(prefixes))]
	s := pre + zzverif.String("s", zzverif.Choose("len", 3))
	y, m, d, dur, rep, err := ParseDuration(s)
	if err != nil {
		zzverif.Assert(y == 0 && m == 0 && d == 0 && dur == 0 && rep == 0, "error_comes_with_zero_values")
	}
	var off *time.Time
	if zzverif.Bool("with_offset") {
		t := zzverif.FlatTime("offset")
		off = &t
	}
	if off != nil {
		t, err2 := ParseTime(s, off)
		if err2 != nil {
			zzverif.Assert(t.IsZero(), "error_comes_with_zero_time")
		}
		_, _, _, _, r, e := ParseISO8601Duration(s)
		if e == nil && r != -1 {
			zzverif.Assert(err2 != nil, "repetition_refused_by_parse_time")
		}
	}
	zzverif.Cover("parse_wrappers_returned")
}

package cron

import (
	"time"

	"github.com/dapr/kit/zzverif"
)

// Next terminates on every schedule the parser produces, including the ones that can never match: the parser accepts
// an empty list (",") in any field, February 30 and the like; Next then gives up after five years and returns the
// zero time. Concrete specs and start instants, the search loop executed in full (about 52 000 hour steps for an empty
// hour list): the bound is 3 000 iterations per loop entry, and a loop still running after that is reported as a hang.
//
//verif:harness prop=C07 name=cron_next_terminates unwind=3000 nonterm=violation replay_timeout=20s
func VerifCronNextTerminates() {
	// (an empty minute or second list needs 53 000 / 3.2 million passes through the search before it gives up:
	// outside the bound)
	specs := []string{"0 0 0 , * *", "0 0 0 * * ,", "0 0 , * * *", "0 0 0 * , *", "0 0 0 30 2 *", "0 0 0 31 4,6,9,11 *",
		"0 0 0 , , ,", "0 0 0 31 2 ,"}
	spec := specs[zzverif.Choose("spec", len(specs))]
	p := NewParser(Second | Minute | Hour | Dom | Month | Dow)
	sch, err := p.Parse(spec)
	if err != nil {
		zzverif.Cover("cron_next_spec_refused")
		return
	}
	s := sch.(*SpecSchedule)
	s.Location = time.UTC
	starts := []time.Time{time.Date(2024, 1, 31, 23, 59, 59, 0, time.UTC), time.Date(2023, 12, 31, 0, 0, 0, 5, time.UTC)}
	t := starts[zzverif.Choose("start", len(starts))]
	r := s.Next(t)
	zzverif.Assert(r.IsZero(), "schedule_that_never_matches_gives_the_zero_time")
	zzverif.Cover("cron_next_terminated")
}

package cron

import (
	"errors"
	"time"

	"github.com/dapr/kit/zzverif"
)

//verif:stub time.LoadLocation vLoadLocation
//verif:stub time.ParseDuration vParseDuration

// the tz database and the duration grammar are the standard library's: arbitrary (value, error) answers
func vLoadLocation(name string) (*time.Location, error) {
	if zzverif.Bool("unknown_zone") {
		return nil, errors.New("unknown time zone")
	}
	return time.UTC, nil
}

func vParseDuration(s string) (time.Duration, error) {
	if zzverif.Bool("bad_duration") {
		return 0, errors.New("time: invalid duration")
	}
	return time.Duration(zzverif.Int64("duration")), nil
}

// No spec string makes Parse panic: a structured prefix (none, TZ=, CRON_TZ=, @, "@every ") followed by arbitrary
// bytes of every length in the bound, for the standard parser and a parser with every field and descriptors.
//
//verif:harness prop=C07 name=cron_parse_nopanic unwind=40 maxpaths=400000 solver=z3-new
func VerifCronParseNoPanic() {
	prefixes := []string{"", "TZ=", "CRON_TZ=", "@", "@every ", "* * * * ", "TZ=UTC ", "TZ=UTC", "CRON_TZ=X", "1 2 3 4 5 ", "*/"}
	pre := prefixes[zzverif.Choose("prefix", len(prefixes))]
	maxTail := 1
	if zzverif.Thorough() {
		maxTail = 2
	}
	tl := zzverif.Choose("tail_len", maxTail+1)
	tail := zzverif.String("tail", tl)
	for i := 0; i < len(tail); i++ {
		zzverif.Assume(tail[i] < 0x80)
	}
	spec := pre + tail
	var p Parser
	if zzverif.Bool("all_fields") {
		p = NewParser(Second | Minute | Hour | Dom | Month | Dow | Descriptor)
	} else {
		p = standardParser
	}
	s, err := p.Parse(spec)
	if err == nil {
		zzverif.Assert(s != nil, "schedule_or_error")
	}
	zzverif.Cover("cron_parse_returned")
}

// a single field expression: arbitrary bytes of length 0..3 (quick) / 4 never make getField panic, for every field
//
//verif:harness prop=C07 name=cron_field_nopanic unwind=40 solver=z3-new maxpaths=400000
func VerifCronFieldNoPanic() {
	fields := []bounds{seconds}
	max := 3
	if zzverif.Thorough() {
		fields = []bounds{seconds, dom, months, dow}
		max = 4
	}
	r := fields[zzverif.Choose("field", len(fields))]
	expr := zzverif.String("expr", zzverif.Choose("len", max+1))
	for i := 0; i < len(expr); i++ {
		zzverif.Assume(expr[i] < 0x80) // ASCII (multi-byte runes would be enumerated value by value)
	}
	_, _ = getField(expr, r)
	zzverif.Cover("cron_field_returned")
}

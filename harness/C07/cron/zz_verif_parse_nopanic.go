package cron

import (
	"errors"
	"time"

	"github.com/dapr/kit/zzverif"
)

//verif:stub time.LoadLocation vLoadLocation
//verif:stub time.ParseDuration vParseDuration

// the tz database and the duration grammar are the standard library's: arbitrary (value, error) answers
func vLoadLocation(name string) (*time.Location, error) {
	if zzverif.Bool("unknown_zone") {
		return nil, errors.New("unknown time zone")
	}
	return time.UTC, nil
}

func vParseDuration(s string) (time.Duration, error) {
	if zzverif.Bool("bad_duration") {
		return 0, errors.New("time: invalid duration")
	}
	return time.Duration(zzverif.Int64("duration")), nil
}

// No spec string makes Parse panic: a structured prefix (none, TZ=, CRON_TZ=, @, "@every ") followed by arbitrary
// bytes of every length in the bound, for the standard parser and a parser with every field and descriptors.
//
//verif:harness prop=C07 name=cron_parse_nopanic unwind=40 maxpaths=400000 solver=z3-new
func VerifCronParseNoPanic() {
	prefixes := []string{"", "TZ=", "CRON_TZ=", "@", "@every ", "* * * * ", "TZ=UTC ", "TZ=UTC", "CRON_TZ=X", "1 2 3 4 5 ", "*/"}
	pre := prefixes[zzverif.Choose("prefix", len(prefixes))]
	maxTail := 1
	if zzverif.Thorough() {
		maxTail = 2
	}
	tl := zzverif.Choose("tail_len", maxTail+1)
	spec := pre + zzverif.String("tail", tl)
	var p Parser
	if zzverif.Bool("all_fields") {
		p = NewParser(Second | Minute | Hour | Dom | Month | Dow | Descriptor)
	} else {
		p = standardParser
	}
	s, err := p.Parse(spec)
	if err == nil {
		zzverif.Assert(s != nil, "schedule_or_error")
	}
	zzverif.Cover("cron_parse_returned")
}

package v1

import (
	"io"

	"github.com/dapr/kit/zzverif"
	"github.com/dapr/kit/zzverifstubs"
)

//verif:stub crypto/aes.NewCipher zzverifstubs.NewCipher
//verif:stub crypto/cipher.NewGCM zzverifstubs.NewGCM
//verif:stub crypto/cipher.NewGCMWithTagSize zzverifstubs.NewGCMWithTagSize
//verif:stub crypto/cipher.NewGCMWithNonceSize zzverifstubs.NewGCMWithNonceSize
//verif:stub golang.org/x/crypto/chacha20poly1305.New zzverifstubs.NewChaCha
//verif:stub golang.org/x/crypto/hkdf.New zzverifstubs.HKDFNew
//verif:stub crypto/hmac.New zzverifstubs.HmacNew
//verif:stub crypto/sha256.New zzverifstubs.NewSHA256
//verif:stub (*encoding/base64.Encoding).Encode zzverifstubs.B64Encode
//verif:stub (*encoding/base64.Encoding).Decode zzverifstubs.B64Decode

type vSrc struct {
	data  []byte
	pos   int
	reads int
	split int
	eofWithData bool
}

func (r *vSrc) Read(p []byte) (int, error) {
	r.reads++
	rem := len(r.data) - r.pos
	if rem == 0 {
		return 0, io.EOF
	}
	n := rem
	if len(p) < n {
		n = len(p)
	}
	if r.reads <= r.split && n > 1 {
		n = 1 + zzverif.Choose("chunk", n)
	}
	copy(p, r.data[r.pos:r.pos+n])
	r.pos += n
	if r.pos == len(r.data) && r.eofWithData {
		return n, io.EOF
	}
	return n, nil
}

// readHeader on an untrusted stream: arbitrary bytes (every one of them may be a line break), alone or behind an
// intact scheme line, delivered in arbitrary chunks: an error or three lines, never a panic; on success the returned
// lines are non-empty and contain no line break, and the bytes after the third line are still readable.
//
//verif:harness prop=C07 name=enc_header_nopanic unwind=60
func VerifEncHeaderNoPanic() {
	max := 5
	if zzverif.Thorough() {
		max = 7
	}
	var doc []byte
	if zzverif.Bool("with_scheme_line") {
		doc = append(doc, SchemeName...)
		if zzverif.Bool("line_break_after_scheme") {
			doc = append(doc, '\n')
		}
	}
	doc = append(doc, zzverif.Bytes("tail", zzverif.Choose("tail_len", max+1))...)
	var in io.Reader = &vSrc{data: doc, split: 2, eofWithData: zzverif.Bool("eof_with_data")}
	m, c, err := readHeader(&in)
	if err != nil {
		zzverif.Assert(m == nil && c == nil, "header_error_no_output")
		zzverif.Cover("enc_header_refused")
		return
	}
	zzverif.Assert(len(m) > 0 && len(c) > 0, "accepted_header_has_manifest_and_mac")
	for _, b := range m {
		zzverif.Assert(b != '\n', "manifest_is_one_line")
	}
	for _, b := range c {
		zzverif.Assert(b != '\n', "mac_is_one_line")
	}
	rest := make([]byte, 16)
	n, _ := io.ReadFull(in, rest)
	zzverif.Assert(len(SchemeName)+1+len(m)+1+len(c)+1+n == len(doc), "every_byte_accounted_for")
	zzverif.Cover("enc_header_accepted")
}

type vSink struct{ n int }

func (s *vSink) Write(p []byte) (int, error) { s.n += len(p); return len(p), nil }

// File key import and segment processing with arguments of arbitrary length (what a hostile manifest and a hostile
// payload control): file key 0..33 bytes, nonce prefix 0..9 bytes, either cipher or an unknown one, segment data of
// 0..18 bytes, any segment number: errors, never a panic; a failed DecryptSegment writes nothing.
//
//verif:harness prop=C07 name=enc_segment_nopanic unwind=60
func VerifEncSegmentNoPanic() {
	zzverifstubs.Init()
	kl := []int{0, 1, 16, 31, 32, 33}[zzverif.Choose("key_len", 6)]
	pl := []int{0, 1, 6, 7, 8, 9}[zzverif.Choose("prefix_len", 6)]
	cph := []Cipher{CipherAESGCM, CipherChaCha20Poly1305, Cipher("nope"), Cipher("")}[zzverif.Choose("cipher", 4)]
	fk, err := importFileKey(zzverif.Bytes("file_key", kl), zzverif.Bytes("nonce_prefix", pl), cph)
	if err != nil {
		zzverif.Cover("enc_import_refused")
		return
	}
	dl := zzverif.Choose("data_len", 19)
	data := zzverif.Bytes("data", dl)
	num := uint32(zzverif.Uint64("segment"))
	last := zzverif.Bool("last")
	out := &vSink{}
	if zzverif.Bool("decrypt") {
		err = fk.DecryptSegment(out, data, num, last)
		if err != nil {
			zzverif.Assert(out.n == 0, "failed_decrypt_writes_nothing")
		} else {
			zzverif.Assert(out.n == dl-16, "decrypt_writes_plaintext_length")
		}
		zzverif.Cover("enc_decrypt_segment_returned")
		return
	}
	buf := make([]byte, dl, dl+16)
	copy(buf, data)
	err = fk.EncryptSegment(out, buf, num, last)
	if err == nil {
		zzverif.Assert(out.n == dl+16, "encrypt_writes_ciphertext_length")
	}
	zzverif.Cover("enc_encrypt_segment_returned")
}

// Manifest fields as they arrive from JSON: algorithm and cipher ids given as arbitrary short texts, arbitrary
// wrapped-key and nonce-prefix lengths: UnmarshalJSON and Validate return errors for everything outside the
// documented ids and sizes, never panic, and what Validate accepts is usable (canonical names, 7-byte prefix).
//
//verif:harness prop=C07 name=enc_manifest_nopanic unwind=40
func VerifEncManifestNoPanic() {
	txt := zzverif.Bytes("id_text", zzverif.Choose("id_len", 4))
	for _, b := range txt {
		zzverif.Assume(b < 0x80) // ASCII: multi-byte runes only add enumeration
	}
	var ka KeyAlgorithm
	errA := ka.UnmarshalJSON(txt)
	var cp Cipher
	errC := cp.UnmarshalJSON(txt)
	if errA == nil {
		v, err := ka.Validate()
		zzverif.Assert(err == nil && v == ka, "unmarshalled_algorithm_is_canonical")
		zzverif.Assert(ka.ID() >= 1 && ka.ID() <= 5, "unmarshalled_algorithm_has_a_documented_id")
	}
	if errC == nil {
		v, err := cp.Validate()
		zzverif.Assert(err == nil && v == cp, "unmarshalled_cipher_is_canonical")
		zzverif.Assert(cp.ID() == 1 || cp.ID() == 2, "unmarshalled_cipher_has_a_documented_id")
	}
	names := []KeyAlgorithm{KeyAlgorithmAES256KW, KeyAlgorithmAES, KeyAlgorithmRSA, KeyAlgorithmRSAOAEP256, KeyAlgorithmAES128CBC, "", "a256kw", "nope"}
	ciphers := []Cipher{CipherAESGCM, CipherChaCha20Poly1305, "", "aes-gcm"}
	m := &Manifest{
		KeyName:              zzverif.String("key_name", zzverif.Choose("key_name_len", 2)),
		KeyWrappingAlgorithm: names[zzverif.Choose("algorithm", len(names))],
		WFK:                  zzverif.Bytes("wfk", zzverif.Choose("wfk_len", 3)),
		Cipher:               ciphers[zzverif.Choose("cipher", len(ciphers))],
		NoncePrefix:          zzverif.Bytes("np", []int{0, 6, 7, 8}[zzverif.Choose("np_len", 4)]),
	}
	if err := m.Validate(); err == nil {
		zzverif.Assert(len(m.NoncePrefix) == 7 && len(m.WFK) > 0, "validated_manifest_sizes")
		zzverif.Assert(m.KeyWrappingAlgorithm.ID() >= 1 && m.Cipher.ID() >= 1, "validated_manifest_ids")
		_, e1 := m.KeyWrappingAlgorithm.MarshalJSON()
		_, e2 := m.Cipher.MarshalJSON()
		zzverif.Assert(e1 == nil && e2 == nil, "validated_manifest_marshals")
	}
	zzverif.Cover("enc_manifest_returned")
}

package crypto

import (
	"crypto/ecdsa"
	"crypto/ed25519"
	"crypto/elliptic"
	"crypto/rand"
	"crypto/rsa"
	"encoding/base64"
	"errors"

	"github.com/lestrrat-go/jwx/v2/jwk"

	"github.com/dapr/kit/zzverif"
)

//verif:stub github.com/lestrrat-go/jwx/v2/jwk.ParseKey vJWKParseKey
//verif:stub github.com/lestrrat-go/jwx/v2/jwk.FromRaw vJWKFromRaw
//verif:stub github.com/lestrrat-go/jwx/v2/jwk.WithPEM vJWKWithPEM
//verif:stub (*encoding/base64.Encoding).Decode vB64DecodeContract
//verif:stub (*encoding/base64.Encoding).DecodedLen vB64DecodedLen
//verif:stub crypto/x509.MarshalPKCS8PrivateKey vMarshalAny
//verif:stub crypto/x509.MarshalPKIXPublicKey vMarshalAny

// contract stubs (symbolic runs only): the jwx parsers and the X.509 marshallers answer with a key / bytes or with an
// error and do not panic; base64 Decode needs room for DecodedLen(len(src)) bytes in dst (the real one panics with an
// index out of range otherwise), writes at most that many and reports how many, or fails.
func vJWKParseKey(data []byte, options ...jwk.ParseOption) (jwk.Key, error) {
	if zzverif.Bool("jwk_parse_fails") {
		return nil, errors.New("jwk: failed to parse")
	}
	return vKey{raw: data}, nil
}

func vJWKFromRaw(raw interface{}) (jwk.Key, error) {
	b, ok := raw.([]byte)
	if !ok || len(b) == 0 {
		return nil, errors.New("jwk: empty or unsupported raw key")
	}
	return vKey{raw: b}, nil
}

func vJWKWithPEM(v bool) jwk.ParseOption { return nil }

func vB64DecodedLen(enc *base64.Encoding, n int) int {
	if enc == base64.RawStdEncoding || enc == base64.RawURLEncoding {
		return n * 6 / 8
	}
	return n / 4 * 3
}

func vB64DecodeContract(enc *base64.Encoding, dst, src []byte) (int, error) {
	need := vB64DecodedLen(enc, len(src))
	if len(dst) < need {
		panic("base64: index out of range (dst shorter than DecodedLen(len(src)))")
	}
	n := zzverif.Int("decoded")
	zzverif.Assume(n >= 0)
	zzverif.Assume(n <= need)
	if zzverif.Bool("base64_corrupt") {
		return n, base64.CorruptInputError(n)
	}
	return n, nil
}

func vMarshalAny(key any) ([]byte, error) {
	if zzverif.Bool("marshal_fails") {
		return nil, errors.New("x509: unsupported key")
	}
	return []byte{0x30}, nil
}

// vAnyKey: a jwk.Key whose Raw hands out a value of any of the types kit distinguishes (or fails)
type vAnyKey struct {
	jwk.Key
	kind int
}

func (k vAnyKey) Raw(v interface{}) error {
	p, ok := v.(*any)
	if !ok {
		return errNotBytes
	}
	switch k.kind {
	case 0:
		return errors.New("jwk: no raw key")
	case 1:
		*p = []byte{1, 2, 3}
	case 2, 5:
		var priv *rsa.PrivateKey
		if zzverif.Symbolic() {
			priv = &rsa.PrivateKey{}
		} else {
			priv, _ = rsa.GenerateKey(rand.Reader, 1024)
		}
		if k.kind == 2 {
			*p = priv
		} else {
			*p = &priv.PublicKey
		}
	case 3, 6:
		var priv *ecdsa.PrivateKey
		if zzverif.Symbolic() {
			priv = &ecdsa.PrivateKey{}
		} else {
			priv, _ = ecdsa.GenerateKey(elliptic.P256(), rand.Reader)
		}
		if k.kind == 3 {
			*p = priv
		} else {
			*p = &priv.PublicKey
		}
	case 4, 7:
		var priv ed25519.PrivateKey
		var pub ed25519.PublicKey
		if !zzverif.Symbolic() {
			pub, priv, _ = ed25519.GenerateKey(rand.Reader)
		}
		if k.kind == 4 {
			*p = priv
		} else {
			*p = pub
		}
	case 8:
		*p = 42 // a type kit does not know
	case 9:
		*p = nil
	}
	return nil
}

// ParseKey: arbitrary bytes of every length 0..34 (so that the 16 / 24 / 32 special cases and both sides of the
// "longer than 10" PEM test occur) whose first bytes are arbitrary, '{' or "-----", every content type kit
// distinguishes, and whatever the third-party parsers answer: a key or an error, never a panic; empty input is refused.
// SerializeKey: every kind of raw key a jwk.Key can hand out.
//
//verif:harness prop=C07 name=parse_key_nopanic unwind=80
func VerifParseKeyNoPanic() {
	lens := []int{0, 1, 5, 10, 11, 16, 17, 24, 32, 33}
	l := lens[zzverif.Choose("len", len(lens))]
	// first byte and the last two arbitrary, the middle fixed (kit looks at the first five bytes and trims '=' and
	// line feeds from the end; everything else goes to the parsers, which are contract stubs here)
	raw := make([]byte, l)
	for i := range raw {
		raw[i] = 'A'
	}
	if l > 0 {
		raw[0] = zzverif.Byte("first")
		raw[l-1] = zzverif.Byte("last")
	}
	if l > 2 {
		raw[l-2] = zzverif.Byte("last_but_one")
	}
	switch zzverif.Choose("shape", 3) {
	case 1:
		if l > 0 {
			raw[0] = '{'
		}
	case 2:
		for i := 0; i < 5 && i < l; i++ {
			raw[i] = '-'
		}
	}
	ct := []string{"", "application/json", "application/x-pem-file", "application/pkcs8", "text/plain"}[zzverif.Choose("content_type", 5)]
	k, err := ParseKey(raw, ct)
	if l == 0 {
		zzverif.Assert(err != nil && k == nil, "empty_key_refused")
	}
	if err == nil {
		zzverif.Assert(k != nil, "key_or_error")
	}
	zzverif.Cover("parse_key_returned")
}

//verif:harness prop=C07 name=serialize_key_nopanic unwind=20
func VerifSerializeKeyNoPanic() {
	kind := zzverif.Choose("raw_kind", 10)
	b, err := SerializeKey(vAnyKey{kind: kind})
	if kind == 0 || kind == 8 || kind == 9 {
		zzverif.Assert(err != nil && b == nil, "unsupported_raw_key_is_an_error")
	}
	if kind == 1 {
		zzverif.Assert(err == nil && len(b) == 3, "symmetric_key_bytes_returned")
	}
	zzverif.Cover("serialize_key_returned")
}

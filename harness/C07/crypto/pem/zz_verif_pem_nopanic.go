package pem

import (
	"crypto/ecdh"
	"crypto/ecdsa"
	"crypto/ed25519"
	"crypto/rsa"
	"crypto/x509"
	stdpem "encoding/pem"
	"errors"

	"github.com/dapr/kit/zzverif"
)

//verif:stub encoding/pem.Decode vPemDecode
//verif:stub crypto/x509.ParsePKCS8PrivateKey vParsePKCS8
//verif:stub crypto/x509.ParseECPrivateKey vParseEC
//verif:stub crypto/x509.ParsePKCS1PrivateKey vParsePKCS1

// The PEM and X.509 parsers are the standard library's: their results are arbitrary values of their documented types.
// pem.Decode: nil (no block) or a block whose type is one of the interesting strings.
func vPemDecode(data []byte) (*stdpem.Block, []byte) {
	k := zzverif.Choose("block", 6)
	if k == 0 {
		return nil, data
	}
	types := []string{"", "EC PRIVATE KEY", "RSA PRIVATE KEY", "PRIVATE KEY", "CERTIFICATE", "PUBLIC KEY"}
	return &stdpem.Block{Type: types[k], Bytes: data}, nil
}

var errParse = errors.New("x509: failed to parse")

// ParsePKCS8PrivateKey documents its result as *rsa.PrivateKey, *ecdsa.PrivateKey, ed25519.PrivateKey (not a
// pointer) or *ecdh.PrivateKey (for X25519)
func vParsePKCS8(der []byte) (any, error) {
	switch zzverif.Choose("pkcs8_kind", 5) {
	case 0:
		return nil, errParse
	case 1:
		return &rsa.PrivateKey{}, nil
	case 2:
		return &ecdsa.PrivateKey{}, nil
	case 3:
		return ed25519.PrivateKey(make([]byte, 64)), nil
	}
	return &ecdh.PrivateKey{}, nil
}

func vParseEC(der []byte) (*ecdsa.PrivateKey, error) {
	if zzverif.Bool("ec_fails") {
		return nil, errParse
	}
	return &ecdsa.PrivateKey{}, nil
}

func vParsePKCS1(der []byte) (*rsa.PrivateKey, error) {
	if zzverif.Bool("pkcs1_fails") {
		return nil, errParse
	}
	return &rsa.PrivateKey{}, nil
}

// No PEM input makes DecodePEMPrivateKey panic, whatever key type the document holds
//
//verif:harness prop=C07 name=pem_private_key_nopanic unwind=10
func VerifDecodePEMPrivateKeyNoPanic() {
	if !zzverif.Symbolic() {
		vNativePEM()
		return
	}
	k, err := DecodePEMPrivateKey(zzverif.Bytes("pem", 4))
	if err == nil {
		zzverif.Assert(k != nil, "key_or_error")
	}
	zzverif.Cover("decode_pem_private_key_returned")
}

// native replay: a real PKCS#8 document of the kind the counterexample names
func vNativePEM() {
	_ = zzverif.Bytes("pem", 4)
	block := zzverif.Choose("block", 6)
	kind := -1
	if block == 3 {
		kind = zzverif.Choose("pkcs8_kind", 5)
	}
	var der []byte
	switch kind {
	case 4:
		key, _ := ecdh.X25519().GenerateKey(zeroReader{})
		der, _ = x509.MarshalPKCS8PrivateKey(key)
	case 3:
		_, key, _ := ed25519.GenerateKey(zeroReader{})
		der, _ = x509.MarshalPKCS8PrivateKey(key)
	default:
		zzverif.Cover("decode_pem_private_key_returned")
		return
	}
	doc := stdpem.EncodeToMemory(&stdpem.Block{Type: "PRIVATE KEY", Bytes: der})
	k, err := DecodePEMPrivateKey(doc)
	if err == nil {
		zzverif.Assert(k != nil, "key_or_error")
	}
	zzverif.Cover("decode_pem_private_key_returned")
}

type zeroReader struct{}

func (zeroReader) Read(p []byte) (int, error) {
	for i := range p {
		p[i] = byte(i + 1)
	}
	return len(p), nil
}

package pem

import (
	"crypto/x509"
	stdpem "encoding/pem"

	"github.com/dapr/kit/zzverif"
)

//verif:stub encoding/pem.Decode vPemDecodeSeq
//verif:stub crypto/x509.ParseCertificate vParseCertificate

// pem.Decode by its contract: no block (rest = the input), or one block of some type with rest = what follows it, a
// strictly shorter suffix of the input. The harness input is a sequence of "blocks" one byte each whose value selects
// the type.
func vPemDecodeSeq(data []byte) (*stdpem.Block, []byte) {
	if len(data) == 0 {
		return nil, data
	}
	types := []string{"", "CERTIFICATE", "PRIVATE KEY", "X509 CRL", "FOO"}
	k := int(data[0]) % (len(types) + 1)
	if k == len(types) {
		return nil, data // garbage: no block found
	}
	return &stdpem.Block{Type: types[k], Bytes: data[:1]}, data[1:]
}

func vParseCertificate(der []byte) (*x509.Certificate, error) {
	if zzverif.Bool("certificate_malformed") {
		return nil, errParse
	}
	return &x509.Certificate{}, nil
}

// DecodePEMCertificates returns - with certificates or an error - on every input: a bundle of up to four PEM blocks of
// any types in any order (certificates, keys, CRLs, unknown types, garbage in between). The scan loop is bounded by
// the number of blocks; a loop still running after 12 iterations is reported as a hang. Native replay: a real PEM
// bundle with the same sequence of block types.
//
//verif:harness prop=C07 name=pem_certificates_terminate unwind=12 nonterm=violation replay_timeout=5s
func VerifPEMCertificatesTerminate() {
	n := zzverif.Choose("blocks", 5)
	in := zzverif.Bytes("bundle", n)
	if !zzverif.Symbolic() {
		var doc []byte
		for _, b := range in {
			types := []string{"", "CERTIFICATE", "PRIVATE KEY", "X509 CRL", "FOO"}
			k := int(b) % (len(types) + 1)
			if k == len(types) {
				doc = append(doc, []byte("garbage\n")...)
				continue
			}
			doc = append(doc, stdpem.EncodeToMemory(&stdpem.Block{Type: types[k], Bytes: []byte{1, 2, 3}})...)
		}
		_, _ = DecodePEMCertificates(doc)
		zzverif.Cover("pem_certificates_returned")
		return
	}
	certs, err := DecodePEMCertificates(in)
	if err == nil {
		zzverif.Assert(len(certs) > 0, "certificates_or_error")
	}
	zzverif.Cover("pem_certificates_returned")
}

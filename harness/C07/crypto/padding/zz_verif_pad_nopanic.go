package padding

import (
	"github.com/dapr/kit/zzverif"
)

// No buffer and no block-size argument makes Pad/Unpad panic (any int size, buffers of 0..20 bytes)
//
//verif:harness prop=C07 name=pkcs7_nopanic unwind=300
func VerifPkcs7NoPanic() {
	n := zzverif.Choose("len", 21)
	b := zzverif.Bytes("b", n)
	var size int
	switch zzverif.Choose("size_class", 4) {
	case 0:
		size = zzverif.Int("size_any")
		zzverif.Assume(zzverif.Or(size <= 1, size >= 256))
	case 1:
		size = 2 + zzverif.Choose("size_small", 7)
	case 2:
		size = 16
	case 3:
		size = 255
	}
	if zzverif.Bool("unpad") {
		u, err := UnpadPKCS7(b, size)
		if err != nil {
			zzverif.Assert(u == nil, "unpad_error_no_output")
		}
	} else {
		p, err := PadPKCS7(b, size)
		if err != nil {
			zzverif.Assert(p == nil, "pad_error_no_output")
		}
	}
	zzverif.Cover("pkcs7_returned")
}

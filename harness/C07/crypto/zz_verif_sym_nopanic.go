package crypto

import (
	"github.com/dapr/kit/zzverif"
	"github.com/dapr/kit/zzverifstubs"
)

//verif:stub crypto/aes.NewCipher zzverifstubs.NewCipher
//verif:stub crypto/cipher.NewGCM zzverifstubs.NewGCM
//verif:stub crypto/cipher.NewGCMWithTagSize zzverifstubs.NewGCMWithTagSize
//verif:stub crypto/cipher.NewGCMWithNonceSize zzverifstubs.NewGCMWithNonceSize
//verif:stub crypto/cipher.NewCBCEncrypter zzverifstubs.NewCBCEncrypter
//verif:stub crypto/cipher.NewCBCDecrypter zzverifstubs.NewCBCDecrypter
//verif:stub golang.org/x/crypto/chacha20poly1305.New zzverifstubs.NewChaCha
//verif:stub golang.org/x/crypto/chacha20poly1305.NewX zzverifstubs.NewXChaCha
//verif:stub crypto/hmac.New zzverifstubs.HmacNew
//verif:stub crypto/hmac.Equal zzverifstubs.HmacEqual
//verif:stub (crypto.Hash).New zzverifstubs.HashNew

// EncryptSymmetric / DecryptSymmetric for every supported algorithm (and an unsupported name) with arguments of
// arbitrary length: one of key, nonce, tag, message is swept over lengths around every size the package knows
// (0, 1, 7, 8, 11..13, 15..17, 23..25, 31..33, 40, 47..49, 63..65) while the others have the documented size, plus
// the all-empty call; contents symbolic. Nothing panics; an error comes with no output. (The stubs keep the standard
// library's own contract: a wrong-size nonce given to an AEAD or a wrong-size IV given to CBC panics there, so a
// missing size check in kit shows up as a panic here.)
//
//verif:harness prop=C07 name=sym_nopanic unwind=90 qtimeout=60
func VerifSymNoPanic() {
	zzverifstubs.Init()
	type alg struct {
		name            string
		key, nonce, tag int
	}
	algs := []alg{
		{Algorithm_A128CBC, 16, 16, 0}, {Algorithm_A192CBC, 24, 16, 0}, {Algorithm_A256CBC, 32, 16, 0},
		{Algorithm_A128CBC_NOPAD, 16, 16, 0}, {Algorithm_A192CBC_NOPAD, 24, 16, 0}, {Algorithm_A256CBC_NOPAD, 32, 16, 0},
		{Algorithm_A128GCM, 16, 12, 16}, {Algorithm_A192GCM, 24, 12, 16}, {Algorithm_A256GCM, 32, 12, 16},
		{Algorithm_A128CBC_HS256, 32, 16, 16}, {Algorithm_A192CBC_HS384, 48, 16, 24}, {Algorithm_A256CBC_HS512, 64, 16, 32},
		{Algorithm_A128KW, 16, 0, 0}, {Algorithm_A192KW, 24, 0, 0}, {Algorithm_A256KW, 32, 0, 0},
		{Algorithm_C20P, 32, 12, 16}, {Algorithm_XC20P, 32, 24, 16}, {Algorithm_C20PKW, 32, 12, 16}, {Algorithm_XC20PKW, 32, 24, 16},
		{"no-such-algorithm", 16, 12, 16},
	}
	quick := []int{0, 4, 7, 10, 13, 15, 16, 19}
	var a alg
	if zzverif.Thorough() {
		a = algs[zzverif.Choose("alg", len(algs))]
	} else {
		a = algs[quick[zzverif.Choose("alg", len(quick))]]
	}
	lens := []int{0, 1, 7, 8, 11, 12, 13, 15, 16, 17, 23, 24, 25, 31, 32, 33, 40, 47, 48, 49, 63, 64, 65}
	if !zzverif.Thorough() {
		lens = []int{0, 1, 8, 12, 15, 16, 17, 24, 31, 32, 33, 48, 64}
	}
	kl, nl, tl, ml := a.key, a.nonce, a.tag, 16
	switch zzverif.Choose("swept", 5) {
	case 0:
		kl = lens[zzverif.Choose("len", len(lens))]
	case 1:
		nl = lens[zzverif.Choose("len", len(lens))]
	case 2:
		tl = lens[zzverif.Choose("len", len(lens))]
	case 3:
		ml = lens[zzverif.Choose("len", len(lens))]
	case 4:
		kl, nl, tl, ml = 0, 0, 0, 0
	}
	key := vKey{raw: zzverif.Bytes("key", kl)}
	nonce := zzverif.Bytes("nonce", nl)
	tag := zzverif.Bytes("tag", tl)
	msg := zzverif.Bytes("msg", ml)
	aad := zzverif.Bytes("aad", zzverif.Choose("aad_len", 2))
	if zzverif.Bool("decrypt") {
		out, err := DecryptSymmetric(msg, a.name, key, nonce, tag, aad)
		if err != nil {
			zzverif.Assert(out == nil, "decrypt_error_no_output")
		}
		zzverif.Cover("sym_decrypt_returned")
		return
	}
	ct, _, err := EncryptSymmetric(msg, a.name, key, nonce, aad)
	if err != nil {
		zzverif.Assert(ct == nil, "encrypt_error_no_output")
	}
	zzverif.Cover("sym_encrypt_returned")
}

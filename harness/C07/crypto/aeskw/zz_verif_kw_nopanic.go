package aeskw

import (
	"crypto/aes"

	"github.com/dapr/kit/zzverif"
)

// ideal block cipher (uninterpreted E/D); real AES in native replays
type vBlock struct{ key []byte }

func (b vBlock) BlockSize() int { return 16 }
func (b vBlock) Encrypt(dst, src []byte) {
	if !zzverif.Symbolic() {
		c, _ := aes.NewCipher(b.key)
		c.Encrypt(dst, src)
		return
	}
	copy(dst[:16], zzverif.UFBytes("E", 16, b.key, src[:16]))
}
func (b vBlock) Decrypt(dst, src []byte) {
	if !zzverif.Symbolic() {
		c, _ := aes.NewCipher(b.key)
		c.Decrypt(dst, src)
		return
	}
	copy(dst[:16], zzverif.UFBytes("D", 16, b.key, src[:16]))
}

func vMaxLen() int {
	if zzverif.Thorough() {
		return 64
	}
	return 41
}

// No wrapped key of any length makes Unwrap panic (the block cipher's answers are arbitrary).
//
//verif:harness prop=C07 name=aeskw_unwrap_nopanic unwind=60
func VerifUnwrapNoPanic() {
	L := zzverif.Choose("L", vMaxLen()+1)
	blk := vBlock{key: zzverif.Bytes("kek", 16)}
	c := zzverif.Bytes("c", L)
	u, err := Unwrap(blk, c)
	if err != nil {
		zzverif.Assert(u == nil, "unwrap_error_no_output")
	}
	zzverif.Cover("unwrap_returned")
}

//verif:harness prop=C07 name=aeskw_wrap_nopanic unwind=60
func VerifWrapNoPanic() {
	L := zzverif.Choose("L", vMaxLen()+1)
	blk := vBlock{key: zzverif.Bytes("kek", 16)}
	w, err := Wrap(blk, zzverif.Bytes("cek", L))
	if err != nil {
		zzverif.Assert(w == nil, "wrap_error_no_output")
	}
	zzverif.Cover("wrap_returned")
}

package crypto

import (
	"crypto/ed25519"
	"encoding/base64"
	"errors"

	"github.com/lestrrat-go/jwx/v2/jwa"
	"github.com/lestrrat-go/jwx/v2/jwk"

	"github.com/dapr/kit/zzverif"
)

//verif:stub crypto/ed25519.Verify vEdVerifyContract
//verif:stub crypto/ed25519.Sign vEdSignContract

// crypto/ed25519 by its documented contract (symbolic runs; the native replay uses the real package): Verify panics
// when the public key does not have PublicKeySize bytes, Sign when the private key does not have PrivateKeySize bytes.
func vEdVerifyContract(pub ed25519.PublicKey, msg, sig []byte) bool {
	if len(pub) != ed25519.PublicKeySize {
		panic("ed25519: bad public key length")
	}
	return zzverif.Bool("ed25519_verify_result")
}

func vEdSignContract(priv ed25519.PrivateKey, msg []byte) []byte {
	if len(priv) != ed25519.PrivateKeySize {
		panic("ed25519: bad private key length")
	}
	return make([]byte, ed25519.SignatureSize)
}

// An OKP key as jwx hands it out after parsing a JWK (symbolic runs; natively the key IS parsed from a JWK by jwx):
// the public key's Raw yields the decoded "x" member as it is - jwx does not check its length -, the private key's Raw
// derives the key from the "d" seed and fails unless the seed has 32 bytes.
type vOKPAny struct {
	jwk.OKPPrivateKey
	crv  jwa.EllipticCurveAlgorithm
	x, d []byte
}

func (k vOKPAny) KeyType() jwa.KeyType            { return jwa.OKP }
func (k vOKPAny) Crv() jwa.EllipticCurveAlgorithm { return k.crv }
func (k vOKPAny) PublicKey() (jwk.Key, error)     { return vOKPAnyPub{crv: k.crv, x: k.x}, nil }
func (k vOKPAny) Raw(v interface{}) error {
	switch p := v.(type) {
	case *ed25519.PrivateKey:
		if len(k.d) != ed25519.SeedSize {
			return errors.New("jwk: wrong private key size")
		}
		*p = make([]byte, ed25519.PrivateKeySize)
		return nil
	case *ed25519.PublicKey:
		*p = ed25519.PublicKey(k.x)
		return nil
	}
	return errNotBytes
}

type vOKPAnyPub struct {
	jwk.OKPPublicKey
	crv jwa.EllipticCurveAlgorithm
	x   []byte
}

func (k vOKPAnyPub) KeyType() jwa.KeyType            { return jwa.OKP }
func (k vOKPAnyPub) Crv() jwa.EllipticCurveAlgorithm { return k.crv }
func (k vOKPAnyPub) PublicKey() (jwk.Key, error)     { return k, nil }
func (k vOKPAnyPub) Raw(v interface{}) error {
	if p, ok := v.(*ed25519.PublicKey); ok {
		*p = ed25519.PublicKey(k.x)
		return nil
	}
	return errNotBytes
}

func vMakeOKP(x, d []byte) jwk.Key {
	if zzverif.Symbolic() {
		if d == nil {
			return vOKPAnyPub{crv: jwa.Ed25519, x: x}
		}
		return vOKPAny{crv: jwa.Ed25519, x: x, d: d}
	}
	js := `{"kty":"OKP","crv":"Ed25519","x":"` + base64.RawURLEncoding.EncodeToString(x) + `"`
	if d != nil {
		js += `,"d":"` + base64.RawURLEncoding.EncodeToString(d) + `"`
	}
	k, err := jwk.ParseKey([]byte(js + "}"))
	if err != nil {
		zzverif.Assume(false) // jwx refuses this JWK: not an input the entry points can receive
	}
	return k
}

// EdDSA keys in JWK form: the "x" (public) and "d" (private seed) members are arbitrary byte strings of any length,
// the signature has any length: VerifyPublicKey and SignPrivateKey answer with a result or an error, never a panic.
//
//verif:harness prop=C07 name=eddsa_jwk_nopanic unwind=80
func VerifEdDSAJWKNoPanic() {
	lens := []int{0, 3, 31, 32, 33, 64}
	x := zzverif.Bytes("x", lens[zzverif.Choose("x_len", len(lens))])
	msg := zzverif.Bytes("message", zzverif.Choose("message_len", 3))
	sig := zzverif.Bytes("signature", []int{0, 63, 64, 65}[zzverif.Choose("signature_len", 4)])
	if zzverif.Bool("private_key") {
		d := zzverif.Bytes("d", []int{3, 32, 64}[zzverif.Choose("d_len", 3)])
		k := vMakeOKP(x, d)
		s, err := SignPrivateKey(msg, Algorithm_EdDSA, k)
		if err == nil {
			zzverif.Assert(len(s) == ed25519.SignatureSize, "signature_or_error")
		}
		ok, err := VerifyPublicKey(msg, sig, Algorithm_EdDSA, k)
		zzverif.Assert(!(ok && err != nil), "verify_result_or_error")
	} else {
		k := vMakeOKP(x, nil)
		ok, err := VerifyPublicKey(msg, sig, Algorithm_EdDSA, k)
		zzverif.Assert(!(ok && err != nil), "verify_result_or_error")
		if len(x) != ed25519.PublicKeySize {
			zzverif.Assert(!ok, "malformed_key_verifies_nothing")
		}
	}
	zzverif.Cover("eddsa_jwk_returned")
}

package aescbcaead

import (
	"crypto/hmac"
	"crypto/sha256"

	"github.com/dapr/kit/zzverif"
	"github.com/dapr/kit/zzverifstubs"
)

//verif:stub crypto/aes.NewCipher zzverifstubs.NewCipher
//verif:stub crypto/cipher.NewCBCEncrypter zzverifstubs.NewCBCEncrypter
//verif:stub crypto/cipher.NewCBCDecrypter zzverifstubs.NewCBCDecrypter
//verif:stub crypto/hmac.New zzverifstubs.HmacNew
//verif:stub crypto/hmac.Equal zzverifstubs.HmacEqual
//verif:stub (crypto.Hash).New zzverifstubs.HashNew

// No ciphertext of any length makes Open panic - including ciphertexts carrying an authentic tag (the MAC is an
// uninterpreted function, so the solver is free to pick a tag that verifies: a peer who knows the key can always
// produce one). The nonce has the documented size (a wrong-size nonce is the excluded standard-library contract).
//
//verif:harness prop=C07 name=aescbcaead_open_nopanic unwind=60
func VerifOpenNoPanic() {
	zzverifstubs.Init()
	key := zzverif.Bytes("key", 32)
	a, err := NewAESCBC128SHA256(key)
	zzverif.Assert(err == nil, "new_ok")
	max := 40
	if zzverif.Thorough() {
		max = 64
	}
	l := zzverif.Choose("ct_len", max+1)
	ct := zzverif.Bytes("ct", l)
	nonce := zzverif.Bytes("nonce", 16)
	aad := zzverif.Bytes("aad", zzverif.Choose("aad_len", 3))
	if !zzverif.Symbolic() && l >= 16 {
		// native replay: the solver's tag is authentic only under the idealised MAC; recompute it with the real HMAC
		// (as a peer who knows the key would)
		impl := a.(*aesCBCAEAD)
		tag := impl.hmacTag(hmac.New(sha256.New, impl.macKey), aad, nonce, ct[:l-16], 16)
		copy(ct[l-16:], tag)
	}
	pt, err := a.Open(nil, nonce, ct, aad)
	if err != nil {
		zzverif.Assert(pt == nil, "open_error_no_output")
	}
	zzverif.Cover("open_returned")
}

// Seal with the documented nonce size never panics, for every plaintext length
//
//verif:harness prop=C07 name=aescbcaead_seal_nopanic unwind=60
func VerifSealNoPanic() {
	zzverifstubs.Init()
	a, err := NewAESCBC256SHA512(zzverif.Bytes("key", 64))
	zzverif.Assert(err == nil, "new_ok")
	pt := zzverif.Bytes("pt", zzverif.Choose("pt_len", 34))
	out := a.Seal(nil, zzverif.Bytes("nonce", 16), pt, nil)
	zzverif.Assert(len(out)%16 == 0, "seal_output_block_aligned")
	zzverif.Cover("seal_returned")
}

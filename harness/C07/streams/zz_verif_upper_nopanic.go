package streams

import (
	"unicode/utf8"

	"github.com/dapr/kit/zzverif"
)

// RuneToUppercase never panics and returns the UTF-8 encoding of one rune: for every ASCII value (symbolic) the byte
// itself or its upper-case letter; for runes outside ASCII a forked list of representatives - negative and
// out-of-range values, surrogate halves, letters whose upper-case form is LONGER in UTF-8 (U+0250, U+0251, U+023F,
// U+0240, U+026B, U+0271, U+027D, U+1E9E's partner U+00DF has none), SHORTER (U+0131, U+017F, U+1FBE, U+2C65), of the
// same length, and the last code point. (A fully symbolic rune through the unicode case tables and strings.Map did
// not finish in 10 minutes: outside the bound.)
//
//verif:harness prop=C07 name=uppercase_nopanic unwind=40
func VerifUppercaseNoPanic() {
	var r rune
	if zzverif.Bool("ascii") {
		r = rune(zzverif.Bytes("ascii_value", 1)[0] & 0x7f)
	} else {
		rs := []rune{-1, -0x7fffffff, 0x80, 0xdf, 0xe9, 0x131, 0x17f, 0x23f, 0x240, 0x250, 0x251, 0x26b, 0x271, 0x27d, 0x3b1, 0x1fbe,
			0x2c65, 0xd800, 0xdfff, 0xfffd, 0xffff, 0x10000, 0x10428, 0x1f600, 0x10ffff, 0x110000, 0x7fffffff}
		r = rs[zzverif.Choose("rune", len(rs))]
	}
	out := RuneToUppercase(r)
	if r >= 0 && r < utf8.RuneSelf {
		zzverif.Assert(len(out) == 1, "ascii_gives_one_byte")
		if r >= 'a' && r <= 'z' {
			zzverif.Assert(out[0] == byte(r)-0x20, "ascii_letter_uppercased")
		} else {
			zzverif.Assert(out[0] == byte(r), "ascii_other_unchanged")
		}
	} else {
		zzverif.Assert(len(out) >= 1 && len(out) <= 4, "one_encoded_rune")
	}
	zzverif.Cover("uppercase_returned")
}

package main

// Source instrumentation for native replay of schedules. For every package of the kit module (and the harness
// files inside them) the statements that contain a synchronisation operation are found with go/types information;
// `zzverif.Sched("file:line", n)` is inserted textually in front of them (same line, so line numbers do not move),
// go statements register the new goroutine, deferred synchronisation calls are wrapped. The same analysis gives the
// engine the statement ranges it needs to name scheduling points exactly as the native side does.

import (
	"fmt"
	"go/ast"
	"go/token"
	"go/types"
	"sort"
	"strings"

	"golang.org/x/tools/go/packages"
)

// names of callees that are scheduling points in the engine (must match the intrinsics that call needYield)
var schedCallees = map[string]bool{}

func init() {
	for _, n := range []string{
		"(*sync.Mutex).Lock", "(*sync.Mutex).Unlock", "(*sync.Mutex).TryLock",
		"(*sync.RWMutex).Lock", "(*sync.RWMutex).Unlock", "(*sync.RWMutex).RLock", "(*sync.RWMutex).RUnlock",
		"(*sync.RWMutex).TryLock", "(*sync.RWMutex).TryRLock",
		"(*sync.WaitGroup).Add", "(*sync.WaitGroup).Done", "(*sync.WaitGroup).Wait", "(*sync.Once).Do",
		kitMod + "/zzverif.Yield",
	} {
		schedCallees[n] = true
	}
	for _, tn := range []string{"Int32", "Int64", "Uint32", "Uint64", "Bool", "Uintptr", "Pointer[T]", "Value"} {
		for _, op := range []string{"Load", "Store", "Swap", "Add", "CompareAndSwap"} {
			schedCallees["(*sync/atomic."+tn+")."+op] = true
		}
	}
	for _, tn := range []string{"Int32", "Int64", "Uint32", "Uint64"} {
		for _, op := range []string{"Load", "Store", "Add", "CompareAndSwap"} {
			schedCallees["sync/atomic."+op+tn] = true
		}
	}
}

type stmtRange struct {
	start, end token.Pos
	site       string
}

type edit struct {
	off  int
	end  int // replace [off, end) ; end == off for pure insertion
	text string
}

type Instrumented struct {
	Files  map[string][]byte      // virtual path -> instrumented content
	Ranges map[string][]stmtRange // filename (as in fset) -> instrumented statement ranges
}

type instr struct {
	L     *Loaded
	pkg   *packages.Package
	file  *ast.File
	fname string
	src   []byte
	edits []edit
	rng   []stmtRange
	tf    *token.File
}

func calleeName(info *types.Info, call *ast.CallExpr) string {
	var obj types.Object
	switch f := ast.Unparen(call.Fun).(type) {
	case *ast.Ident:
		obj = info.Uses[f]
	case *ast.SelectorExpr:
		if sel := info.Selections[f]; sel != nil {
			obj = sel.Obj()
		} else {
			obj = info.Uses[f.Sel]
		}
	case *ast.IndexExpr:
		if id, ok := f.X.(*ast.Ident); ok {
			obj = info.Uses[id]
		}
	}
	fn, ok := obj.(*types.Func)
	if !ok {
		if b, ok := obj.(*types.Builtin); ok {
			return "builtin." + b.Name()
		}
		return ""
	}
	if o := fn.Origin(); o != nil {
		fn = o
	}
	return fn.FullName()
}

// syncOps counts the synchronisation operations evaluated by the header of a statement (nested blocks and function
// literals excluded).
func (in *instr) syncOps(n ast.Node) int {
	cnt := 0
	root := n
	ast.Inspect(n, func(x ast.Node) bool {
		switch v := x.(type) {
		case *ast.FuncLit:
			return false
		case *ast.BlockStmt:
			return x == root
		case *ast.CaseClause, *ast.CommClause:
			return false
		case *ast.SelectStmt:
			if x != root {
				return false
			}
		case *ast.UnaryExpr:
			if v.Op == token.ARROW {
				cnt++
			}
		case *ast.SendStmt:
			cnt++
		case *ast.CallExpr:
			name := calleeName(in.pkg.TypesInfo, v)
			if schedCallees[name] || name == "builtin.close" {
				cnt++
			}
		}
		return true
	})
	return cnt
}

func (in *instr) off(p token.Pos) int { return in.tf.Offset(p) }

func (in *instr) site(p token.Pos) string { return in.L.posStr(p) }

func (in *instr) schedCall(p token.Pos, n int) string {
	return fmt.Sprintf("zzverif.Sched(%q, %d); ", in.site(p), n)
}

func (in *instr) addRange(s ast.Node, site string) {
	in.rng = append(in.rng, stmtRange{start: s.Pos(), end: s.End(), site: site})
}

func (in *instr) stmtList(list []ast.Stmt) {
	for _, s := range list {
		in.stmt(s)
	}
}

func (in *instr) stmt(s ast.Stmt) {
	switch v := s.(type) {
	case *ast.LabeledStmt:
		in.stmt(v.Stmt)
		return
	case *ast.BlockStmt:
		in.stmtList(v.List)
		return
	case *ast.GoStmt:
		// go f(args)  =>  { Sched; id := NewThread(); go func() { ThreadStart(id); defer ThreadEnd(id); f(args) }() }
		site := in.site(v.Pos())
		callText := string(in.src[in.off(v.Call.Pos()):in.off(v.Call.End())])
		// instrument inside a function literal first (edits inside the call text are applied separately: keep simple by
		// recursing before replacing only the "go " keyword and appending the tail)
		in.edits = append(in.edits, edit{off: in.off(v.Pos()), end: in.off(v.Call.Pos()),
			text: fmt.Sprintf("{ zzverif.Sched(%q, 1); __vt := zzverif.NewThread(); go func() { zzverif.ThreadStart(__vt); defer zzverif.ThreadEnd(__vt); ", site)})
		in.edits = append(in.edits, edit{off: in.off(v.Call.End()), end: in.off(v.Call.End()), text: " }() }"})
		_ = callText
		in.addRange(v, site)
		in.funcLitsIn(v.Call)
		return
	case *ast.DeferStmt:
		name := calleeName(in.pkg.TypesInfo, v.Call)
		if schedCallees[name] || name == "builtin.close" {
			site := in.site(v.Pos())
			in.edits = append(in.edits, edit{off: in.off(v.Call.Pos()), end: in.off(v.Call.Pos()),
				text: fmt.Sprintf("func() { zzverif.Sched(%q, 1); ", site)})
			in.edits = append(in.edits, edit{off: in.off(v.Call.End()), end: in.off(v.Call.End()), text: " }()"})
			in.addRange(v, site)
		}
		in.funcLitsIn(v.Call)
		return
	case *ast.IfStmt:
		in.header(v, v.Pos())
		in.stmtList(v.Body.List)
		in.elseBranch(v.Else)
		return
	case *ast.ForStmt:
		n := in.syncOps(v)
		if n > 0 {
			if v.Init == nil && v.Post == nil && v.Cond != nil {
				// for cond {  =>  for { Sched; if !(cond) { break };
				site := in.site(v.Pos())
				cond := string(in.src[in.off(v.Cond.Pos()):in.off(v.Cond.End())])
				in.edits = append(in.edits, edit{off: in.off(v.Pos()), end: in.off(v.Body.Lbrace) + 1,
					text: fmt.Sprintf("for { zzverif.Sched(%q, %d); if !(%s) { break }; ", site, n, cond)})
				in.rng = append(in.rng, stmtRange{start: v.Pos(), end: v.Body.Lbrace, site: site})
			} else if v.Init != nil {
				in.header(v.Init, v.Pos())
			}
		}
		in.stmtList(v.Body.List)
		return
	case *ast.RangeStmt:
		if t := in.pkg.TypesInfo.TypeOf(v.X); t != nil {
			if _, isChan := t.Underlying().(*types.Chan); isChan {
				site := in.site(v.Pos())
				x := string(in.src[in.off(v.X.Pos()):in.off(v.X.End())])
				var recv string
				switch {
				case v.Key == nil:
					recv = fmt.Sprintf("_, __ok := <-%s", x)
				case v.Tok == token.DEFINE:
					recv = fmt.Sprintf("%s, __ok := <-%s", string(in.src[in.off(v.Key.Pos()):in.off(v.Key.End())]), x)
				default:
					recv = fmt.Sprintf("var __ok bool; %s, __ok = <-%s", string(in.src[in.off(v.Key.Pos()):in.off(v.Key.End())]), x)
				}
				in.edits = append(in.edits, edit{off: in.off(v.Pos()), end: in.off(v.Body.Lbrace) + 1,
					text: fmt.Sprintf("for { zzverif.Sched(%q, 1); %s; if !__ok { break }; ", site, recv)})
				in.rng = append(in.rng, stmtRange{start: v.Pos(), end: v.Body.Lbrace, site: site})
				in.stmtList(v.Body.List)
				return
			}
		}
		in.header(v, v.Pos())
		in.stmtList(v.Body.List)
		return
	case *ast.SwitchStmt:
		in.header(v, v.Pos())
		for _, c := range v.Body.List {
			in.stmtList(c.(*ast.CaseClause).Body)
		}
		return
	case *ast.TypeSwitchStmt:
		in.header(v, v.Pos())
		for _, c := range v.Body.List {
			in.stmtList(c.(*ast.CaseClause).Body)
		}
		return
	case *ast.SelectStmt:
		site := in.site(v.Pos())
		in.edits = append(in.edits, edit{off: in.off(v.Pos()), end: in.off(v.Pos()), text: in.schedCall(v.Pos(), 1)})
		in.rng = append(in.rng, stmtRange{start: v.Pos(), end: v.Body.Lbrace, site: site})
		for _, c := range v.Body.List {
			cc := c.(*ast.CommClause)
			if cc.Comm != nil {
				in.rng = append(in.rng, stmtRange{start: cc.Comm.Pos(), end: cc.Comm.End(), site: site})
			}
			in.stmtList(cc.Body)
		}
		return
	}
	// simple statements
	in.header(s, s.Pos())
	in.funcLitsIn(s)
}

// header inserts a Sched call in front of the statement when its header evaluates synchronisation operations.
func (in *instr) header(n ast.Node, at token.Pos) {
	cnt := in.syncOps(n)
	if cnt == 0 {
		return
	}
	site := in.site(at)
	in.edits = append(in.edits, edit{off: in.off(at), end: in.off(at), text: in.schedCall(at, cnt)})
	end := n.End()
	switch v := n.(type) {
	case *ast.IfStmt:
		end = v.Body.Lbrace
	case *ast.SwitchStmt:
		end = v.Body.Lbrace
	case *ast.TypeSwitchStmt:
		end = v.Body.Lbrace
	case *ast.RangeStmt:
		end = v.Body.Lbrace
	}
	in.rng = append(in.rng, stmtRange{start: n.Pos(), end: end, site: site})
}

func (in *instr) elseBranch(e ast.Stmt) {
	switch v := e.(type) {
	case nil:
	case *ast.BlockStmt:
		in.stmtList(v.List)
	case *ast.IfStmt:
		if in.syncOps(v) > 0 {
			// else if cond {...}  =>  else { Sched; if cond {...} }
			in.edits = append(in.edits, edit{off: in.off(v.Pos()), end: in.off(v.Pos()), text: "{ "})
			in.edits = append(in.edits, edit{off: in.off(v.End()), end: in.off(v.End()), text: " }"})
		}
		in.stmt(v)
	}
}

// funcLitsIn instruments the bodies of function literals appearing inside a node.
func (in *instr) funcLitsIn(n ast.Node) {
	ast.Inspect(n, func(x ast.Node) bool {
		if fl, ok := x.(*ast.FuncLit); ok {
			in.stmtList(fl.Body.List)
			return false
		}
		return true
	})
}

// Instrument analyses every kit package that was loaded.
func Instrument(L *Loaded) *Instrumented {
	res := &Instrumented{Files: map[string][]byte{}, Ranges: map[string][]stmtRange{}}
	for path, pkg := range L.AllPkgs {
		if !strings.HasPrefix(path, kitMod) || strings.HasSuffix(path, "/zzverif") || strings.HasSuffix(path, "/zzverifmodels") {
			continue
		}
		for _, f := range pkg.Syntax {
			tf := L.Fset.File(f.Pos())
			if tf == nil {
				continue
			}
			fname := tf.Name()
			src, ok := L.Overlay[fname]
			if !ok {
				b, err := readFileCached(fname)
				if err != nil {
					continue
				}
				src = b
			}
			in := &instr{L: L, pkg: pkg, file: f, fname: fname, src: src, tf: tf}
			for _, d := range f.Decls {
				if fd, ok := d.(*ast.FuncDecl); ok && fd.Body != nil {
					in.stmtList(fd.Body.List)
				} else if gd, ok := d.(*ast.GenDecl); ok {
					in.funcLitsIn(gd)
				}
			}
			if len(in.edits) == 0 {
				continue
			}
			// import (same line as the package clause, so that line numbers are preserved)
			hasImport := false
			for _, im := range f.Imports {
				if strings.Trim(im.Path.Value, "\"") == kitMod+"/zzverif" && (im.Name == nil || im.Name.Name == "zzverif") {
					hasImport = true
				}
			}
			if !hasImport {
				o := in.off(f.Name.End())
				in.edits = append(in.edits, edit{off: o, end: o, text: "; import zzverif \"" + kitMod + "/zzverif\""})
			}
			sort.SliceStable(in.edits, func(i, j int) bool { return in.edits[i].off < in.edits[j].off })
			var out []byte
			pos := 0
			okEdits := true
			for _, e := range in.edits {
				if e.off < pos {
					okEdits = false // overlapping rewrites (nested loop headers): give up on this file
					break
				}
				out = append(out, src[pos:e.off]...)
				out = append(out, e.text...)
				pos = e.end
			}
			if !okEdits {
				continue
			}
			out = append(out, src[pos:]...)
			res.Files[fname] = out
			res.Ranges[fname] = in.rng
		}
	}
	return res
}

// schedSite names a scheduling point the way the native instrumentation does: the site of the innermost
// instrumented statement containing the instruction; "" when the position is not inside instrumented code.
func (ins *Instrumented) schedSite(fset *token.FileSet, p token.Pos) string {
	if !p.IsValid() {
		return ""
	}
	tf := fset.File(p)
	if tf == nil {
		return ""
	}
	best := ""
	var bestLen token.Pos = 1 << 30
	for _, r := range ins.Ranges[tf.Name()] {
		if r.start <= p && p < r.end && r.end-r.start < bestLen {
			best, bestLen = r.site, r.end-r.start
		}
	}
	return best
}

package main

import (
	"encoding/json"
	rdebug "runtime/debug"
	"flag"
	"fmt"
	"os"
	"path/filepath"
	"sort"
	"strings"
	"sync"
	"time"
)

type WorkPool struct {
	mu      sync.Mutex
	cond    *sync.Cond
	tasks   [][]PStep
	active  int
	idle    int
	workers int
	max     int
	sem     chan struct{}
	spawn   func()
	unknowns int
	abort   bool
}

func (p *WorkPool) noteUnknown() bool {
	p.mu.Lock()
	defer p.mu.Unlock()
	p.unknowns++
	if p.unknowns > 12 {
		p.abort = true
	}
	return p.abort
}

func (p *WorkPool) aborted() bool {
	p.mu.Lock()
	defer p.mu.Unlock()
	return p.abort
}

func (p *WorkPool) hungry() bool {
	p.mu.Lock()
	defer p.mu.Unlock()
	if len(p.tasks) >= 4 {
		return false
	}
	return p.idle > 0 || (p.workers < p.max && len(p.sem) < cap(p.sem))
}

func (p *WorkPool) push(pre []PStep) {
	p.mu.Lock()
	p.tasks = append(p.tasks, pre)
	needSpawn := p.idle == 0 && p.workers < p.max
	p.mu.Unlock()
	p.cond.Signal()
	if needSpawn {
		p.spawn()
	}
}

// take blocks until a task is available or all work is done.
func (p *WorkPool) take() ([]PStep, bool) {
	p.mu.Lock()
	defer p.mu.Unlock()
	for {
		if len(p.tasks) > 0 {
			t := p.tasks[len(p.tasks)-1]
			p.tasks = p.tasks[:len(p.tasks)-1]
			p.active++
			return t, true
		}
		if p.active == 0 {
			p.cond.Broadcast()
			return nil, false
		}
		p.idle++
		p.cond.Wait()
		p.idle--
	}
}

func (p *WorkPool) finished() {
	p.mu.Lock()
	p.active--
	p.mu.Unlock()
	p.cond.Broadcast()
}

type HarnessResult struct {
	H                               *Harness
	Stats                           Stats
	Findings                        []*Finding
	Covers                          map[string]*Finding
	Queries, NSat, NUnsat, NUnknown int
	SolverWall                      time.Duration
	MaxQuery                        time.Duration
	Wall                            time.Duration
	Workers                         int
	Err                             string
}

func mergeStats(dst *Stats, s *Stats) {
	dst.Paths += s.Paths
	dst.Steps += s.Steps
	dst.Decisions += s.Decisions
	dst.SchedPoints += s.SchedPoints
	dst.Truncated += s.Truncated
	if s.MaxDepth > dst.MaxDepth {
		dst.MaxDepth = s.MaxDepth
	}
	for k, v := range s.Unsupported {
		dst.Unsupported[k] += v
	}
	for k, v := range s.Covers {
		dst.Covers[k] += v
	}
	for k, v := range s.Asserts {
		dst.Asserts[k] += v
	}
	for k, v := range s.Funcs {
		dst.Funcs[k] += v
	}
	for _, w := range s.Inconclusive {
		found := false
		for _, x := range dst.Inconclusive {
			if x == w {
				found = true
			}
		}
		if !found && len(dst.Inconclusive) < 60 {
			dst.Inconclusive = append(dst.Inconclusive, w)
		}
	}
}

func runHarness(L *Loaded, H *Harness, sem chan struct{}, maxWorkers int, debug bool) *HarnessResult {
	t0 := time.Now()
	res := &HarnessResult{H: H, Covers: map[string]*Finding{}}
	res.Stats.Unsupported = map[string]int{}
	res.Stats.Covers = map[string]int{}
	res.Stats.Asserts = map[string]int{}
	res.Stats.Funcs = map[string]int{}
	pool := &WorkPool{sem: sem, max: maxWorkers}
	pool.cond = sync.NewCond(&pool.mu)
	var wg sync.WaitGroup
	var rmu sync.Mutex
	var totalPaths int
	worker := func() {
		defer wg.Done()
		defer func() { <-sem }()
		m, err := NewMachine(L, H, pool)
		if err != nil {
			rmu.Lock()
			res.Err = err.Error()
			rmu.Unlock()
			// drain
			for {
				_, ok := pool.take()
				if !ok {
					return
				}
				pool.finished()
			}
		}
		m.debug = debug
		defer m.solver.Close()
		for {
			task, ok := pool.take()
			if !ok {
				break
			}
			m.forced = task
			m.root = nil
			func() {
				defer pool.finished()
				defer func() {
					if r := recover(); r != nil {
						rmu.Lock()
						res.Err = fmt.Sprintf("engine panic: %v\n  at %s\n  %s", r, m.curSite, strings.Join(m.allStacks(), "\n  "))
						fmt.Fprintf(os.Stderr, "ENGINE-PANIC harness=%s: %v\n%s\n", H.Name, r, rdebug.Stack())
						rmu.Unlock()
					}
				}()
				for m.RunOne() {
					rmu.Lock()
					totalPaths++
					over := totalPaths > H.MaxPaths || res.Err != "" || pool.aborted()
					rmu.Unlock()
					if over {
						if pool.aborted() {
							m.inconclusive("exploration aborted: too many solver unknowns/timeouts (query timeout " + H.Opts["qtimeout"] + "s)")
						} else {
							m.inconclusive(fmt.Sprintf("path limit %d reached", H.MaxPaths))
						}
						break
					}
				}
			}()
		}
		rmu.Lock()
		mergeStats(&res.Stats, &m.stats)
		for _, f := range m.findings {
			dup := false
			for _, g := range res.Findings {
				if g.Assertion == f.Assertion && g.Site == f.Site && g.Kind == f.Kind {
					dup = true
				}
			}
			if !dup {
				res.Findings = append(res.Findings, f)
			}
		}
		for k, v := range m.coverModels {
			if _, ok := res.Covers[k]; !ok {
				res.Covers[k] = v
			}
		}
		res.Queries += m.solver.Queries
		res.NSat += m.solver.NSat
		res.NUnsat += m.solver.NUnsat
		res.NUnknown += m.solver.NUnknown
		res.SolverWall += m.solver.Wall
		if m.solver.MaxWall > res.MaxQuery {
			res.MaxQuery = m.solver.MaxWall
		}
		res.Workers++
		rmu.Unlock()
	}
	pool.spawn = func() {
		pool.mu.Lock()
		if pool.workers >= pool.max {
			pool.mu.Unlock()
			return
		}
		select {
		case sem <- struct{}{}:
			pool.workers++
			pool.mu.Unlock()
			wg.Add(1)
			go worker()
		default:
			pool.mu.Unlock()
		}
	}
	if os.Getenv("VERIF_PROGRESS") != "" {
		stop := make(chan struct{})
		defer close(stop)
		go func() {
			for {
				select {
				case <-stop:
					return
				case <-time.After(5 * time.Second):
					rmu.Lock()
					tp := totalPaths
					rmu.Unlock()
					pool.mu.Lock()
					fmt.Fprintf(os.Stderr, "progress %s: paths=%d workers=%d queued=%d active=%d t=%.0fs\n", H.Name, tp, pool.workers, len(pool.tasks), pool.active, time.Since(t0).Seconds())
					pool.mu.Unlock()
				}
			}
		}()
	}
	// first worker always (blocks for a token)
	pool.tasks = append(pool.tasks, nil)
	sem <- struct{}{}
	pool.workers++
	wg.Add(1)
	go worker()
	wg.Wait()
	res.Wall = time.Since(t0)
	return res
}

func (m *Machine) allStacks() []string {
	var out []string
	for _, t := range m.threads {
		if t.done {
			continue
		}
		out = append(out, fmt.Sprintf("thread %d:", t.id))
		out = append(out, m.stackTrace(t)...)
	}
	return out
}

func main() {
	repo := flag.String("repo", "/repo", "repository root")
	verif := flag.String("verif", "/verif", "verification root")
	prop := flag.String("prop", "", "property id (harness directory)")
	tier := flag.String("tier", "quick", "quick|thorough")
	only := flag.String("harness", "", "run only this harness (comma separated)")
	workers := flag.Int("workers", 16, "worker count")
	debug := flag.Bool("debug", false, "debug output")
	noReplay := flag.Bool("noreplay", false, "skip native replays")
	out := flag.String("out", "", "root for evidence/, replays and work files (default: the verification root); used for runs against modified trees")
	selftest := flag.Bool("selftest", false, "run solver self test")
	flag.Parse()
	if *selftest {
		os.Exit(solverSelfTest())
	}
	if *prop == "" {
		fmt.Fprintln(os.Stderr, "usage: symgo -prop Cnn [-tier quick|thorough]")
		os.Exit(2)
	}
	outRoot = *out
	if outRoot == "" {
		outRoot = *verif
	}
	os.Exit(runProperty(*repo, *verif, *prop, *tier, *only, *workers, *debug, *noReplay))
}

// outRoot: where evidence, replay files and scratch build output go
var outRoot string

func runProperty(repo, verif, prop, tier, only string, workers int, debug, noReplay bool) int {
	t0 := time.Now()
	evPath := filepath.Join(outRoot, "evidence", prop+".json")
	os.MkdirAll(filepath.Dir(evPath), 0o755)
	os.MkdirAll(filepath.Dir(evPath), 0o755)
	L, err := Load(repo, verif, prop)
	if err != nil {
		fmt.Printf("INCONCLUSIVE property=%s load failed: %v\n", prop, err)
		writeEvidence(evPath, prop, tier, nil, nil, time.Since(t0), []string{"load failed: " + err.Error()}, nil)
		return 2
	}
	fmt.Printf("loaded %d harness(es) for %s in %.1fs\n", len(L.Harnesses), prop, time.Since(t0).Seconds())
	var hs []*Harness
	onlySet := map[string]bool{}
	for _, n := range strings.Split(only, ",") {
		if n != "" {
			onlySet[n] = true
		}
	}
	for _, h := range L.Harnesses {
		if !h.Tiers[tier] {
			continue
		}
		if len(onlySet) > 0 && !onlySet[h.Name] {
			continue
		}
		if tier == "thorough" {
			if v, ok := h.Opts["t_unwind"]; ok {
				h.Unwind = atoiDef(v, h.Unwind)
			}
			if v, ok := h.Opts["t_preempt"]; ok {
				h.Preempt = atoiDef(v, h.Preempt)
			}
		}
		h.Opts["tier"] = tier
		hs = append(hs, h)
	}
	if len(hs) == 0 {
		fmt.Printf("INCONCLUSIVE property=%s no harness for tier %s\n", prop, tier)
		writeEvidence(evPath, prop, tier, nil, nil, time.Since(t0), []string{"no harness"}, nil)
		return 2
	}
	sem := make(chan struct{}, workers)
	results := make([]*HarnessResult, len(hs))
	var wg sync.WaitGroup
	for i, h := range hs {
		wg.Add(1)
		go func(i int, h *Harness) {
			defer wg.Done()
			results[i] = runHarness(L, h, sem, workers, debug)
		}(i, h)
	}
	wg.Wait()
	known := loadKnown(filepath.Join(verif, "known_findings.json"))
	knownPrinted := map[*KnownEntry]bool{}
	rp := &Replayer{repo: repo, verif: verif, prop: prop, L: L}
	exit := 0
	var inconcl []string
	nviol := 0
	validated := 0
	for _, r := range results {
		st := r.Stats
		fmt.Printf("harness %-28s paths=%d steps=%d decisions=%d queries=%d (sat %d unsat %d unknown %d) solver=%.1fs wall=%.1fs workers=%d\n",
			r.H.Name, st.Paths, st.Steps, st.Decisions, r.Queries, r.NSat, r.NUnsat, r.NUnknown, r.SolverWall.Seconds(), r.Wall.Seconds(), r.Workers)
		if r.Err != "" {
			fmt.Printf("  ENGINE-ERROR %s\n", r.Err)
			inconcl = append(inconcl, r.H.Name+": engine error: "+r.Err)
		}
		for _, w := range st.Inconclusive {
			fmt.Printf("  INCONCLUSIVE %s: %s\n", r.H.Name, w)
			inconcl = append(inconcl, r.H.Name+": "+w)
		}
		if len(st.Covers) == 0 && r.Err == "" {
			msg := r.H.Name + ": no cover point reached (vacuous harness?)"
			fmt.Printf("  INCONCLUSIVE %s\n", msg)
			inconcl = append(inconcl, msg)
		}
		if want := r.H.Opts["covers"]; want != "" {
			for _, c := range strings.Split(want, ",") {
				if st.Covers[c] == 0 {
					msg := r.H.Name + ": cover point " + c + " not reached"
					fmt.Printf("  INCONCLUSIVE %s\n", msg)
					inconcl = append(inconcl, msg)
				}
			}
		}
		// witness replays
		if !noReplay && r.H.Opts["witness"] != "off" {
			ids := make([]string, 0, len(r.Covers))
			for id := range r.Covers {
				ids = append(ids, id)
			}
			sort.Strings(ids)
			for _, id := range ids {
				w := r.Covers[id]
				out, err := rp.Replay(r.H, w, "witness-"+id)
				if err != nil {
					msg := fmt.Sprintf("%s: witness replay for cover %s failed to run: %v", r.H.Name, id, err)
					fmt.Printf("  INCONCLUSIVE %s\n", msg)
					inconcl = append(inconcl, msg)
					continue
				}
				if out.Outcome == "ok" && out.Covers[id] > 0 {
					validated++
				} else if r.H.Opts["witness"] == "lenient" {
					fmt.Printf("  note: witness %s of %s natively gave outcome=%s covers=%v (lenient)\n", id, r.H.Name, out.Outcome, out.Covers)
				} else {
					msg := fmt.Sprintf("ENCODING-MISMATCH %s: witness for cover %s natively gave outcome=%s covers=%v missing=%v (replay %s)", r.H.Name, id, out.Outcome, out.Covers, out.Missing, w.ReplayFile)
					fmt.Printf("  %s\n", msg)
					inconcl = append(inconcl, msg)
				}
			}
		}
		for _, f := range r.Findings {
			if !noReplay {
				out, err := rp.Replay(r.H, f, "cex-"+f.Assertion+"-"+f.Site)
				if err != nil {
					f.Confirmed = "replay-error: " + err.Error()
				} else if matchOutcome(f, out) {
					f.Confirmed = "confirmed"
				} else if strings.HasPrefix(out.Outcome, "assert:") && f.Kind != "race" {
					// the same inputs and schedule make ANOTHER assertion of this harness fail first on the real build
					// (the engine reports one failing assertion per path, the native run stops at its first): the
					// violation is real and reproduces; the replay file names the assertion that failed natively
					f.Msg += " (native run fails " + out.Outcome + " first)"
					f.Confirmed = "confirmed"
				} else {
					f.Confirmed = "unconfirmed: native outcome " + out.Outcome + " " + firstLineWith(out.Raw, "VERIF-SCHED")
				}
			} else {
				f.Confirmed = "not-replayed"
			}
			if k := known.match(prop, f); k != nil {
				f.Known = true
				if !knownPrinted[k] {
					knownPrinted[k] = true
					fmt.Printf("KNOWN-FINDING: property=%s %s\n", prop, k.What)
				}
				fmt.Printf("  known: harness=%s assertion=%s site=%s replay=%s\n", f.Harness, f.Assertion, f.Site, f.Confirmed)
				continue
			}
			switch {
			case f.Confirmed == "confirmed":
				nviol++
				exit = 1
				fmt.Printf("VIOLATION property=%s replay=%s\n", prop, f.ReplayFile)
				fmt.Printf("  harness=%s kind=%s assertion=%s site=%s msg=%s\n  inputs=%s\n", f.Harness, f.Kind, f.Assertion, f.Site, f.Msg, compactJSON(f.Inputs))
			case f.Confirmed == "not-replayed":
				fmt.Printf("COUNTEREXAMPLE (not replayed) harness=%s kind=%s assertion=%s site=%s msg=%s\n  inputs=%s\n", f.Harness, f.Kind, f.Assertion, f.Site, f.Msg, compactJSON(f.Inputs))
				inconcl = append(inconcl, "counterexample not replayed: "+f.Assertion)
			default:
				msg := fmt.Sprintf("UNCONFIRMED property=%s harness=%s assertion=%s site=%s (%s) replay=%s", prop, f.Harness, f.Assertion, f.Site, f.Confirmed, f.ReplayFile)
				fmt.Println(msg)
				fmt.Printf("  inputs=%s\n", compactJSON(f.Inputs))
				inconcl = append(inconcl, msg)
			}
		}
	}
	rp.Cleanup()
	if exit == 0 && len(inconcl) > 0 {
		exit = 2
	}
	writeEvidence(evPath, prop, tier, hs, results, time.Since(t0), inconcl, &evExtra{validated: validated, violations: nviol})
	switch exit {
	case 0:
		fmt.Printf("PASS property=%s tier=%s wall=%.1fs\n", prop, tier, time.Since(t0).Seconds())
	case 2:
		fmt.Printf("INCONCLUSIVE property=%s tier=%s (%d reasons)\n", prop, tier, len(inconcl))
	}
	return exit
}

func compactJSON(v interface{}) string {
	b, _ := json.Marshal(v)
	if len(b) > 1500 {
		return string(b[:1500]) + "..."
	}
	return string(b)
}

func matchOutcome(f *Finding, out *ReplayOutcome) bool {
	switch f.Kind {
	case "assert":
		return out.Outcome == "assert:"+f.Assertion
	case "panic":
		return strings.HasPrefix(out.Outcome, "panic:")
	case "deadlock", "hang":
		return out.Outcome == "timeout"
	case "race":
		// replayed with the Go race detector on the real build: confirmed when it reports a race
		return strings.Contains(out.Raw, "WARNING: DATA RACE")
	}
	return false
}

package main

import (
	"crypto/sha256"
	"encoding/json"
	"fmt"
	"os"
	"sort"
	"strings"
	"time"

	"golang.org/x/tools/go/ssa"
)

type KnownEntry struct {
	Property  string `json:"property"`
	Harness   string `json:"harness"`
	Assertion string `json:"assertion"`
	Site      string `json:"site"`
	What      string `json:"what"`
}

type FixedEntry struct {
	Property string `json:"property"`
	Commit   string `json:"commit"`
	What     string `json:"what"`
}

type KnownFile struct {
	Known []KnownEntry `json:"known"`
	Fixed []FixedEntry `json:"fixed"`
}

func loadKnown(path string) *KnownFile {
	k := &KnownFile{}
	b, err := os.ReadFile(path)
	if err != nil {
		return k
	}
	json.Unmarshal(b, k)
	return k
}

// match: a finding is known only if property, harness, assertion id and failing site (file, not line) all match.
func (k *KnownFile) match(prop string, f *Finding) *KnownEntry {
	for i := range k.Known {
		e := &k.Known[i]
		if e.Property != prop || e.Harness != f.Harness || (e.Assertion != f.Assertion && e.Assertion != "*") {
			continue
		}
		if e.Site != "" && !strings.HasPrefix(f.Site, e.Site) {
			continue
		}
		return e
	}
	return nil
}

type evExtra struct {
	validated  int
	violations int
}

func fnHash(fn *ssa.Function) string {
	var sb strings.Builder
	fn.WriteTo(&sb)
	h := sha256.Sum256([]byte(sb.String()))
	return fmt.Sprintf("%x", h[:6])
}

func writeEvidence(path, prop, tier string, hs []*Harness, results []*HarnessResult, wall time.Duration, inconcl []string, ex *evExtra) {
	seed := 0
	fmt.Sscan(os.Getenv("VERIF_SEED"), &seed)
	cov := map[string]interface{}{}
	states, transitions, queries, unsat, sat, unknown := 0, 0, 0, 0, 0, 0
	var solverS float64
	var samples []interface{}
	var hsum []interface{}
	var assumptions []string
	allFuncs := map[string]int{}
	for _, r := range results {
		if r == nil {
			continue
		}
		states += r.Stats.Paths
		transitions += r.Stats.Decisions + r.Stats.Steps
		queries += r.Queries
		unsat += r.NUnsat
		sat += r.NSat
		unknown += r.NUnknown
		solverS += r.SolverWall.Seconds()
		bounds := map[string]interface{}{"unwind": r.H.Unwind, "threads": r.H.Threads, "preemptions": r.H.Preempt, "solver": r.H.Solver}
		for k, v := range r.H.Opts {
			if strings.HasPrefix(k, "b_") {
				bounds[k[2:]] = v
			}
		}
		fnames := make([]string, 0, len(r.Stats.Funcs))
		for fn := range r.Stats.Funcs {
			fnames = append(fnames, fn)
		}
		sort.Strings(fnames)
		for _, fn := range fnames {
			allFuncs[fn] += r.Stats.Funcs[fn]
		}
		hsum = append(hsum, map[string]interface{}{
			"functions_encoded": fnames,
			"harness": r.H.Name, "file": r.H.File, "entry": r.H.Fn.String(), "entry_hash": fnHash(r.H.Fn), "bounds": bounds,
			"paths": r.Stats.Paths, "instructions": r.Stats.Steps, "decisions": r.Stats.Decisions, "sched_points": r.Stats.SchedPoints,
			"queries": r.Queries, "unsat": r.NUnsat, "sat": r.NSat, "unknown": r.NUnknown, "solver_s": round2(r.SolverWall.Seconds()), "max_query_s": round2(r.MaxQuery.Seconds()), "query_timeout_s": r.H.Opts["qtimeout"],
			"wall_s": round2(r.Wall.Seconds()), "assertions_discharged": r.Stats.Asserts, "covers": r.Stats.Covers, "stubs": r.H.Stubs,
			"truncated": r.Stats.Truncated, "workers": r.Workers,
		})
		ids := make([]string, 0, len(r.Covers))
		for id := range r.Covers {
			ids = append(ids, id)
		}
		sort.Strings(ids)
		for i, id := range ids {
			if i >= 2 {
				break
			}
			w := r.Covers[id]
			samples = append(samples, map[string]interface{}{"harness": r.H.Name, "kind": "witness path (model of the path condition at cover point)", "cover": id, "inputs": w.Inputs, "schedule": w.Schedule})
		}
		for _, f := range r.Findings {
			samples = append(samples, map[string]interface{}{"harness": r.H.Name, "kind": "counterexample", "assertion": f.Assertion, "site": f.Site, "inputs": f.Inputs,
				"schedule": f.Schedule, "replay": f.Confirmed, "known": f.Known})
		}
		for callee, st := range r.H.Stubs {
			assumptions = append(assumptions, fmt.Sprintf("%s: %s replaced by contract stub %s", r.H.Name, callee, st))
		}
		if n, ok := r.H.Opts["assume"]; ok {
			assumptions = append(assumptions, r.H.Name+": "+strings.ReplaceAll(n, "_", " "))
		}
	}
	if len(samples) == 0 {
		samples = append(samples, "no path completed")
	}
	if states == 0 {
		states = 1
	}
	if transitions == 0 {
		transitions = 1
	}
	cov["states"] = states
	cov["transitions"] = transitions
	cov["traces_validated_against_impl"] = 0
	if ex != nil {
		cov["traces_validated_against_impl"] = ex.validated
	}
	cov["samples"] = samples
	cov["harnesses"] = hsum
	cov["functions_encoded"] = allFuncs // repository functions executed symbolically from their SSA, with the number of times entered
	cov["solver_queries"] = queries
	cov["solver_unsat"] = unsat
	cov["solver_sat"] = sat
	cov["solver_unknown"] = unknown
	cov["solver_wall_s"] = round2(solverS)
	cov["inconclusive"] = inconcl
	cov["exhaustive"] = len(inconcl) == 0
	cov["explanation"] = "states = symbolic paths (path-condition classes) explored to completion inside the stated bounds; transitions = decisions + SSA instructions interpreted; every assertion on every path was sent to the solver; traces_validated = witness models re-run natively on the real build with the same harness"
	sort.Strings(assumptions)
	assumptions = append(assumptions,
		"bounded: only inputs/schedules inside the harness bounds (unwind, lengths, threads, preemptions) are covered",
		"code outside /repo is replaced by intrinsics, Go models or contract stubs as listed; cryptographic primitives are idealised",
		"path exploration granularity for threads: synchronisation operations (sound for data-race-free code)")
	ev := map[string]interface{}{
		"property_id": prop, "tier": tier, "seed": seed, "level": "model_checking", "coverage": cov,
		"assumptions": assumptions, "wall_s": round2(wall.Seconds()), "violations": 0,
	}
	if ex != nil {
		ev["violations"] = ex.violations
	}
	b, _ := json.MarshalIndent(ev, "", " ")
	os.WriteFile(path, b, 0o644)
}

func round2(f float64) float64 { return float64(int(f*100)) / 100 }

package main

// Intrinsics for sync, sync/atomic written from the Go memory model and the package documentation.
// sync.Mutex is unfair (every waiter is woken at Unlock and races for the lock); RWMutex blocks new readers behind
// a waiting writer.

import (
	"fmt"
	"go/types"
)

func (m *Machine) sst(c *Cell) *syncState {
	s := m.syncSt[c]
	if s == nil {
		s = &syncState{holder: -1}
		m.syncSt[c] = s
	}
	return s
}

func ptrCell(v Value, what string) *Cell {
	p, ok := v.(Ptr)
	if !ok || p.c == nil {
		panic(&goPanic{kind: "nil dereference (" + what + ")"})
	}
	return p.c
}

func (m *Machine) wakeAll(s *syncState) {
	for _, t := range s.waiters {
		m.wakeThread(t)
	}
	s.waiters = nil
}

func (m *Machine) acquireHB(th *Thread, s *syncState) { th.vc = m.vcJoin(th.vc, s.vc) }
func (m *Machine) releaseHB(th *Thread, s *syncState) {
	s.vc = m.vcJoin(s.vc, th.vc)
	m.vcTick(th)
}

func fieldByName(c *Cell, name string) *Cell {
	st := c.typ.Underlying().(*types.Struct)
	for i := 0; i < st.NumFields(); i++ {
		if st.Field(i).Name() == name {
			return c.fields[i]
		}
	}
	panic("no field " + name + " in " + c.typ.String())
}

func addSync(T map[string]intrinsic) {
	lock := func(m *Machine, th *Thread, fr *Frame, f FuncV, a []Value) (Value, invStatus) {
		if m.needYield(th, "Lock") {
			return nil, invYield
		}
		s := m.sst(ptrCell(a[0], "Mutex.Lock"))
		if s.locked || s.readers > 0 {
			s.wwaiting++
			s.waiters = append(s.waiters, th)
			m.block(th, fmt.Sprintf("Lock at %s", m.curSite))
			th.wasWaitingW = true
			return nil, invYield
		}
		if th.wasWaitingW {
			th.wasWaitingW = false
		}
		s.locked = true
		s.holder = th.id
		m.acquireHB(th, s)
		return done(nil)
	}
	unlock := func(m *Machine, th *Thread, fr *Frame, f FuncV, a []Value) (Value, invStatus) {
		if m.needYield(th, "Unlock") {
			return nil, invYield
		}
		s := m.sst(ptrCell(a[0], "Mutex.Unlock"))
		if !s.locked {
			panic(&goPanic{kind: "sync: unlock of unlocked mutex"})
		}
		s.locked = false
		s.holder = -1
		m.releaseHB(th, s)
		s.wwaiting = 0
		m.wakeAll(s)
		return done(nil)
	}
	T["(*sync.Mutex).Lock"] = lock
	T["(*sync.Mutex).Unlock"] = unlock
	T["(*sync.RWMutex).Lock"] = lock
	T["(*sync.RWMutex).Unlock"] = unlock
	T["(*sync.Mutex).TryLock"] = func(m *Machine, th *Thread, fr *Frame, f FuncV, a []Value) (Value, invStatus) {
		if m.needYield(th, "TryLock") {
			return nil, invYield
		}
		s := m.sst(ptrCell(a[0], "Mutex.TryLock"))
		if s.locked || s.readers > 0 {
			return done(m.tt.ff)
		}
		s.locked = true
		s.holder = th.id
		m.acquireHB(th, s)
		return done(m.tt.tt)
	}
	T["(*sync.RWMutex).RLock"] = func(m *Machine, th *Thread, fr *Frame, f FuncV, a []Value) (Value, invStatus) {
		if m.needYield(th, "RLock") {
			return nil, invYield
		}
		s := m.sst(ptrCell(a[0], "RWMutex.RLock"))
		if s.locked || s.wwaiting > 0 {
			s.waiters = append(s.waiters, th)
			m.block(th, fmt.Sprintf("RLock at %s", m.curSite))
			return nil, invYield
		}
		s.readers++
		m.acquireHB(th, s)
		return done(nil)
	}
	T["(*sync.RWMutex).RUnlock"] = func(m *Machine, th *Thread, fr *Frame, f FuncV, a []Value) (Value, invStatus) {
		if m.needYield(th, "RUnlock") {
			return nil, invYield
		}
		s := m.sst(ptrCell(a[0], "RWMutex.RUnlock"))
		if s.readers <= 0 {
			panic(&goPanic{kind: "sync: RUnlock of unlocked RWMutex"})
		}
		s.readers--
		m.releaseHB(th, s)
		if s.readers == 0 {
			s.wwaiting = 0
			m.wakeAll(s)
		}
		return done(nil)
	}
	T["(*sync.RWMutex).TryLock"] = T["(*sync.Mutex).TryLock"]
	T["(*sync.RWMutex).TryRLock"] = func(m *Machine, th *Thread, fr *Frame, f FuncV, a []Value) (Value, invStatus) {
		if m.needYield(th, "TryRLock") {
			return nil, invYield
		}
		s := m.sst(ptrCell(a[0], "RWMutex.TryRLock"))
		if s.locked || s.wwaiting > 0 {
			return done(m.tt.ff)
		}
		s.readers++
		m.acquireHB(th, s)
		return done(m.tt.tt)
	}
	// WaitGroup
	T["(*sync.WaitGroup).Add"] = func(m *Machine, th *Thread, fr *Frame, f FuncV, a []Value) (Value, invStatus) {
		if m.needYield(th, "WaitGroup.Add") {
			return nil, invYield
		}
		s := m.sst(ptrCell(a[0], "WaitGroup.Add"))
		d := int64(m.concretize(a[1].(*Term)))
		s.count += d
		if s.count < 0 {
			panic(&goPanic{kind: "sync: negative WaitGroup counter"})
		}
		m.releaseHB(th, s)
		if s.count == 0 {
			m.wakeAll(s)
		}
		return done(nil)
	}
	T["(*sync.WaitGroup).Done"] = func(m *Machine, th *Thread, fr *Frame, f FuncV, a []Value) (Value, invStatus) {
		if m.needYield(th, "WaitGroup.Done") {
			return nil, invYield
		}
		s := m.sst(ptrCell(a[0], "WaitGroup.Done"))
		s.count--
		if s.count < 0 {
			panic(&goPanic{kind: "sync: negative WaitGroup counter"})
		}
		m.releaseHB(th, s)
		if s.count == 0 {
			m.wakeAll(s)
		}
		return done(nil)
	}
	T["(*sync.WaitGroup).Wait"] = func(m *Machine, th *Thread, fr *Frame, f FuncV, a []Value) (Value, invStatus) {
		if m.needYield(th, "WaitGroup.Wait") {
			return nil, invYield
		}
		s := m.sst(ptrCell(a[0], "WaitGroup.Wait"))
		if s.count > 0 {
			s.waiters = append(s.waiters, th)
			m.block(th, fmt.Sprintf("WaitGroup.Wait at %s", m.curSite))
			return nil, invYield
		}
		m.acquireHB(th, s)
		return done(nil)
	}
	// Once
	T["(*sync.Once).Do"] = func(m *Machine, th *Thread, fr *Frame, f FuncV, a []Value) (Value, invStatus) {
		if m.needYield(th, "Once.Do") {
			return nil, invYield
		}
		s := m.sst(ptrCell(a[0], "Once.Do"))
		if s.onceDone {
			m.acquireHB(th, s)
			return done(nil)
		}
		if s.onceRunning {
			s.waiters = append(s.waiters, th)
			m.block(th, "Once.Do")
			return nil, invYield
		}
		s.onceRunning = true
		m.pushFrame(th, a[1].(FuncV), nil, nil, func(Value) {
			s.onceDone = true
			s.onceRunning = false
			m.releaseHB(th, s)
			m.wakeAll(s)
		})
		return nil, invPushed
	}
	// Pool: Get returns a fresh New() object or any object previously Put; Put havocs the contents of byte buffers
	T["(*sync.Pool).Get"] = func(m *Machine, th *Thread, fr *Frame, f FuncV, a []Value) (Value, invStatus) {
		pc := ptrCell(a[0], "Pool.Get")
		ps := m.poolSt[pc]
		if ps == nil {
			ps = &poolState{}
			m.poolSt[pc] = ps
		}
		k := 0
		if len(ps.items) > 0 {
			k = m.decide(len(ps.items)+1, nil)
		}
		if k > 0 {
			it := ps.items[k-1]
			ps.items = append(append([]Value{}, ps.items[:k-1]...), ps.items[k:]...)
			m.poolUnrelease(it)
			return done(it)
		}
		nf := fieldByName(pc, "New").v.(FuncV)
		if nf.fn == nil {
			return done(IfaceV{})
		}
		m.pushFrame(th, nf, nil, nil, nil)
		return nil, invPushed
	}
	T["(*sync.Pool).Put"] = func(m *Machine, th *Thread, fr *Frame, f FuncV, a []Value) (Value, invStatus) {
		pc := ptrCell(a[0], "Pool.Put")
		ps := m.poolSt[pc]
		if ps == nil {
			ps = &poolState{}
			m.poolSt[pc] = ps
		}
		m.poolRelease(a[1])
		ps.items = append(ps.items, a[1])
		return done(nil)
	}
	addAtomic(T)
}

// poolRelease marks the buffer reachable from a pooled value as released and havocs byte contents.
func (m *Machine) poolRelease(v Value) {
	var c *Cell
	switch x := v.(type) {
	case IfaceV:
		m.poolRelease(x.v)
		return
	case Ptr:
		c = x.c
		if c != nil && c.kind == cScalar {
			if sv, ok := c.v.(SliceV); ok {
				m.poolRelease(sv)
			}
		}
	case SliceV:
		c = x.c
	}
	if c == nil {
		return
	}
	c.root.released = true
	if c.kind == cBytes {
		m.havocSeq++
		c.arr = ArrBase{m.tt.ArrVarT(fmt.Sprintf("havoc_pool#%d", m.havocSeq), c.ew)}
	}
}

func (m *Machine) poolUnrelease(v Value) {
	switch x := v.(type) {
	case IfaceV:
		m.poolUnrelease(x.v)
	case Ptr:
		if x.c != nil {
			x.c.root.released = false
			if x.c.kind == cScalar {
				if sv, ok := x.c.v.(SliceV); ok {
					m.poolUnrelease(sv)
				}
			}
		}
	case SliceV:
		if x.c != nil {
			x.c.root.released = false
		}
	}
}

func addAtomic(T map[string]intrinsic) {
	// typed atomics: struct with field v
	for _, tn := range []string{"Int32", "Int64", "Uint32", "Uint64", "Bool", "Uintptr"} {
		tn := tn
		pre := "(*sync/atomic." + tn + ")."
		vcell := func(a Value) *Cell { return fieldByName(ptrCell(a, "atomic"), "v") }
		T[pre+"Load"] = func(m *Machine, th *Thread, fr *Frame, f FuncV, a []Value) (Value, invStatus) {
			if m.needYield(th, "atomic.Load") {
				return nil, invYield
			}
			c := vcell(a[0])
			m.atomicHB(th, c, false)
			v := c.v.(*Term)
			if tn == "Bool" {
				return done(m.tt.Ne(v, m.tt.BV(0, 32)))
			}
			return done(v)
		}
		T[pre+"Store"] = func(m *Machine, th *Thread, fr *Frame, f FuncV, a []Value) (Value, invStatus) {
			if m.needYield(th, "atomic.Store") {
				return nil, invYield
			}
			c := vcell(a[0])
			m.atomicHB(th, c, true)
			v := a[1].(*Term)
			if tn == "Bool" {
				v = m.tt.BoolBV(v, 32)
			}
			c.v = v
			return done(nil)
		}
		T[pre+"Swap"] = func(m *Machine, th *Thread, fr *Frame, f FuncV, a []Value) (Value, invStatus) {
			if m.needYield(th, "atomic.Swap") {
				return nil, invYield
			}
			c := vcell(a[0])
			m.atomicHB(th, c, true)
			old := c.v.(*Term)
			v := a[1].(*Term)
			if tn == "Bool" {
				v = m.tt.BoolBV(v, 32)
				c.v = v
				return done(m.tt.Ne(old, m.tt.BV(0, 32)))
			}
			c.v = v
			return done(old)
		}
		T[pre+"Add"] = func(m *Machine, th *Thread, fr *Frame, f FuncV, a []Value) (Value, invStatus) {
			if m.needYield(th, "atomic.Add") {
				return nil, invYield
			}
			c := vcell(a[0])
			m.atomicHB(th, c, true)
			nv := m.tt.Bin(OpAdd, c.v.(*Term), a[1].(*Term))
			c.v = nv
			return done(nv)
		}
		T[pre+"CompareAndSwap"] = func(m *Machine, th *Thread, fr *Frame, f FuncV, a []Value) (Value, invStatus) {
			if m.needYield(th, "atomic.CAS") {
				return nil, invYield
			}
			c := vcell(a[0])
			m.atomicHB(th, c, true)
			old, nw := a[1].(*Term), a[2].(*Term)
			if tn == "Bool" {
				old, nw = m.tt.BoolBV(old, 32), m.tt.BoolBV(nw, 32)
			}
			if m.truth(m.tt.Eq(c.v.(*Term), old)) {
				c.v = nw
				return done(m.tt.tt)
			}
			return done(m.tt.ff)
		}
	}
	// function forms on plain integers
	for _, tn := range []string{"Int32", "Int64", "Uint32", "Uint64"} {
		T["sync/atomic.Load"+tn] = func(m *Machine, th *Thread, fr *Frame, f FuncV, a []Value) (Value, invStatus) {
			if m.needYield(th, "atomic.Load") {
				return nil, invYield
			}
			p := a[0].(Ptr)
			m.atomicHB(th, ptrCell(p, "atomic"), false)
			return done(m.loadCell(p.c, p.idx))
		}
		T["sync/atomic.Store"+tn] = func(m *Machine, th *Thread, fr *Frame, f FuncV, a []Value) (Value, invStatus) {
			if m.needYield(th, "atomic.Store") {
				return nil, invYield
			}
			p := a[0].(Ptr)
			m.atomicHB(th, ptrCell(p, "atomic"), true)
			m.storeCell(p.c, p.idx, a[1])
			return done(nil)
		}
		T["sync/atomic.Add"+tn] = func(m *Machine, th *Thread, fr *Frame, f FuncV, a []Value) (Value, invStatus) {
			if m.needYield(th, "atomic.Add") {
				return nil, invYield
			}
			p := a[0].(Ptr)
			m.atomicHB(th, ptrCell(p, "atomic"), true)
			nv := m.tt.Bin(OpAdd, m.loadCell(p.c, p.idx).(*Term), a[1].(*Term))
			m.storeCell(p.c, p.idx, nv)
			return done(nv)
		}
		T["sync/atomic.CompareAndSwap"+tn] = func(m *Machine, th *Thread, fr *Frame, f FuncV, a []Value) (Value, invStatus) {
			if m.needYield(th, "atomic.CAS") {
				return nil, invYield
			}
			p := a[0].(Ptr)
			m.atomicHB(th, ptrCell(p, "atomic"), true)
			if m.truth(m.tt.Eq(m.loadCell(p.c, p.idx).(*Term), a[1].(*Term))) {
				m.storeCell(p.c, p.idx, a[2])
				return done(m.tt.tt)
			}
			return done(m.tt.ff)
		}
	}
	// atomic.Pointer[T] and atomic.Value
	T["(*sync/atomic.Pointer[T]).Load"] = func(m *Machine, th *Thread, fr *Frame, f FuncV, a []Value) (Value, invStatus) {
		if m.needYield(th, "atomic.Load") {
			return nil, invYield
		}
		c := fieldByName(ptrCell(a[0], "atomic.Pointer"), "v")
		m.atomicHB(th, c, false)
		if p, ok := c.v.(Ptr); ok {
			return done(p)
		}
		return done(Ptr{})
	}
	T["(*sync/atomic.Pointer[T]).Store"] = func(m *Machine, th *Thread, fr *Frame, f FuncV, a []Value) (Value, invStatus) {
		if m.needYield(th, "atomic.Store") {
			return nil, invYield
		}
		c := fieldByName(ptrCell(a[0], "atomic.Pointer"), "v")
		m.atomicHB(th, c, true)
		c.v = a[1]
		return done(nil)
	}
	T["(*sync/atomic.Pointer[T]).Swap"] = func(m *Machine, th *Thread, fr *Frame, f FuncV, a []Value) (Value, invStatus) {
		if m.needYield(th, "atomic.Swap") {
			return nil, invYield
		}
		c := fieldByName(ptrCell(a[0], "atomic.Pointer"), "v")
		m.atomicHB(th, c, true)
		old, ok := c.v.(Ptr)
		if !ok {
			old = Ptr{}
		}
		c.v = a[1]
		return done(old)
	}
	T["(*sync/atomic.Pointer[T]).CompareAndSwap"] = func(m *Machine, th *Thread, fr *Frame, f FuncV, a []Value) (Value, invStatus) {
		if m.needYield(th, "atomic.CAS") {
			return nil, invYield
		}
		c := fieldByName(ptrCell(a[0], "atomic.Pointer"), "v")
		m.atomicHB(th, c, true)
		old, ok := c.v.(Ptr)
		if !ok {
			old = Ptr{}
		}
		if m.truth(m.equal(old, a[1])) {
			c.v = a[2]
			return done(m.tt.tt)
		}
		return done(m.tt.ff)
	}
	T["(*sync/atomic.Value).Load"] = func(m *Machine, th *Thread, fr *Frame, f FuncV, a []Value) (Value, invStatus) {
		if m.needYield(th, "atomic.Load") {
			return nil, invYield
		}
		c := fieldByName(ptrCell(a[0], "atomic.Value"), "v")
		m.atomicHB(th, c, false)
		return done(c.v)
	}
	T["(*sync/atomic.Value).Store"] = func(m *Machine, th *Thread, fr *Frame, f FuncV, a []Value) (Value, invStatus) {
		if m.needYield(th, "atomic.Store") {
			return nil, invYield
		}
		c := fieldByName(ptrCell(a[0], "atomic.Value"), "v")
		m.atomicHB(th, c, true)
		if iv := a[1].(IfaceV); iv.t == nil {
			panic(&goPanic{kind: "sync/atomic: store of nil value into Value"})
		}
		c.v = a[1]
		return done(nil)
	}
}

// atomicHB: atomics are sequentially consistent synchronisation: model as acquire+release on a per-cell clock.
func (m *Machine) atomicHB(th *Thread, c *Cell, write bool) {
	s := m.sst(c)
	th.vc = m.vcJoin(th.vc, s.vc)
	if write {
		s.vc = m.vcJoin(s.vc, th.vc)
		m.vcTick(th)
	}
}

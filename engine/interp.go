package main

import (
	"fmt"
	"runtime"
	"strings"
	"go/constant"
	"go/token"
	"go/types"

	"golang.org/x/tools/go/ssa"
)

func (m *Machine) pushFrame(th *Thread, f FuncV, args []Value, dst ssa.Value, onReturn func(Value)) *Frame {
	fn := f.fn
	m.L.ensureBuilt(fn)
	if fn.Blocks == nil {
		panic(unsupported("function without body: " + m.fnName(fn)))
	}
	if len(th.frames) > 400 {
		panic(unsupported("call depth > 400 in " + m.fnName(fn)))
	}
	fr := &Frame{fn: fn, block: fn.Blocks[0], env: make(map[ssa.Value]Value, 16), dst: dst, onReturn: onReturn}
	if m.stats.Funcs != nil {
		if name, ok := m.repoFuncName(fn); ok {
			m.stats.Funcs[name]++
		}
	}
	if len(th.frames) > 0 {
		fr.caller = th.frames[len(th.frames)-1]
		fr.tolerant = fr.caller.tolerant
	}
	if len(args) != len(fn.Params) {
		panic(fmt.Sprintf("arity mismatch calling %s: %d args for %d params", fn, len(args), len(fn.Params)))
	}
	for i, p := range fn.Params {
		fr.env[p] = args[i]
	}
	for i, fv := range fn.FreeVars {
		fr.env[fv] = f.bind[i]
	}
	th.frames = append(th.frames, fr)
	return fr
}

func (m *Machine) get(fr *Frame, v ssa.Value) Value {
	switch x := v.(type) {
	case *ssa.Const:
		return m.constValue(x)
	case *ssa.Global:
		return Ptr{c: m.globalCell(x)}
	case *ssa.Function:
		return FuncV{fn: x}
	case *ssa.Builtin:
		return FuncV{builtin: x}
	}
	val, ok := fr.env[v]
	if !ok {
		panic(fmt.Sprintf("value %s (%T) not defined in %s", v.Name(), v, fr.fn))
	}
	return val
}

func (m *Machine) constValue(c *ssa.Const) Value {
	t := c.Type()
	if c.Value == nil {
		return m.zeroValue(t)
	}
	if tp, ok := t.(*types.TypeParam); ok {
		_ = tp
		panic(unsupported("constant of type parameter type"))
	}
	if w, signed, ok := isScalarBasic(t); ok {
		if w == 0 {
			return m.tt.Bool(constant.BoolVal(c.Value))
		}
		if signed {
			i, _ := constant.Int64Val(constant.ToInt(c.Value))
			return m.tt.BV(uint64(i), w)
		}
		u, _ := constant.Uint64Val(constant.ToInt(c.Value))
		return m.tt.BV(u, w)
	}
	if b, ok := t.Underlying().(*types.Basic); ok {
		switch {
		case b.Info()&types.IsString != 0:
			return m.mkStr(constant.StringVal(c.Value))
		case b.Info()&types.IsFloat != 0:
			f, _ := constant.Float64Val(c.Value)
			return FloatV{f: f, isC: true}
		}
	}
	panic(unsupported("constant of type " + t.String()))
}

// step executes one instruction of the thread; returns true when the thread yields at a scheduling point.
func (m *Machine) step(th *Thread) (yielded bool) {
	if th.resumePanic {
		th.resumePanic = false
		m.continuePanic(th)
		return false
	}
	fr := th.frames[len(th.frames)-1]
	if fr.pc >= len(fr.block.Instrs) {
		panic(fmt.Sprintf("fell off block in %s", fr.fn))
	}
	in := fr.block.Instrs[fr.pc]
	m.curFn = fr.fn
	if p := in.Pos(); p.IsValid() {
		m.curPos = p
		cs, ok := m.siteCache[p]
		if !ok {
			cs = m.L.posStr(p)
			m.siteCache[p] = cs
		}
		m.curSite = cs
	}
	defer func() {
		if r := recover(); r != nil {
			switch e := r.(type) {
			case *goPanic:
				if e.site == "" {
					e.site = m.curSite
				}
				m.startPanic(th, e)
				yielded = false
			case *unsupportedErr:
				if fr.tolerant {
					// init mode: poison the result and go on
					if v, ok := in.(ssa.Value); ok {
						fr.env[v] = Poison{e.what}
					}
					if st, ok := in.(*ssa.Store); ok {
						func() {
							defer func() { recover() }()
							if p, ok := m.get(fr, st.Addr).(Ptr); ok && p.c != nil && p.c.kind == cScalar {
								p.c.v = Poison{e.what}
							}
						}()
					}
					fr.pc++
					yielded = false
					return
				}
				panic(r)
			case *pathEnd:
				panic(r)
			case runtime.Error:
				if !fr.tolerant {
					// an engine-level type error: almost always a value that could not be computed (poison) reaching an
					// operation; reported as UNSUPPORTED (inconclusive), never silently passed
					panic(unsupported("engine type error at " + m.curSite + ": " + e.Error()))
				}
				if v, ok := in.(ssa.Value); ok {
					fr.env[v] = Poison{e.Error()}
				}
				fr.pc++
				yielded = false
				return
			default:
				if fr.tolerant {
					if v, ok := in.(ssa.Value); ok {
						fr.env[v] = Poison{fmt.Sprint(r)}
					}
					if _, isRet := in.(*ssa.Return); isRet {
						m.doReturn(th, fr, Poison{fmt.Sprint(r)})
						yielded = false
						return
					}
					fr.pc++
					yielded = false
					return
				}
				panic(r)
			}
		}
	}()
	return m.exec(th, fr, in)
}

func (m *Machine) jump(fr *Frame, to *ssa.BasicBlock) {
	// Unwinding bound: iterations are counted per natural loop. An edge u -> h is a back edge iff h dominates u (one more
	// iteration of the loop headed by h); an edge into h from a block h does not dominate enters the loop afresh, so
	// its count starts again (an inner loop is bounded per entry, not across the iterations of the loops around it).
	if to.Dominates(fr.block) {
		if fr.loops == nil {
			fr.loops = map[int]int{}
		}
		fr.loops[to.Index]++
		if fr.loops[to.Index] > m.H.Unwind && !fr.tolerant && !m.inPersistentInit {
			m.stats.Truncated++
			if _, inRepo := m.repoFuncName(fr.fn); inRepo && m.H.Opts["nonterm"] == "violation" {
				// termination harness: a loop of the repository that is still running after the stated number of
				// iterations is reported as a hang (confirmed natively by a run that does not finish in time)
				m.report("hang", "terminates", m.curSite, fmt.Sprintf("loop in %s still running after %d iterations", fr.fn.Name(), m.H.Unwind), nil)
				panic(&pathEnd{"unwind"})
			}
			m.inconclusive(fmt.Sprintf("unwinding assertion failed at %s in %s (unwind=%d)", m.curSite, fr.fn.Name(), m.H.Unwind))
			panic(&pathEnd{"unwind"})
		}
	} else if fr.loops != nil {
		delete(fr.loops, to.Index)
	}
	// irreducible control flow (a cycle without a dominating header) is not seen by the rule above: overall cap
	fr.jumps++
	if fr.jumps > 200*m.H.Unwind+100000 && !fr.tolerant && !m.inPersistentInit {
		m.stats.Truncated++
		m.inconclusive(fmt.Sprintf("more than %d jumps in one activation of %s (unwind=%d)", fr.jumps, fr.fn.Name(), m.H.Unwind))
		panic(&pathEnd{"unwind"})
	}
	fr.prev = fr.block
	fr.block = to
	fr.pc = 0
}

func (m *Machine) exec(th *Thread, fr *Frame, in ssa.Instruction) bool {
	switch x := in.(type) {
	case *ssa.DebugRef:
		fr.pc++
	case *ssa.Alloc:
		c := m.newCell(x.Type().(*types.Pointer).Elem(), m.curSite)
		if m.isGhostFn(fr.fn) {
			c.ghost = true
		}
		fr.env[x] = Ptr{c: c}
		fr.pc++
	case *ssa.Phi:
		for i, p := range fr.block.Preds {
			if p == fr.prev {
				fr.env[x] = m.get(fr, x.Edges[i])
				break
			}
		}
		fr.pc++
	case *ssa.BinOp:
		fr.env[x] = m.binop(x.Op, m.get(fr, x.X), m.get(fr, x.Y), x.X.Type(), x.Y.Type())
		fr.pc++
	case *ssa.UnOp:
		if x.Op == token.ARROW {
			return m.execRecv(th, fr, x)
		}
		fr.env[x] = m.unop(x, m.get(fr, x.X))
		fr.pc++
	case *ssa.Store:
		p := m.get(fr, x.Addr).(Ptr)
		m.store(p, m.get(fr, x.Val), m.curSite)
		fr.pc++
	case *ssa.FieldAddr:
		p := m.get(fr, x.X).(Ptr)
		if p.c == nil {
			panic(&goPanic{kind: "nil dereference"})
		}
		if p.c.kind != cStruct {
			panic(fmt.Sprintf("FieldAddr on non-struct cell %v at %s", p.c.typ, m.curSite))
		}
		fr.env[x] = Ptr{c: p.c.fields[x.Field]}
		fr.pc++
	case *ssa.Field:
		s := m.get(fr, x.X).(StructV)
		fr.env[x] = s.f[x.Field]
		fr.pc++
	case *ssa.IndexAddr:
		fr.env[x] = m.indexAddr(m.get(fr, x.X), m.get(fr, x.Index).(*Term), x.Index.Type())
		fr.pc++
	case *ssa.Index:
		fr.env[x] = m.index(m.get(fr, x.X), m.get(fr, x.Index).(*Term), x.Index.Type())
		fr.pc++
	case *ssa.Lookup:
		fr.env[x] = m.lookup(m.get(fr, x.X), m.get(fr, x.Index), x)
		fr.pc++
	case *ssa.Slice:
		fr.env[x] = m.sliceOp(fr, x)
		fr.pc++
	case *ssa.MakeSlice:
		ln := m.toInt64(m.get(fr, x.Len).(*Term), x.Len.Type())
		cp := m.toInt64(m.get(fr, x.Cap).(*Term), x.Cap.Type())
		zero := m.tt.BV(0, 64)
		m.check(m.tt.And(m.tt.Cmp(OpSLE, zero, ln), m.tt.Cmp(OpSLE, ln, cp)), "makeslice: len out of range")
		if lim := uint64(1) << 31; true {
			m.check(m.tt.Cmp(OpULE, cp, m.tt.BV(lim, 64)), "makeslice: cap out of range")
		}
		et := x.Type().Underlying().(*types.Slice).Elem()
		if _, _, ok := bytesElem(et); !ok {
			cp = m.tt.BV(m.concretize(cp), 64)
			ln = m.tt.BV(m.concretize(ln), 64)
		}
		c := m.mkArrayCell(et, cp, m.curSite)
		if m.isGhostFn(fr.fn) {
			c.ghost = true
		}
		fr.env[x] = SliceV{c: c, off: zero, len: ln, cap: cp}
		fr.pc++
	case *ssa.MakeMap:
		mt := x.Type().Underlying().(*types.Map)
		m.nextObj++
		fr.env[x] = MapV{m: &MapObj{kt: mt.Key(), vt: mt.Elem(), id: m.nextObj, ghost: m.isGhostFn(fr.fn)}}
		fr.pc++
	case *ssa.MapUpdate:
		m.mapUpdate(m.get(fr, x.Map).(MapV), m.get(fr, x.Key), m.get(fr, x.Value))
		fr.pc++
	case *ssa.MakeChan:
		sz := m.concretize(m.toInt64(m.get(fr, x.Size).(*Term), x.Size.Type()))
		for pat, cc := range m.H.ChanCap {
			if int(sz) == cc[0] && wildMatch(pat, m.fnName(fr.fn)) {
				sz = uint64(cc[1])
			}
		}
		m.nextObj++
		fr.env[x] = ChanV{c: &ChanObj{cap: int(sz), id: m.nextObj, et: x.Type().Underlying().(*types.Chan).Elem(), site: m.curSite}}
		fr.pc++
	case *ssa.MakeClosure:
		f := FuncV{fn: x.Fn.(*ssa.Function)}
		for _, b := range x.Bindings {
			f.bind = append(f.bind, m.get(fr, b))
		}
		fr.env[x] = f
		fr.pc++
	case *ssa.MakeInterface:
		fr.env[x] = IfaceV{t: x.X.Type(), v: m.get(fr, x.X)}
		fr.pc++
	case *ssa.ChangeInterface:
		fr.env[x] = m.get(fr, x.X)
		fr.pc++
	case *ssa.ChangeType:
		fr.env[x] = m.get(fr, x.X)
		fr.pc++
	case *ssa.Convert:
		fr.env[x] = m.convert(m.get(fr, x.X), x.X.Type(), x.Type())
		fr.pc++
	case *ssa.SliceToArrayPointer:
		s := m.get(fr, x.X).(SliceV)
		at := x.Type().(*types.Pointer).Elem().Underlying().(*types.Array)
		m.check(m.tt.Cmp(OpSLE, m.tt.BV(uint64(at.Len()), 64), s.len), "slice to array pointer: length")
		panic(unsupported("SliceToArrayPointer"))
	case *ssa.TypeAssert:
		fr.env[x] = m.typeAssert(x, m.get(fr, x.X))
		fr.pc++
	case *ssa.Extract:
		fr.env[x] = m.get(fr, x.Tuple).(TupleV)[x.Index]
		fr.pc++
	case *ssa.Range:
		fr.env[x] = m.mkRange(fr, m.get(fr, x.X))
		fr.pc++
	case *ssa.Next:
		fr.env[x] = m.nextRange(m.get(fr, x.Iter).(*RangeIter), x)
		fr.pc++
	case *ssa.If:
		c := m.get(fr, x.Cond).(*Term)
		if m.truth(c) {
			m.jump(fr, fr.block.Succs[0])
		} else {
			m.jump(fr, fr.block.Succs[1])
		}
	case *ssa.Jump:
		m.jump(fr, fr.block.Succs[0])
	case *ssa.Return:
		var res Value
		switch len(x.Results) {
		case 0:
		case 1:
			res = m.get(fr, x.Results[0])
		default:
			tv := make(TupleV, len(x.Results))
			for i, r := range x.Results {
				tv[i] = m.get(fr, r)
			}
			res = tv
		}
		m.doReturn(th, fr, res)
	case *ssa.RunDefers:
		if len(fr.defers) > 0 {
			d := fr.defers[len(fr.defers)-1]
			fr.defers = fr.defers[:len(fr.defers)-1]
			m.deferPos = d.pos
			st := m.invoke(th, fr, d.fn, d.args, nil, true)
			m.deferPos = token.NoPos
			if st == invYield {
				fr.defers = append(fr.defers, d)
				return true
			}
			return false
		}
		fr.pc++
	case *ssa.Panic:
		v := m.get(fr, x.X)
		panic(&goPanic{kind: "explicit panic: " + m.describe(v), value: v})
	case *ssa.Defer:
		f, args := m.resolveCallee(fr, &x.Call)
		fr.defers = append(fr.defers, &deferred{fn: f, args: args, site: m.curSite, pos: x.Pos()})
		fr.pc++
	case *ssa.Go:
		f, args := m.resolveCallee(fr, &x.Call)
		if m.needYield(th, "go") {
			return true
		}
		nt := m.newThread(m.funcName(f))
		if th.nid >= 0 && m.L.Instr().schedSite(m.L.Fset, x.Pos()) != "" {
			nt.nid = m.nextNid
			m.nextNid++
		}
		// happens-before: go statement
		nt.vc = m.vcJoin(nt.vc, th.vc)
		m.vcTick(th)
		fr.pc++
		m.startThread(nt, f, args)
	case *ssa.Call:
		f, args := m.resolveCallee(fr, &x.Call)
		return m.invoke(th, fr, f, args, x, false) == invYield
	case *ssa.Send:
		return m.execSend(th, fr, x)
	case *ssa.Select:
		return m.execSelect(th, fr, x)
	default:
		panic(unsupported(fmt.Sprintf("instruction %T", in)))
	}
	return false
}

func (m *Machine) funcName(f FuncV) string {
	if f.fn != nil {
		return m.fnName(f.fn)
	}
	if f.builtin != nil {
		return f.builtin.Name()
	}
	return "native:" + f.native
}

func (m *Machine) startThread(nt *Thread, f FuncV, args []Value) {
	if f.fn == nil {
		panic(unsupported("go on non-SSA function " + m.funcName(f)))
	}
	// a go statement on a stubbed/intrinsic function: wrap through invoke on a synthetic frame is not needed in kit
	name := m.fnName(f.fn)
	if s, ok := m.stubFns[name]; ok {
		f = FuncV{fn: s}
	}
	m.pushFrame(nt, f, args, nil, nil)
}

func (m *Machine) doReturn(th *Thread, fr *Frame, res Value) {
	th.frames = th.frames[:len(th.frames)-1]
	if fr.onReturn != nil {
		fr.onReturn(res)
	}
	if len(th.frames) == 0 {
		th.done = true
		th.result = res
		m.vcTick(th)
		return
	}
	caller := th.frames[len(th.frames)-1]
	if fr.isDefer {
		// deferred call finished: the owner is either running its RunDefers instruction (stay on it) or unwinding
		if caller.unwinding {
			m.continuePanic(th)
		}
		return
	}
	if fr.dst != nil {
		caller.env[fr.dst] = res
	}
	caller.pc++
}

// ---------------------------------------------------------------------------------------------------------
// panics

func (m *Machine) startPanic(th *Thread, p *goPanic) {
	th.panicking = p
	m.continuePanic(th)
}

// continuePanic unwinds: runs the next deferred call of the top frame, or pops the frame. It is also the
// continuation after a deferred call returned in a frame that is unwinding.
func (m *Machine) continuePanic(th *Thread) {
	defer func() {
		if r := recover(); r != nil {
			if gp, ok := r.(*goPanic); ok {
				// a deferred intrinsic/builtin panicked: replaces the current panic
				th.panicking = gp
				m.continuePanic(th)
				return
			}
			panic(r)
		}
	}()
	for {
		if len(th.frames) == 0 {
			p := th.panicking
			th.done = true
			m.panicEscaped(th, p)
			return
		}
		fr := th.frames[len(th.frames)-1]
		fr.unwinding = true
		if len(fr.defers) > 0 {
			d := fr.defers[len(fr.defers)-1]
			fr.defers = fr.defers[:len(fr.defers)-1]
			m.deferPos = d.pos
			st := m.invoke(th, fr, d.fn, d.args, nil, true)
			m.deferPos = token.NoPos
			switch st {
			case invPushed:
				return
			case invYield:
				fr.defers = append(fr.defers, d)
				th.resumePanic = true
				return
			}
			continue
		}
		if th.panicking == nil {
			// recovered by one of this frame's deferred calls: return normally through the recover block
			fr.unwinding = false
			if fr.fn.Recover != nil {
				fr.prev = fr.block
				fr.block = fr.fn.Recover
				fr.pc = 0
				return
			}
			var res Value
			if r := fr.fn.Signature.Results(); r.Len() == 1 {
				res = m.zeroValue(r.At(0).Type())
			} else if r.Len() > 1 {
				res = m.zeroValue(r)
			}
			m.doReturn(th, fr, res)
			return
		}
		th.frames = th.frames[:len(th.frames)-1]
	}
}

func (m *Machine) panicEscaped(th *Thread, p *goPanic) {
	if p == nil {
		return
	}
	if m.H.PanicOK {
		// the harness treats panics as ordinary path ends
		panic(&pathEnd{"panic (accepted by harness)"})
	}
	id := "no_panic"
	m.report("panic", id, p.site, p.kind, nil)
	panic(&pathEnd{"panic"})
}

// check adds an implicit run-time check: if ok can be false the path forks into a panic outcome.
func (m *Machine) check(ok *Term, kind string) {
	if ok.IsTrue() {
		return
	}
	if !m.truth(ok) {
		panic(&goPanic{kind: kind, site: m.curSite})
	}
}

func (m *Machine) describe(v Value) string {
	switch x := v.(type) {
	case IfaceV:
		if x.t == nil {
			return "nil"
		}
		return typeStr(x.t) + ":" + m.describe(x.v)
	case StrV:
		if s, ok := m.strConcrete(x); ok {
			return fmt.Sprintf("%q", s)
		}
		return "<symbolic string>"
	case *Term:
		return x.String()
	case Ptr:
		if x.c == nil {
			return "nil"
		}
		if x.c.kind == cStruct && len(x.c.fields) > 0 {
			if s, ok := x.c.fields[0].v.(StrV); ok {
				return "&{" + m.describe(s) + "}"
			}
		}
		return fmt.Sprintf("&obj%d", x.c.id)
	case Opaque:
		return fmt.Sprintf("%s#%d", x.kind, x.id)
	}
	return fmt.Sprintf("%T", v)
}

// wildMatch: pattern with '*' wildcards against s.
func wildMatch(pat, s string) bool {
	parts := strings.Split(pat, "*")
	if len(parts) == 1 {
		return pat == s
	}
	if !strings.HasPrefix(s, parts[0]) {
		return false
	}
	s = s[len(parts[0]):]
	for i := 1; i < len(parts); i++ {
		p := parts[i]
		if i == len(parts)-1 {
			return strings.HasSuffix(s, p)
		}
		j := strings.Index(s, p)
		if j < 0 {
			return false
		}
		s = s[j+len(p):]
	}
	return true
}

// repoFuncName: the name of fn if it is code of the repository under test (not harness, runtime, model or stub code)
func (m *Machine) repoFuncName(fn *ssa.Function) (string, bool) {
	if n, ok := m.repoFn[fn]; ok {
		return n, n != ""
	}
	name := ""
	root := fn
	for root.Parent() != nil {
		root = root.Parent()
	}
	pkg := root.Pkg
	if pkg == nil && root.Origin() != nil {
		pkg = root.Origin().Pkg // an instantiation of a generic function belongs to the package of its origin
	}
	if pkg != nil && pkg.Pkg != nil {
		pp := pkg.Pkg.Path()
		if strings.HasPrefix(pp, "github.com/dapr/kit") && !strings.Contains(pp, "/zzverif") {
			pos := fn.Pos()
			if !pos.IsValid() {
				pos = root.Pos()
			}
			file := ""
			if pos.IsValid() && fn.Prog != nil {
				file = fn.Prog.Fset.Position(pos).Filename
			}
			if !strings.Contains(file, "zz_verif") {
				name = fn.String()
			}
		}
	}
	if m.repoFn == nil {
		m.repoFn = map[*ssa.Function]string{}
	}
	m.repoFn[fn] = name
	return name, name != ""
}

package main

import (
	"fmt"
	"go/types"
	"strings"

	"golang.org/x/tools/go/ssa"
)

type invStatus int

const (
	invDone invStatus = iota
	invPushed
	invYield
)

func (m *Machine) resolveCallee(fr *Frame, call *ssa.CallCommon) (FuncV, []Value) {
	var args []Value
	var f FuncV
	if call.IsInvoke() {
		recv, ok := m.get(fr, call.Value).(IfaceV)
		if !ok {
			panic(fmt.Sprintf("invoke on %T at %s", m.get(fr, call.Value), m.curSite))
		}
		if recv.t == nil {
			panic(&goPanic{kind: "nil dereference (method call on nil interface " + call.Method.Name() + ")"})
		}
		if op, isOp := recv.v.(Opaque); isOp {
			f = FuncV{native: "opaque." + call.Method.Name(), data: op}
		} else {
			fn := m.L.Prog.LookupMethod(recv.t, call.Method.Pkg(), call.Method.Name())
			if fn == nil {
				panic(unsupported("method " + call.Method.Name() + " not found on " + typeStr(recv.t)))
			}
			f = FuncV{fn: fn}
			args = append(args, recv.v)
		}
	} else {
		v := m.get(fr, call.Value)
		fv, ok := v.(FuncV)
		if !ok {
			panic(fmt.Sprintf("call of %T at %s", v, m.curSite))
		}
		if fv.fn == nil && fv.builtin == nil && fv.native == "" {
			panic(&goPanic{kind: "nil dereference (call of nil func)"})
		}
		f = fv
	}
	for _, a := range call.Args {
		args = append(args, m.get(fr, a))
	}
	return f, args
}

// invoke performs a call from frame fr. dst receives the result (nil for go/defer). For deferred calls the
// caller's pc is not advanced.
func (m *Machine) invoke(th *Thread, fr *Frame, f FuncV, args []Value, dst ssa.Value, isDefer bool) invStatus {
	finish := func(res Value) invStatus {
		if !isDefer {
			if dst != nil {
				fr.env[dst] = res
			}
			fr.pc++
		}
		return invDone
	}
	if f.builtin != nil {
		if f.builtin.Name() == "close" && m.needYield(th, "close") {
			return invYield
		}
		return finish(m.builtin(th, fr, f.builtin, args, dst))
	}
	if f.native != "" {
		res, st := m.nativeCall(th, fr, f, args)
		if st == invYield {
			return invYield
		}
		return finish(res)
	}
	name := m.fnName(f.fn)
	if isInitFn(f.fn) {
		return finish(nil)
	}
	if s, ok := m.stubFns[name]; ok && fr.fn != s {
		f = FuncV{fn: s}
		name = m.fnName(s)
	} else if in, ok := m.intr[name]; ok && !(m.H.Opts["reallogger"] == "on" && name == kitMod+"/logger.NewLogger") && !m.declined(in, th, fr, f, args) {
		res, st := m.lastIntrRes, m.lastIntrSt
		switch st {
		case invYield:
			return invYield
		case invPushed:
			// the intrinsic arranged a call itself (tail call): result handling as for an SSA callee
			top := th.frames[len(th.frames)-1]
			top.dst = dst
			top.isDefer = isDefer
			return invPushed
		}
		return finish(res)
	}
	if mf := m.modelFor(name); mf != nil && fr.fn != mf {
		f = FuncV{fn: mf}
	}
	m.L.ensureBuilt(f.fn)
	if f.fn.Blocks == nil {
		panic(unsupported("call of function without body: " + name))
	}
	if pkg := f.fn.Package(); pkg != nil {
		m.ensureInit(pkg)
	} else if o := f.fn.Origin(); o != nil && o.Package() != nil {
		m.ensureInit(o.Package())
	}
	if denyPkg(f.fn) && !isDurationMethod(f.fn) {
		panic(unsupported("call into " + name))
	}
	nf := m.pushFrame(th, f, args, dst, nil)
	nf.isDefer = isDefer
	return invPushed
}

// packages whose code is never executed symbolically (reflection, unsafe, OS, formatting internals)
var deniedPkgs = map[string]bool{"reflect": true, "internal/reflectlite": true, "runtime": true, "os": true, "syscall": true,
	"unsafe": true, "fmt": true, "log": true, "net": true, "net/http": true, "encoding/json": true, "crypto/aes": true,
	"crypto/cipher": true, "crypto/sha256": true, "crypto/sha512": true, "crypto/hmac": true, "crypto/rand": true,
	"crypto/rsa": true, "crypto/ecdsa": true, "crypto/ed25519": true, "crypto/x509": true, "encoding/pem": true,
	"math/big": true, "internal/poll": true, "time": true, "sync": true, "sync/atomic": true,
	"internal/bytealg": true, "crypto/elliptic": true, "crypto/ecdh": true, "crypto/internal/boring": true,
	"golang.org/x/crypto/hkdf": true, "golang.org/x/crypto/chacha20poly1305": true, "crypto/subtle": false}

func denyPkg(fn *ssa.Function) bool {
	p := fn.Package()
	if p == nil {
		if o := fn.Origin(); o != nil {
			p = o.Package()
		}
	}
	if p == nil {
		return false
	}
	path := p.Pkg.Path()
	if deniedPkgs[path] {
		return true
	}
	if strings.HasPrefix(path, "github.com/lestrrat-go/") || strings.HasPrefix(path, "github.com/sirupsen/") ||
		strings.HasPrefix(path, "github.com/alphadose/") || strings.HasPrefix(path, "github.com/spiffe/") ||
		strings.HasPrefix(path, "github.com/mitchellh/") || strings.HasPrefix(path, "google.golang.org/") {
		return true
	}
	return false
}

func (m *Machine) modelFor(name string) *ssa.Function {
	mp := m.L.Pkgs[kitMod+"/zzverifmodels"]
	if mp == nil {
		return nil
	}
	// internal/bytealg.IndexByteString -> M_internal_bytealg_IndexByteString
	mangled := "M_" + strings.NewReplacer("/", "_", ".", "_", "(", "", ")", "", "*", "").Replace(name)
	return mp.Func(mangled)
}

// needYield implements a scheduling point before a synchronisation operation.
func (m *Machine) needYield(th *Thread, op string) bool {
	if th.syncDepth > 0 {
		return false
	}
	if !m.multi {
		m.logSched(th, op)
		return false
	}
	// Synchronisation operations inside library code (context, io.Pipe, ...) are not scheduling points of their own:
	// a library call runs as one atomic step unless it blocks (DESIGN.md 2.4). This also keeps the engine's schedules
	// replayable, since only kit and harness sources are instrumented for native replay.
	if !m.atInstrumentedSite() {
		return false
	}
	if th.granted {
		th.granted = false
		m.logSched(th, op)
		return false
	}
	th.blockOn = op
	return true
}

// logSched records the passage of a scheduling point (for native replay): thread (numbered in creation order among
// goroutines started from instrumented code) and the site of the enclosing instrumented statement.
func (m *Machine) logSched(th *Thread, op string) {
	if th.retry {
		th.retry = false
		return
	}
	if th.nid < 0 || th.id < 0 {
		return
	}
	pos := m.curPos
	if m.deferPos.IsValid() {
		pos = m.deferPos
	}
	site := m.L.Instr().schedSite(m.L.Fset, pos)
	if site == "" {
		return
	}
	m.schedLog = append(m.schedLog, SchedStep{Thread: th.nid, Site: site, Op: op})
}

// block parks the thread on something; the instruction will be re-executed when it is woken.
func (m *Machine) block(th *Thread, on string) {
	if th.syncDepth > 0 {
		panic(unsupported("blocking operation inside a synchronous engine call: " + on))
	}
	th.blocked = true
	th.blockOn = on
	th.retry = true
}

func (m *Machine) wakeThread(t *Thread) {
	t.blocked = false
	t.blockOn = ""
}

// ---------------------------------------------------------------------------------------------------------
// builtins

func (m *Machine) builtin(th *Thread, fr *Frame, b *ssa.Builtin, args []Value, dst ssa.Value) Value {
	tt := m.tt
	switch b.Name() {
	case "len":
		switch x := args[0].(type) {
		case SliceV:
			return x.len
		case StrV:
			return x.n
		case MapV:
			if x.m == nil {
				return tt.BV(0, 64)
			}
			m.onMapAccess(x.m, false)
			return tt.BV(uint64(len(x.m.entries)), 64)
		case ChanV:
			if x.c == nil {
				return tt.BV(0, 64)
			}
			return tt.BV(uint64(len(x.c.buf)), 64)
		case ArrayV:
			return tt.BV(uint64(x.n), 64)
		case Ptr: // pointer to array
			if x.c != nil && x.c.kind == cBytes {
				return x.c.n
			}
			if x.c != nil && x.c.kind == cArray {
				return tt.BV(uint64(len(x.c.elems)), 64)
			}
		}
	case "cap":
		switch x := args[0].(type) {
		case SliceV:
			return x.cap
		case ChanV:
			if x.c == nil {
				return tt.BV(0, 64)
			}
			return tt.BV(uint64(x.c.cap), 64)
		case ArrayV:
			return tt.BV(uint64(x.n), 64)
		}
	case "append":
		return m.appendOp(args[0].(SliceV), args[1], dst.Type())
	case "copy":
		dstS := args[0].(SliceV)
		var src SliceV
		if s, ok := args[1].(StrV); ok {
			src = m.strAsSlice(s)
		} else {
			src = args[1].(SliceV)
		}
		n := tt.Ite(tt.Cmp(OpSLT, dstS.len, src.len), dstS.len, src.len)
		m.copySlice(dstS, src, n)
		return n
	case "delete":
		m.mapDelete(args[0].(MapV), args[1])
		return nil
	case "close":
		m.closeChan(th, args[0].(ChanV))
		return nil
	case "panic":
		panic(&goPanic{kind: "explicit panic: " + m.describe(args[0]), value: args[0]})
	case "recover":
		top := th.frames[len(th.frames)-1]
		if top.isDefer && th.panicking != nil {
			p := th.panicking
			th.panicking = nil
			if p.value != nil {
				return p.value
			}
			return IfaceV{t: types.Typ[types.String], v: m.mkStr("runtime error: " + p.kind)}
		}
		return IfaceV{}
	case "print", "println":
		return nil
	case "min", "max":
		res := args[0]
		for _, a := range args[1:] {
			x, y := res.(*Term), a.(*Term)
			_, signed, _ := isScalarBasic(dst.Type())
			op := OpULT
			if signed {
				op = OpSLT
			}
			var c *Term
			if b.Name() == "min" {
				c = tt.Cmp(op, y, x)
			} else {
				c = tt.Cmp(op, x, y)
			}
			res = tt.Ite(c, y, x)
		}
		return res
	case "clear":
		switch x := args[0].(type) {
		case MapV:
			if x.m != nil {
				m.onMapAccess(x.m, true)
				x.m.entries = nil
			}
			return nil
		case SliceV:
			if x.c == nil {
				return nil
			}
			m.onAccess(x.c, true, m.curSite)
			if x.c.kind == cBytes {
				x.c.arr = copyArr(tt, x.c.arr, x.off, ArrZero{x.c.ew}, tt.BV(0, 64), x.len)
				return nil
			}
			k := m.concretize(x.len)
			off := m.concretize(x.off)
			for i := uint64(0); i < k; i++ {
				cell := x.c.elems[off+i]
				m.storeCell(cell, nil, m.zeroValue(cell.typ))
			}
			return nil
		}
	case "ssa:wrapnilchk":
		if p, ok := args[0].(Ptr); ok && p.c == nil {
			panic(&goPanic{kind: "nil dereference (value method on nil pointer)"})
		}
		return args[0]
	}
	panic(unsupported("builtin " + b.Name() + fmt.Sprintf(" on %T", args[0])))
}

// strAsSlice views a string's bytes as a read-only slice (for copy/append).
func (m *Machine) strAsSlice(s StrV) SliceV {
	c := &Cell{kind: cBytes, arr: m.strArr(s), n: s.n, ew: 8, ghost: true}
	c.root = c
	return SliceV{c: c, off: m.tt.BV(0, 64), len: s.n, cap: s.n}
}

func (m *Machine) copySlice(dst, src SliceV, n *Term) {
	if n.IsConst() && n.val == 0 {
		return
	}
	if dst.c == nil || src.c == nil {
		return
	}
	m.onAccess(dst.c, true, m.curSite)
	m.onAccess(src.c, false, m.curSite)
	if dst.c.kind == cBytes {
		dst.c.arr = copyArr(m.tt, dst.c.arr, dst.off, src.c.arr, src.off, n)
		return
	}
	// composite elements: concrete
	k := m.concretize(n)
	do, so := m.concretize(dst.off), m.concretize(src.off)
	vals := make([]Value, k)
	for i := uint64(0); i < k; i++ {
		vals[i] = m.loadCell(src.c.elems[so+i], nil)
	}
	for i := uint64(0); i < k; i++ {
		m.storeCell(dst.c.elems[do+i], nil, vals[i])
	}
}

func (m *Machine) appendOp(s SliceV, add Value, t types.Type) Value {
	tt := m.tt
	var src SliceV
	switch a := add.(type) {
	case SliceV:
		src = a
	case StrV:
		src = m.strAsSlice(a)
	default:
		panic(fmt.Sprintf("append of %T", add))
	}
	et := t.Underlying().(*types.Slice).Elem()
	if src.c == nil || (src.len.IsConst() && src.len.val == 0) {
		return s
	}
	newLen := tt.Bin(OpAdd, s.len, src.len)
	fits := tt.Cmp(OpSLE, newLen, s.cap)
	if m.truth(fits) {
		// writes into the spare capacity of the existing backing array
		dst := SliceV{c: s.c, off: tt.Bin(OpAdd, s.off, s.len), len: src.len, cap: src.len}
		if s.c == nil {
			return s // only possible when the appended length is zero
		}
		m.copySlice(dst, src, src.len)
		return SliceV{c: s.c, off: s.off, len: newLen, cap: s.cap}
	}
	// reallocate: capacity is exactly the new length plus a symbolic slack that kit code must not depend on; we use
	// newLen (the smallest legal value) — code that relies on larger growth would be wrong anyway.
	var nc *Cell
	if _, _, ok := bytesElem(et); ok {
		nc = m.mkArrayCell(et, newLen, m.curSite)
	} else {
		nl := m.concretize(newLen)
		newLen = tt.BV(nl, 64)
		nc = m.mkArrayCell(et, newLen, m.curSite)
	}
	zero := tt.BV(0, 64)
	if s.c != nil {
		m.copySlice(SliceV{c: nc, off: zero, len: s.len, cap: s.len}, s, s.len)
	}
	m.copySlice(SliceV{c: nc, off: s.len, len: src.len, cap: src.len}, src, src.len)
	return SliceV{c: nc, off: zero, len: newLen, cap: newLen}
}

// ---------------------------------------------------------------------------------------------------------
// channels

type waiter struct {
	th      *Thread
	caseIdx int
	val     Value
	sel     bool
}

type chanWait struct {
	sendq []*waiter
	recvq []*waiter
}

func (m *Machine) cw(c *ChanObj) *chanWait {
	if m.chanWaits == nil {
		m.chanWaits = map[*ChanObj]*chanWait{}
	}
	w := m.chanWaits[c]
	if w == nil {
		w = &chanWait{}
		m.chanWaits[c] = w
	}
	return w
}

func (m *Machine) removeWaiter(th *Thread) {
	for _, w := range m.chanWaits {
		w.sendq = filterWaiters(w.sendq, th)
		w.recvq = filterWaiters(w.recvq, th)
	}
}

func filterWaiters(q []*waiter, th *Thread) []*waiter {
	out := q[:0]
	for _, w := range q {
		if w.th != th {
			out = append(out, w)
		}
	}
	return out
}

// trySend attempts a send without blocking. Returns true when performed.
func (m *Machine) trySend(th *Thread, c *ChanObj, v Value) bool {
	if c.closed {
		panic(&goPanic{kind: "send on closed channel"})
	}
	w := m.cw(c)
	if len(w.recvq) > 0 {
		r := w.recvq[0]
		m.removeWaiter(r.th)
		r.th.wake = &wakeInfo{caseIdx: r.caseIdx, val: v, ok: true, vc: append([]int(nil), th.vc...)}
		m.wakeThread(r.th)
		if c.cap == 0 {
			// unbuffered: the receive is synchronized before the completion of the send as well
			th.vc = m.vcJoin(th.vc, r.th.vc)
		}
		m.vcTick(th)
		return true
	}
	if len(c.buf) < c.cap {
		// the k-th receive is synchronized before the completion of the (k+C)-th send
		if len(c.freed) > 0 {
			th.vc = m.vcJoin(th.vc, c.freed[0])
			c.freed = c.freed[1:]
		}
		c.buf = append(c.buf, chanItem{v: v, vc: append([]int(nil), th.vc...)})
		m.vcTick(th)
		return true
	}
	return false
}

func (m *Machine) canSend(c *ChanObj) bool {
	if c.closed {
		return true // will panic
	}
	return len(m.cw(c).recvq) > 0 || len(c.buf) < c.cap
}

func (m *Machine) canRecv(c *ChanObj) bool {
	return len(c.buf) > 0 || len(m.cw(c).sendq) > 0 || c.closed
}

// tryRecv attempts a receive without blocking.
func (m *Machine) tryRecv(th *Thread, c *ChanObj) (Value, bool, bool) {
	w := m.cw(c)
	if len(c.buf) > 0 {
		it := c.buf[0]
		c.buf = c.buf[1:]
		th.vc = m.vcJoin(th.vc, it.vc)
		if len(w.sendq) > 0 {
			s := w.sendq[0]
			m.removeWaiter(s.th)
			// the blocked send completes now, after this receive
			svc := m.vcJoin(s.th.vc, th.vc)
			c.buf = append(c.buf, chanItem{v: s.val, vc: svc})
			s.th.wake = &wakeInfo{caseIdx: s.caseIdx, ok: true, vc: append([]int(nil), th.vc...)}
			m.wakeThread(s.th)
		} else {
			c.freed = append(c.freed, append([]int(nil), th.vc...))
		}
		m.vcTick(th)
		return it.v, true, true
	}
	if len(w.sendq) > 0 {
		s := w.sendq[0]
		m.removeWaiter(s.th)
		svc := append([]int(nil), s.th.vc...)
		s.th.wake = &wakeInfo{caseIdx: s.caseIdx, ok: true, vc: append([]int(nil), th.vc...)}
		th.vc = m.vcJoin(th.vc, svc)
		m.vcTick(th)
		m.wakeThread(s.th)
		return s.val, true, true
	}
	if c.closed {
		th.vc = m.vcJoin(th.vc, c.closeVC)
		return m.zeroValue(c.et), false, true
	}
	return nil, false, false
}

func (m *Machine) closeChan(th *Thread, cv ChanV) {
	c := cv.c
	if c == nil {
		panic(&goPanic{kind: "close of nil channel"})
	}
	if c.closed {
		panic(&goPanic{kind: "close of closed channel"})
	}
	c.closed = true
	c.closeVC = append([]int(nil), th.vc...)
	m.vcTick(th)
	w := m.cw(c)
	for _, r := range append([]*waiter(nil), w.recvq...) {
		m.removeWaiter(r.th)
		r.th.wake = &wakeInfo{caseIdx: r.caseIdx, val: m.zeroValue(c.et), ok: false, vc: c.closeVC}
		m.wakeThread(r.th)
	}
	for _, s := range append([]*waiter(nil), w.sendq...) {
		m.removeWaiter(s.th)
		s.th.wake = &wakeInfo{caseIdx: -2}
		m.wakeThread(s.th)
	}
}

func (m *Machine) execSend(th *Thread, fr *Frame, x *ssa.Send) bool {
	if th.wake != nil {
		wk := th.wake
		th.wake = nil
		th.retry = false // the blocked operation completes here: the next operation is a new one
		if wk.caseIdx == -2 {
			panic(&goPanic{kind: "send on closed channel"})
		}
		th.vc = m.vcJoin(th.vc, wk.vc)
		m.vcTick(th)
		fr.pc++
		return false
	}
	if m.needYield(th, "send") {
		return true
	}
	c := m.get(fr, x.Chan).(ChanV).c
	if c == nil {
		m.block(th, "send on nil channel")
		return false
	}
	v := m.get(fr, x.X)
	if m.trySend(th, c, v) {
		fr.pc++
		return false
	}
	w := m.cw(c)
	w.sendq = append(w.sendq, &waiter{th: th, caseIdx: -1, val: v})
	m.block(th, fmt.Sprintf("send chan#%d(%s)", c.id, c.site))
	return false
}

func (m *Machine) execRecv(th *Thread, fr *Frame, x *ssa.UnOp) bool {
	finish := func(v Value, ok bool) {
		if x.CommaOk {
			fr.env[x] = TupleV{v, m.tt.Bool(ok)}
		} else {
			fr.env[x] = v
		}
		fr.pc++
	}
	if th.wake != nil {
		wk := th.wake
		th.wake = nil
		th.retry = false // the blocked operation completes here: the next operation is a new one
		th.vc = m.vcJoin(th.vc, wk.vc)
		finish(wk.val, wk.ok)
		return false
	}
	if m.needYield(th, "recv") {
		return true
	}
	c := m.get(fr, x.X).(ChanV).c
	if c == nil {
		m.block(th, "receive on nil channel")
		return false
	}
	if v, ok, done := m.tryRecv(th, c); done {
		finish(v, ok)
		return false
	}
	w := m.cw(c)
	w.recvq = append(w.recvq, &waiter{th: th, caseIdx: -1})
	m.block(th, fmt.Sprintf("recv chan#%d(%s)", c.id, c.site))
	return false
}

func (m *Machine) execSelect(th *Thread, fr *Frame, x *ssa.Select) bool {
	tt := m.tt
	result := func(idx int, recvVal Value, ok bool) {
		tv := TupleV{tt.BV(uint64(int64(idx)), 64), tt.Bool(ok)}
		for i, st := range x.States {
			if st.Dir == types.RecvOnly {
				if i == idx {
					tv = append(tv, recvVal)
				} else {
					tv = append(tv, m.zeroValue(st.Chan.Type().Underlying().(*types.Chan).Elem()))
				}
			}
		}
		fr.env[x] = tv
		fr.pc++
	}
	if th.wake != nil {
		wk := th.wake
		th.wake = nil
		th.retry = false // the blocked operation completes here: the next operation is a new one
		if wk.caseIdx == -2 {
			panic(&goPanic{kind: "send on closed channel"})
		}
		th.vc = m.vcJoin(th.vc, wk.vc)
		result(wk.caseIdx, wk.val, wk.ok)
		return false
	}
	if m.needYield(th, "select") {
		return true
	}
	var ready []int
	chans := make([]*ChanObj, len(x.States))
	for i, st := range x.States {
		c := m.get(fr, st.Chan).(ChanV).c
		chans[i] = c
		if c == nil {
			continue
		}
		if st.Dir == types.SendOnly {
			if m.canSend(c) {
				ready = append(ready, i)
			}
		} else if m.canRecv(c) {
			ready = append(ready, i)
		}
	}
	if len(ready) > 0 {
		pick := ready[0]
		if len(ready) > 1 {
			pick = ready[m.decide(len(ready), nil)]
		}
		st := x.States[pick]
		if st.Dir == types.SendOnly {
			if !m.trySend(th, chans[pick], m.get(fr, st.Send)) {
				panic("select: send not possible after canSend")
			}
			result(pick, nil, false)
		} else {
			v, ok, done := m.tryRecv(th, chans[pick])
			if !done {
				panic("select: recv not possible after canRecv")
			}
			result(pick, v, ok)
		}
		return false
	}
	if !x.Blocking {
		result(-1, nil, false)
		return false
	}
	for i, st := range x.States {
		c := chans[i]
		if c == nil {
			continue
		}
		w := m.cw(c)
		if st.Dir == types.SendOnly {
			w.sendq = append(w.sendq, &waiter{th: th, caseIdx: i, val: m.get(fr, st.Send), sel: true})
		} else {
			w.recvq = append(w.recvq, &waiter{th: th, caseIdx: i, sel: true})
		}
	}
	m.block(th, "select at "+m.curSite)
	return false
}

func isDurationMethod(fn *ssa.Function) bool {
	r := fn.Signature.Recv()
	return r != nil && namedIs(r.Type(), "time", "Duration")
}

// declined runs the intrinsic; it reports true when the intrinsic declined (symbolic arguments for a native-concrete
// function) so that the real body is executed instead.
func (m *Machine) declined(in intrinsic, th *Thread, fr *Frame, f FuncV, args []Value) (decl bool) {
	defer func() {
		if r := recover(); r != nil {
			if _, ok := r.(declineT); ok {
				decl = true
				return
			}
			panic(r)
		}
	}()
	m.lastIntrRes, m.lastIntrSt = in(m, th, fr, f, args)
	return false
}

func (m *Machine) atInstrumentedSite() bool {
	pos := m.curPos
	if m.deferPos.IsValid() {
		pos = m.deferPos
	}
	return m.L.Instr().schedSite(m.L.Fset, pos) != ""
}

package main

// Native replay: the harness file itself is compiled into the real package (go test -overlay) together with the
// native zzverif runtime and a generated driver; the solver's assignment is fed through VERIF_REPLAY.

import (
	"encoding/json"
	"fmt"
	"os"
	"os/exec"
	"path/filepath"
	"regexp"
	"sort"
	"strconv"
	"strings"
	"time"
)

type Replayer struct {
	repo, verif, prop string
	L                 *Loaded
	bins              map[string]string // pkgdir -> test binary
	binErr            map[string]error
	work              string
	seq               int
}

type ReplayOutcome struct {
	Outcome string
	Covers  map[string]int
	Missing []string
	Raw     string
}

func (r *Replayer) workDir() string {
	if r.work == "" {
		r.work = filepath.Join(outRoot, "work", fmt.Sprintf("%s-%d", r.prop, os.Getpid()))
		os.MkdirAll(r.work, 0o755)
	}
	return r.work
}

func (r *Replayer) Cleanup() {
	if os.Getenv("VERIF_KEEPWORK") != "" {
		return
	}
	if r.work != "" {
		os.RemoveAll(r.work)
	}
}

func sanitize(s string) string {
	return regexp.MustCompile(`[^A-Za-z0-9_.-]+`).ReplaceAllString(s, "_")
}

// build compiles the test binary for a package dir (once).
func (r *Replayer) build(pkgDir string, instrumented bool) (string, error) {
	return r.buildOpt(pkgDir, instrumented, false)
}

func (r *Replayer) buildOpt(pkgDir string, instrumented bool, race bool) (string, error) {
	if r.bins == nil {
		r.bins = map[string]string{}
		r.binErr = map[string]error{}
	}
	key := pkgDir
	if instrumented {
		key += "#instr"
	}
	if race {
		key += "#race"
	}
	if b, ok := r.bins[key]; ok {
		return b, r.binErr[key]
	}
	wd := r.workDir()
	// driver
	var names []string
	pkgName := ""
	for _, h := range r.L.Harnesses {
		if h.PkgDir == pkgDir {
			names = append(names, h.Name+"\x00"+h.Fn.Name())
			pkgName = h.Fn.Pkg.Pkg.Name()
		}
	}
	sort.Strings(names)
	var sb strings.Builder
	fmt.Fprintf(&sb, "package %s\n\nimport (\n\t\"testing\"\n\t\"github.com/dapr/kit/zzverif\"\n)\n\nfunc TestVerifReplay(t *testing.T) {\n\tzzverif.RunReplay(t, map[string]func(){\n", pkgName)
	for _, n := range names {
		p := strings.Split(n, "\x00")
		fmt.Fprintf(&sb, "\t\t%q: %s,\n", p[0], p[1])
	}
	sb.WriteString("\t})\n}\n")
	driver := filepath.Join(wd, sanitize(pkgDir)+"_driver_test.go")
	os.WriteFile(driver, []byte(sb.String()), 0o644)
	ov := map[string]map[string]string{"Replace": {}}
	for virt, real := range r.L.OverlayRealPath {
		ov["Replace"][virt] = real
	}
	ov["Replace"][filepath.Join(r.repo, pkgDir, "zz_verif_driver_test.go")] = driver
	if instrumented {
		ins := r.L.Instr()
		k := 0
		for virt, content := range ins.Files {
			k++
			p := filepath.Join(wd, fmt.Sprintf("instr_%d_%s", k, filepath.Base(virt)))
			os.WriteFile(p, content, 0o644)
			ov["Replace"][virt] = p
		}
	}
	// native-only import swaps (e.g. package os -> a shim that turns filesystem calls into crash points)
	k2 := 0
	for file, sw := range r.L.NativeImports {
		var src []byte
		if p, ok := ov["Replace"][file]; ok {
			src, _ = os.ReadFile(p)
		} else {
			src, _ = os.ReadFile(file)
		}
		if src == nil {
			continue
		}
		alias := filepath.Base(sw[0])
		out := strings.Replace(string(src), "\""+sw[0]+"\"", alias+" \""+sw[1]+"\"", 1)
		k2++
		p := filepath.Join(wd, fmt.Sprintf("nimp_%d_%s", k2, filepath.Base(file)))
		os.WriteFile(p, []byte(out), 0o644)
		ov["Replace"][file] = p
	}
	ovPath := filepath.Join(wd, sanitize(key)+"_overlay.json")
	b, _ := json.Marshal(ov)
	os.WriteFile(ovPath, b, 0o644)
	bin := filepath.Join(wd, sanitize(key)+".test")
	args := []string{"test", "-c", "-tags", "verif,unit", "-vet=off", "-overlay", ovPath, "-o", bin}
	if race {
		args = append(args, "-race")
	}
	args = append(args, "./"+pkgDir)
	cmd := exec.Command("go", args...)
	cmd.Dir = r.repo
	cmd.Env = append(os.Environ(), "GOFLAGS=-mod=mod", "GOPROXY=off", "GOSUMDB=off", "GOTOOLCHAIN=local", "CGO_ENABLED=1")
	out, err := cmd.CombinedOutput()
	if err != nil {
		err = fmt.Errorf("go test -c failed: %v\n%s", err, truncate(string(out), 3000))
	}
	r.bins[key] = bin
	r.binErr[key] = err
	return bin, err
}

func truncate(s string, n int) string {
	if len(s) > n {
		return s[:n] + "..."
	}
	return s
}

var outcomeRe = regexp.MustCompile(`VERIF-REPLAY harness=(\S+) outcome=("(?:[^"\\]|\\.)*") covers=(\{.*?\}) missing=(\[.*?\]|null)`)

func (r *Replayer) Replay(h *Harness, f *Finding, tag string) (*ReplayOutcome, error) {
	dir := filepath.Join(outRoot, "evidence", "replays", r.prop)
	os.MkdirAll(dir, 0o755)
	inputs := map[string]interface{}{}
	for k, v := range f.Inputs {
		switch x := v.(type) {
		case int64:
			inputs[k] = strconv.FormatInt(x, 10)
		case bool:
			if x {
				inputs[k] = "1"
			} else {
				inputs[k] = "0"
			}
		default:
			inputs[k] = v
		}
	}
	rf := map[string]interface{}{"harness": h.Name, "inputs": inputs, "expect": f.Kind + ":" + f.Assertion, "site": f.Site,
		"schedule": f.Schedule, "property": r.prop, "msg": f.Msg, "tier": h.Opts["tier"]}
	path := filepath.Join(dir, sanitize(h.Name+"-"+tag)+".json")
	b, _ := json.MarshalIndent(rf, "", " ")
	if err := os.WriteFile(path, b, 0o644); err != nil {
		return nil, err
	}
	f.ReplayFile = path
	if h.Opts["replay"] == "off" {
		return nil, fmt.Errorf("native replay disabled for this harness")
	}
	instrumented := h.Threads > 1 && len(f.Schedule) > 0
	if f.Kind == "race" {
		// the schedule controller's hand-shakes order the goroutines (they are synchronisation the race detector sees);
		// a race is replayed free-running on a -race build, several times
		instrumented = false
	}
	bin, err := r.buildOpt(h.PkgDir, instrumented, f.Kind == "race")
	if err != nil {
		return nil, err
	}
	timeout := h.Opts["replay_timeout"]
	if timeout == "" && instrumented {
		timeout = "4s"
	}
	attempts := atoiDef(h.Opts["replay_attempts"], 1) // harnesses whose native reproduction depends on the runtime (sync.Pool reuse) ask for several
	if f.Kind == "race" {
		attempts = 12
	}
	if instrumented {
		attempts = atoiDef(h.Opts["replay_attempts"], 8)
		if f.Kind == "race" {
			attempts *= 3 // the race detector only reports a race whose two accesses it happens to observe unordered
		}
	}
	var out *ReplayOutcome
	for a := 0; a < attempts; a++ {
		out, err = runReplayBinary(bin, filepath.Join(r.repo, h.PkgDir), path, timeout)
		if err != nil {
			return nil, err
		}
		if f.Kind == "cover" {
			if out.Outcome == "ok" {
				break
			}
		} else if matchOutcome(f, out) {
			break
		}
	}
	return out, nil
}

func runReplayBinary(bin, dir, replayFile, timeout string) (*ReplayOutcome, error) {
	cmd := exec.Command(bin, "-test.run", "^TestVerifReplay$", "-test.v", "-test.count=1", "-test.timeout", "120s")
	cmd.Dir = dir
	cmd.Env = append(os.Environ(), "VERIF_REPLAY="+replayFile)
	if timeout != "" {
		cmd.Env = append(cmd.Env, "VERIF_REPLAY_TIMEOUT="+timeout)
	}
	done := make(chan struct{})
	var out []byte
	var err error
	go func() {
		out, err = cmd.CombinedOutput()
		close(done)
	}()
	select {
	case <-done:
	case <-time.After(150 * time.Second):
		if cmd.Process != nil {
			cmd.Process.Kill()
		}
		<-done
		return &ReplayOutcome{Outcome: "timeout", Raw: string(out)}, nil
	}
	s := string(out)
	mm := outcomeRe.FindStringSubmatch(s)
	if mm == nil {
		// the process died (fatal error: all goroutines asleep, concurrent map writes, os.Exit...)
		if strings.Contains(s, "fatal error: all goroutines are asleep") {
			return &ReplayOutcome{Outcome: "timeout", Raw: s}, nil
		}
		if strings.Contains(s, "panic:") || strings.Contains(s, "fatal error:") {
			return &ReplayOutcome{Outcome: "panic:process " + firstLineWith(s, "panic:", "fatal error:"), Raw: s}, nil
		}
		return nil, fmt.Errorf("no VERIF-REPLAY line (err=%v): %s", err, truncate(s, 1500))
	}
	oc, _ := strconv.Unquote(mm[2])
	ro := &ReplayOutcome{Outcome: oc, Covers: map[string]int{}, Raw: s}
	json.Unmarshal([]byte(mm[3]), &ro.Covers)
	if mm[4] != "null" {
		json.Unmarshal([]byte(mm[4]), &ro.Missing)
	}
	return ro, nil
}

func firstLineWith(s string, subs ...string) string {
	for _, l := range strings.Split(s, "\n") {
		for _, sub := range subs {
			if strings.Contains(l, sub) {
				return strings.TrimSpace(l)
			}
		}
	}
	return ""
}

// ---------------------------------------------------------------------------------------------------------

func solverSelfTest() int {
	tt := NewTermTable()
	bad := 0
	for _, kind := range []string{"z3", "z3-new", "cvc5-bv"} {
		s, err := NewSolver(kind, 20*time.Second)
		if err != nil {
			fmt.Printf("selftest: cannot start %s: %v\n", kind, err)
			bad++
			continue
		}
		x := tt.Var("x", 64)
		y := tt.Var("y", 64)
		a := tt.ArrVarT("A", 8)
		// 1: x+y == y+x is valid
		v1, _ := s.Check(nil, []*Term{tt.Ne(tt.Bin(OpAdd, x, y), tt.Bin(OpAdd, y, x))}, false, nil)
		// 2: model extraction
		v2, mdl := s.Check(nil, []*Term{tt.Eq(tt.Bin(OpAdd, x, tt.BV(5, 64)), tt.BV(12, 64)), tt.Eq(tt.SelectBase(a, x), tt.BV(0x41, 8))}, true,
			map[string]*Term{"x": x, "a7": tt.SelectBase(a, tt.BV(7, 64))})
		// 3: signed compare / extract
		v3, _ := s.Check(nil, []*Term{tt.Cmp(OpSLT, x, tt.BV(0, 64)), tt.Eq(tt.Extract(x, 63, 63), tt.BV(0, 1))}, false, nil)
		ok := v1 == Unsat && v2 == Sat && mdl["x"] == 7 && mdl["a7"] == 0x41 && v3 == Unsat
		fmt.Printf("selftest %-8s: %v %v(x=%d a7=%#x) %v ok=%v\n", kind, v1, v2, mdl["x"], mdl["a7"], v3, ok)
		if !ok {
			bad++
		}
		s.Close()
	}
	if bad > 0 {
		return 1
	}
	return 0
}

package main

import (
	"fmt"
	"go/types"
	"strings"
	"time"

	"golang.org/x/tools/go/ssa"
)

type intrinsic func(m *Machine, th *Thread, fr *Frame, f FuncV, args []Value) (Value, invStatus)

const zz = kitMod + "/zzverif."

type syncState struct {
	locked      bool
	readers     int
	wwaiting    int
	waiters     []*Thread
	count       int64 // WaitGroup
	vc          []int
	onceRunning bool
	onceDone    bool
	holder      int
}

type poolState struct {
	items []Value
}

type opaqueErr struct {
	msg   string
	wraps []Value
}

var opaqueErrT = types.NewNamed(types.NewTypeName(0, nil, "opaqueError", nil), types.NewStruct(nil, nil), nil)
var opaqueNopT = types.NewNamed(types.NewTypeName(0, nil, "opaqueNop", nil), types.NewStruct(nil, nil), nil)

func (m *Machine) freshName(base string) string {
	k := m.inputCnt[base]
	m.inputCnt[base] = k + 1
	if k == 0 {
		return base
	}
	return fmt.Sprintf("%s#%d", base, k)
}

func (m *Machine) argStr(v Value) string {
	s, ok := m.strConcrete(v.(StrV))
	if !ok {
		panic(unsupported("zzverif name argument must be a constant string"))
	}
	return s
}

func (m *Machine) argInt(v Value) int {
	t := v.(*Term)
	if !t.IsConst() {
		return int(int64(m.concretize(t)))
	}
	return int(t.SInt())
}

func (m *Machine) newScalarInput(name string, w int, kind string) *Term {
	n := m.freshName(name)
	t := m.tt.Var(n, w)
	m.inputs = append(m.inputs, &InputRec{Name: n, Kind: kind, W: w, T: t})
	return t
}

func (m *Machine) newBytesInput(name string, n int) SliceV {
	nm := m.freshName(name)
	av := m.tt.ArrVarT(nm, 8)
	m.inputs = append(m.inputs, &InputRec{Name: nm, Kind: "bytes", Arr: av, N: n})
	nt := m.tt.BV(uint64(n), 64)
	c := m.mkArrayCell(types.Typ[types.Uint8], nt, m.curSite)
	c.arr = ArrBase{av}
	c.ghost = false
	return SliceV{c: c, off: m.tt.BV(0, 64), len: nt, cap: nt}
}

func (m *Machine) sliceBytesConcat(s SliceV) *Term {
	n := m.concretize(s.len)
	if n == 0 {
		return nil
	}
	var t *Term
	for i := uint64(0); i < n; i++ {
		b := s.c.arr.Select(m.tt, m.tt.Bin(OpAdd, s.off, m.tt.BV(i, 64)))
		if t == nil {
			t = b
		} else {
			t = m.tt.Concat(t, b)
		}
	}
	return t
}

func done(v Value) (Value, invStatus) { return v, invDone }

func intrinsicTable() map[string]intrinsic {
	T := map[string]intrinsic{}
	scalar := func(w int, kind string) intrinsic {
		return func(m *Machine, th *Thread, fr *Frame, f FuncV, a []Value) (Value, invStatus) {
			return done(m.newScalarInput(m.argStr(a[0]), w, kind))
		}
	}
	T[zz+"Int"] = scalar(64, "int")
	T[zz+"Int64"] = scalar(64, "int")
	T[zz+"Uint64"] = scalar(64, "uint")
	T[zz+"Uint32"] = scalar(32, "uint")
	T[zz+"Int32"] = scalar(32, "int")
	T[zz+"Byte"] = scalar(8, "uint")
	T[zz+"Bool"] = scalar(0, "bool")
	T[zz+"Bytes"] = func(m *Machine, th *Thread, fr *Frame, f FuncV, a []Value) (Value, invStatus) {
		return done(m.newBytesInput(m.argStr(a[0]), m.argInt(a[1])))
	}
	T[zz+"String"] = func(m *Machine, th *Thread, fr *Frame, f FuncV, a []Value) (Value, invStatus) {
		s := m.newBytesInput(m.argStr(a[0]), m.argInt(a[1]))
		return done(StrV{arr: s.c.arr, n: s.len})
	}
	T[zz+"Choose"] = func(m *Machine, th *Thread, fr *Frame, f FuncV, a []Value) (Value, invStatus) {
		n := m.argInt(a[1])
		if n <= 0 {
			panic(&pathEnd{"Choose(0)"})
		}
		k := 0
		if n > 1 {
			k = m.decide(n, nil)
		}
		nm := m.freshName(m.argStr(a[0]))
		m.inputs = append(m.inputs, &InputRec{Name: nm, Kind: "choose", Val: uint64(k)})
		return done(m.tt.BV(uint64(k), 64))
	}
	T[zz+"Assume"] = func(m *Machine, th *Thread, fr *Frame, f FuncV, a []Value) (Value, invStatus) {
		c := a[0].(*Term)
		if c.IsTrue() {
			return done(nil)
		}
		if c.IsFalse() {
			panic(&pathEnd{"assume false"})
		}
		m.decide(1, func(int) *Term { return c })
		return done(nil)
	}
	T[zz+"Assert"] = func(m *Machine, th *Thread, fr *Frame, f FuncV, a []Value) (Value, invStatus) {
		m.assertion(a[0].(*Term), m.argStr(a[1]))
		return done(nil)
	}
	T[zz+"Fail"] = func(m *Machine, th *Thread, fr *Frame, f FuncV, a []Value) (Value, invStatus) {
		m.assertion(m.tt.ff, m.argStr(a[0]))
		return done(nil)
	}
	T[zz+"Cover"] = func(m *Machine, th *Thread, fr *Frame, f FuncV, a []Value) (Value, invStatus) {
		id := m.argStr(a[0])
		m.stats.Covers[id]++
		if _, ok := m.coverModels[id]; !ok && m.H.Opts["witness"] != "off" {
			if inputs, ok := m.modelInputs(nil); ok {
				obs := map[string]interface{}{}
				for k, v := range m.observed {
					obs[k] = v
				}
				m.coverModels[id] = &Finding{Harness: m.H.Name, Assertion: id, Kind: "cover", Inputs: inputs,
					Schedule: append([]SchedStep(nil), m.schedLog...), Site: m.curSite, Msg: fmt.Sprint(obs)}
			}
		}
		return done(nil)
	}
	T[zz+"Observe"] = func(m *Machine, th *Thread, fr *Frame, f FuncV, a []Value) (Value, invStatus) {
		return done(nil)
	}
	T[zz+"Symbolic"] = func(m *Machine, th *Thread, fr *Frame, f FuncV, a []Value) (Value, invStatus) {
		return done(m.tt.tt)
	}
	T[zz+"Thorough"] = func(m *Machine, th *Thread, fr *Frame, f FuncV, a []Value) (Value, invStatus) {
		return done(m.tt.Bool(m.H.Opts["tier"] == "thorough"))
	}
	T[zz+"And"] = func(m *Machine, th *Thread, fr *Frame, f FuncV, a []Value) (Value, invStatus) {
		return done(m.tt.And(a[0].(*Term), a[1].(*Term)))
	}
	T[zz+"Or"] = func(m *Machine, th *Thread, fr *Frame, f FuncV, a []Value) (Value, invStatus) {
		return done(m.tt.Or(a[0].(*Term), a[1].(*Term)))
	}
	T[zz+"Implies"] = func(m *Machine, th *Thread, fr *Frame, f FuncV, a []Value) (Value, invStatus) {
		return done(m.tt.Implies(a[0].(*Term), a[1].(*Term)))
	}
	T[zz+"Not"] = func(m *Machine, th *Thread, fr *Frame, f FuncV, a []Value) (Value, invStatus) {
		return done(m.tt.Not(a[0].(*Term)))
	}
	T[zz+"IteInt"] = func(m *Machine, th *Thread, fr *Frame, f FuncV, a []Value) (Value, invStatus) {
		return done(m.tt.Ite(a[0].(*Term), a[1].(*Term), a[2].(*Term)))
	}
	T[zz+"ErrIs"] = func(m *Machine, th *Thread, fr *Frame, f FuncV, a []Value) (Value, invStatus) {
		return done(m.equal(a[0], a[1]))
	}
	T[zz+"Comparable"] = func(m *Machine, th *Thread, fr *Frame, f FuncV, a []Value) (Value, invStatus) {
		iv := a[0].(IfaceV)
		if iv.t == nil {
			return done(m.tt.tt)
		}
		return done(m.tt.Bool(types.Comparable(iv.t)))
	}
	T[zz+"SameDynType"] = func(m *Machine, th *Thread, fr *Frame, f FuncV, a []Value) (Value, invStatus) {
		x, y := a[0].(IfaceV), a[1].(IfaceV)
		if x.t == nil || y.t == nil {
			return done(m.tt.Bool(x.t == nil && y.t == nil))
		}
		return done(m.tt.Bool(types.Identical(x.t, y.t)))
	}
	T[zz+"EqBytes"] = func(m *Machine, th *Thread, fr *Frame, f FuncV, a []Value) (Value, invStatus) {
		x, y := a[0].(SliceV), a[1].(SliceV)
		return done(m.eqBytes(x, y))
	}
	T[zz+"EqString"] = func(m *Machine, th *Thread, fr *Frame, f FuncV, a []Value) (Value, invStatus) {
		return done(m.strEq(a[0].(StrV), a[1].(StrV)))
	}
	T[zz+"Yield"] = func(m *Machine, th *Thread, fr *Frame, f FuncV, a []Value) (Value, invStatus) {
		if m.needYield(th, "yield") {
			return nil, invYield
		}
		return done(nil)
	}
	T[zz+"WaitQuiescent"] = func(m *Machine, th *Thread, fr *Frame, f FuncV, a []Value) (Value, invStatus) {
		if th.quiesceOK {
			th.quiesceOK = false
			return done(nil)
		}
		if !m.multi {
			return done(nil)
		}
		th.blockOn = "quiescent"
		return nil, invYield
	}
	T[zz+"MustFinish"] = func(m *Machine, th *Thread, fr *Frame, f FuncV, a []Value) (Value, invStatus) {
		th.mustFinish = true
		return done(nil)
	}
	T[zz+"MayBlock"] = func(m *Machine, th *Thread, fr *Frame, f FuncV, a []Value) (Value, invStatus) {
		th.mustFinish = false
		return done(nil)
	}
	T[zz+"ThreadsAlive"] = func(m *Machine, th *Thread, fr *Frame, f FuncV, a []Value) (Value, invStatus) {
		n := 0
		for _, t := range m.threads {
			if !t.done && t != th {
				n++
			}
		}
		return done(m.tt.BV(uint64(n), 64))
	}
	T[zz+"GlobalWrites"] = func(m *Machine, th *Thread, fr *Frame, f FuncV, a []Value) (Value, invStatus) {
		return done(m.tt.BV(uint64(m.globalWrites), 64))
	}
	T[zz+"ThreadsAliveIs"] = func(m *Machine, th *Thread, fr *Frame, f FuncV, a []Value) (Value, invStatus) {
		n := 0
		for _, t := range m.threads {
			if !t.done && t != th {
				n++
			}
		}
		return done(m.tt.Eq(m.tt.BV(uint64(n), 64), a[0].(*Term)))
	}
	T[zz+"UFBytes"] = func(m *Machine, th *Thread, fr *Frame, f FuncV, a []Value) (Value, invStatus) {
		name := m.argStr(a[0])
		outLen := m.argInt(a[1])
		var targs []*Term
		sig := fmt.Sprintf("%s_o%d", name, outLen)
		vs := a[2].(SliceV)
		if vs.c != nil {
			n := m.concretize(vs.len)
			off := m.concretize(vs.off)
			for i := uint64(0); i < n; i++ {
				s := m.loadCell(vs.c.elems[off+i], nil).(SliceV)
				t := m.sliceBytesConcat(s)
				if t == nil {
					sig += "_0"
					continue
				}
				sig += fmt.Sprintf("_%d", t.w/8)
				targs = append(targs, t)
			}
		}
		app := m.tt.UF(sig, outLen*8, targs...)
		if m.ufLastNonEmpty == nil {
			m.ufLastNonEmpty = map[int]bool{}
		}
		m.ufLastNonEmpty[app.id] = !strings.HasSuffix(sig, "_0")
		m.noteUF(name, sig, app)
		nt := m.tt.BV(uint64(outLen), 64)
		c := m.mkArrayCell(types.Typ[types.Uint8], nt, m.curSite)
		var arr Arr = ArrZero{8}
		for i := 0; i < outLen; i++ {
			hi := (outLen-i)*8 - 1
			arr = storeArr(m.tt, arr, m.tt.BV(uint64(i), 64), m.tt.Extract(app, hi, hi-7))
		}
		c.arr = arr
		return done(SliceV{c: c, off: m.tt.BV(0, 64), len: nt, cap: nt})
	}
	T[zz+"UFInverse"] = func(m *Machine, th *Thread, fr *Frame, f FuncV, a []Value) (Value, invStatus) {
		fn, gn := m.argStr(a[0]), m.argStr(a[1])
		m.ufInv[fn] = gn
		m.ufInv[gn] = fn
		return done(nil)
	}
	T[zz+"RealZone"] = func(m *Machine, th *Thread, fr *Frame, f FuncV, a []Value) (Value, invStatus) {
		// a *time.Location of the program that stands for a zone of the real tz database: calendar operations on
		// CONCRETE instants carrying it are evaluated with the real time package in that zone
		name := m.argStr(a[0])
		z, err := time.LoadLocation(name)
		if err != nil {
			panic(unsupported("zzverif.RealZone: " + err.Error()))
		}
		lt := f.fn.Signature.Results().At(0).Type().(*types.Pointer).Elem()
		c := m.newCell(lt, m.curSite)
		m.realZones[c] = z
		return done(Ptr{c: c})
	}
	T[zz+"UFCollisionFree"] = func(m *Machine, th *Thread, fr *Frame, f FuncV, a []Value) (Value, invStatus) {
		// cryptographic idealisation: two applications of this function with different arguments (contents or
		// lengths) give different results
		if m.ufCF == nil {
			m.ufCF = map[string]bool{}
		}
		m.ufCF[m.argStr(a[0])] = true
		return done(nil)
	}
	T[zz+"UFLeftInverse"] = func(m *Machine, th *Thread, fr *Frame, f FuncV, a []Value) (Value, invStatus) {
		m.ufInv[m.argStr(a[0])] = m.argStr(a[1])
		return done(nil)
	}
	T[zz+"Ghost"] = func(m *Machine, th *Thread, fr *Frame, f FuncV, a []Value) (Value, invStatus) {
		fv := a[0].(FuncV)
		th.syncDepth++
		nf := m.pushFrame(th, fv, nil, nil, func(Value) { th.syncDepth-- })
		_ = nf
		return nil, invPushed
	}
	T[zz+"FlatTime"] = func(m *Machine, th *Thread, fr *Frame, f FuncV, a []Value) (Value, invStatus) {
		t := m.newScalarInput(m.argStr(a[0]), 64, "int")
		// keep inside the range where Add/Sub of bounded durations cannot wrap: |t| < 2^61
		lim := m.tt.BV(uint64(1)<<61, 64)
		m.decide(1, func(int) *Term {
			return m.tt.And(m.tt.Cmp(OpSLT, m.tt.Neg(lim), t), m.tt.Cmp(OpSLT, t, lim))
		})
		return done(TimeV{ns: t, zero: m.tt.ff})
	}
	T[zz+"CivilTime"] = func(m *Machine, th *Thread, fr *Frame, f FuncV, a []Value) (Value, invStatus) {
		t := m.newCivilInput(m.argStr(a[0]), a[1])
		m.civSeen = append(m.civSeen, t.civ)
		return done(t)
	}
	T[zz+"CivilTimeYears"] = func(m *Machine, th *Thread, fr *Frame, f FuncV, a []Value) (Value, invStatus) {
		// like CivilTime, with the year inside [ylo, yhi] (constants) and the weekday tied to the date by the
		// calendar formula, so that two independent civil inputs have consistent weekdays
		t := m.newCivilInput(m.argStr(a[0]), a[1])
		ylo, yhi := a[2].(*Term), a[3].(*Term)
		if !ylo.IsConst() || !yhi.IsConst() || ylo.val < 1971 || yhi.val > 2090 || ylo.val > yhi.val {
			panic(unsupported("CivilTimeYears: constant year range inside 1971..2090 required"))
		}
		c := t.civ
		m.decide(1, func(int) *Term {
			return m.tt.And(m.tt.Cmp(OpULE, m.cf(ylo.val), c.y), m.tt.Cmp(OpULE, c.y, m.cf(yhi.val)), m.tt.Eq(c.w, m.weekdayOf(c.y, c.mo, c.d, ylo.val, yhi.val)))
		})
		m.civSeen = append(m.civSeen, t.civ)
		return done(t)
	}
	T[zz+"TimeFromNanos"] = func(m *Machine, th *Thread, fr *Frame, f FuncV, a []Value) (Value, invStatus) {
		return done(TimeV{ns: a[0].(*Term), zero: m.tt.ff})
	}
	T[zz+"TimeNanos"] = func(m *Machine, th *Thread, fr *Frame, f FuncV, a []Value) (Value, invStatus) {
		return done(a[0].(TimeV).ns)
	}
	T[zz+"SpareCap"] = func(m *Machine, th *Thread, fr *Frame, f FuncV, a []Value) (Value, invStatus) {
		// SpareCap(buf, off, n, c) = buf[off:off+n:off+n+c] with symbolic off/n/c (no implicit fork on bounds)
		s := a[0].(SliceV)
		off, n, c := a[1].(*Term), a[2].(*Term), a[3].(*Term)
		return done(SliceV{c: s.c, off: m.tt.Bin(OpAdd, s.off, off), len: n, cap: m.tt.Bin(OpAdd, n, c)})
	}
	T[zz+"ByteAt"] = func(m *Machine, th *Thread, fr *Frame, f FuncV, a []Value) (Value, invStatus) {
		// unchecked read of the backing array at absolute position (relative to slice start), ignoring len
		s := a[0].(SliceV)
		return done(s.c.arr.Select(m.tt, m.tt.Bin(OpAdd, s.off, a[1].(*Term))))
	}
	T[zz+"SameArray"] = func(m *Machine, th *Thread, fr *Frame, f FuncV, a []Value) (Value, invStatus) {
		x, y := a[0].(SliceV), a[1].(SliceV)
		return done(m.tt.Bool(x.c != nil && x.c == y.c))
	}
	T[zz+"Released"] = func(m *Machine, th *Thread, fr *Frame, f FuncV, a []Value) (Value, invStatus) {
		x := a[0].(SliceV)
		return done(m.tt.Bool(x.c != nil && x.c.root.released))
	}
	addSync(T)
	addLib(T)
	addTime(T)
	return T
}

func (m *Machine) noteUF(name, sig string, app *Term) {
	if m.ufCF[name] {
		for _, p := range m.ufApps[name] {
			if p == app || p.w != app.w {
				continue
			}
			same := len(p.args) == len(app.args) && m.ufSigOf[p.id] == sig
			if !same {
				m.pc = append(m.pc, m.tt.Not(m.tt.Eq(app, p)))
				continue
			}
			var eqs []*Term
			for i := range app.args {
				eqs = append(eqs, m.tt.Eq(app.args[i], p.args[i]))
			}
			m.pc = append(m.pc, m.tt.Implies(m.tt.Eq(app, p), m.tt.And(eqs...)))
		}
	}
	if m.ufSigOf == nil {
		m.ufSigOf = map[int]string{}
	}
	m.ufSigOf[app.id] = sig
	m.ufApps[name] = append(m.ufApps[name], app)
	inv, ok := m.ufInv[name]
	if !ok {
		return
	}
	// app = F(k..., x): the last (non-empty) argument is the data block, the earlier ones the key material.
	// Instantiate G(k..., F(k..., x)) = x for the inverse G.
	if len(app.args) == 0 || !m.ufLastNonEmpty[app.id] {
		return
	}
	x := app.args[len(app.args)-1]
	// signature of the inverse: same key argument widths, data argument width = width of F's result
	isig := fmt.Sprintf("%s_o%d", inv, x.w/8)
	parts := strings.Split(sig[len(name):], "_")
	// parts[0] == "", parts[1] == "o<outlen>", parts[2:] are the byte lengths of all arguments (including empty ones)
	lastIdx := len(parts) - 1
	for i := 2; i < len(parts); i++ {
		if i == lastIdx {
			isig += fmt.Sprintf("_%d", app.w/8)
		} else {
			isig += "_" + parts[i]
		}
	}
	gargs := append(append([]*Term{}, app.args[:len(app.args)-1]...), app)
	back := m.tt.UF(isig, x.w, gargs...)
	m.pc = append(m.pc, m.tt.Eq(back, x))
}

func (m *Machine) eqBytes(x, y SliceV) *Term {
	tt := m.tt
	lenEq := tt.Eq(x.len, y.len)
	if lenEq.IsFalse() {
		return lenEq
	}
	var n uint64
	switch {
	case x.len.IsConst():
		n = x.len.val
	case y.len.IsConst():
		n = y.len.val
	default:
		n = m.concretize(x.len)
		lenEq = tt.Eq(tt.BV(n, 64), y.len)
	}
	conj := []*Term{lenEq}
	for i := uint64(0); i < n; i++ {
		it := tt.BV(i, 64)
		conj = append(conj, tt.Eq(x.c.arr.Select(tt, tt.Bin(OpAdd, x.off, it)), y.c.arr.Select(tt, tt.Bin(OpAdd, y.off, it))))
	}
	return tt.And(conj...)
}

// assertion decides an assertion at the current point: a one-alternative decision node caches that it was checked.
func (m *Machine) assertion(c *Term, id string) {
	site := m.curSite
	// was this assertion instance already decided on an earlier run through the same prefix?
	m.decide(1, nil)
	node := m.nodes[len(m.nodes)-1]
	if node != nil && node.checked {
		if !c.IsTrue() {
			if c.IsFalse() {
				panic(&pathEnd{"assert false"})
			}
			m.pc = append(m.pc, c)
		}
		return
	}
	if node != nil {
		node.checked = true
	}
	if c.IsTrue() {
		m.stats.Asserts[id]++
		return
	}
	neg := m.tt.Not(c)
	v, _ := m.solver.Check(m.pc, []*Term{neg}, false, nil)
	switch v {
	case Unsat:
		m.stats.Asserts[id]++
		return
	case Unknown:
		m.inconclusive(fmt.Sprintf("solver unknown on assertion %s at %s (%s)", id, site, m.solver.LastErr))
		m.solverUnknown()
	case Sat:
		m.report("assert", id, site, "assertion "+id+" can fail", neg)
	}
	// continue with the assertion assumed, if that is possible
	if c.IsFalse() {
		panic(&pathEnd{"assert false"})
	}
	v2, _ := m.solver.Check(m.pc, []*Term{c}, false, nil)
	if v2 == Unsat {
		panic(&pathEnd{"assert always fails here"})
	}
	m.pc = append(m.pc, c)
}

// ---------------------------------------------------------------------------------------------------------
// globals and package initialisation

func isKitPkg(p *ssa.Package) bool {
	return p != nil && strings.HasPrefix(p.Pkg.Path(), kitMod)
}

func (m *Machine) globalCell(g *ssa.Global) *Cell {
	pkg := g.Package()
	if isKitPkg(pkg) {
		m.ensureInit(pkg)
		c, ok := m.globals[g]
		if !ok {
			c = m.newCell(g.Type().(*types.Pointer).Elem(), "global "+g.Name())
			c.isGlobal = true
			m.globals[g] = c
		}
		return c
	}
	m.ensureInit(pkg)
	c, ok := m.pglobals[g]
	if !ok {
		et := g.Type().(*types.Pointer).Elem()
		c = m.mkCell(et)
		m.pnext--
		c.id = m.pnext
		c.site = "global " + pkg.Pkg.Path() + "." + g.Name()
		m.setRoot(c, c)
		c.ghost = true
		m.pglobals[g] = c
		path := pkg.Pkg.Path()
		if noInitPkgs[path] || denyPkgPath(path) {
			// the package initializer is not executed: error variables are distinct opaque non-nil errors, everything
			// else scalar is unknown (poison) so that a read is reported instead of silently seeing a zero value
			if c.kind == cScalar && g.Name() != "init$guard" {
				if types.Identical(et, types.Universe.Lookup("error").Type()) {
					m.pnext--
					c.v = IfaceV{t: opaqueErrT, v: Opaque{kind: "error", id: m.pnext, data: &opaqueErr{msg: path + "." + g.Name()}}}
				} else if path == "time" && (g.Name() == "UTC" || g.Name() == "Local") {
					lc := m.mkCell(et.(*types.Pointer).Elem())
					m.pnext--
					lc.id = m.pnext
					lc.site = "time." + g.Name()
					m.setRoot(lc, lc)
					lc.ghost = true
					c.v = Ptr{c: lc}
				} else if _, isB := et.Underlying().(*types.Basic); !isB {
					c.v = Poison{"global " + path + "." + g.Name() + " (package initializer not executed)"}
				}
			}
		}
	}
	return c
}

var noInitPkgs = map[string]bool{"runtime": true, "os": true, "syscall": true, "reflect": true, "net": true, "net/http": true,
	"fmt": true, "log": true, "time": true, "sync": true, "sync/atomic": true, "unsafe": true, "internal/poll": true,
	"crypto/x509": true, "encoding/json": true, "math/big": true, "unicode": false, "crypto/tls": true, "testing": true,
	"internal/godebug": true, "internal/cpu": true, "internal/bytealg": true, "math/rand": true, "crypto/rand": true}

// ensureInit runs the package initializer once (per run for kit packages, once per worker for the rest). The
// initializer runs in tolerant mode: what cannot be executed poisons its result instead of failing the run.
func (m *Machine) ensureInit(pkg *ssa.Package) {
	if pkg == nil {
		return
	}
	kit := isKitPkg(pkg)
	if kit {
		if m.rinited[pkg] {
			return
		}
		m.rinited[pkg] = true
	} else {
		if m.pinited[pkg] {
			return
		}
		m.pinited[pkg] = true
	}
	path := pkg.Pkg.Path()
	if noInitPkgs[path] || (!kit && denyPkgPath(path)) {
		return
	}
	initFn := pkg.Func("init")
	if initFn == nil {
		return
	}
	m.L.ensureBuilt(initFn)
	if initFn.Blocks == nil {
		return
	}
	defer func() {
		if r := recover(); r != nil {
			m.inconclusive(fmt.Sprintf("initializer of %s did not complete: %v", path, r))
			if !kit {
				delete(m.pinited, pkg)
			}
			panic(r)
		}
	}()
	m.initDepth++
	defer func() { m.initDepth-- }()
	m.runSync(FuncV{fn: initFn}, nil, true, !kit)
}

func denyPkgPath(path string) bool {
	if deniedPkgs[path] {
		return true
	}
	for _, p := range []string{"github.com/lestrrat-go/", "github.com/sirupsen/", "github.com/alphadose/", "github.com/spiffe/",
		"github.com/mitchellh/", "google.golang.org/", "golang.org/x/", "crypto/", "k8s.io/", "github.com/"} {
		if strings.HasPrefix(path, p) && !strings.HasPrefix(path, kitMod) {
			return true
		}
	}
	return false
}

// runSync runs a function to completion on a temporary thread (no scheduling, no blocking).
func (m *Machine) runSync(f FuncV, args []Value, tolerant bool, persistent bool) Value {
	saveSite := m.curSite
	savePers := m.inPersistentInit
	if persistent {
		m.inPersistentInit = true
	}
	defer func() { m.curSite = saveSite; m.inPersistentInit = savePers }()
	th := &Thread{id: -1, name: "sync", syncDepth: 1}
	if m.cur != nil {
		th.vc = m.cur.vc
	}
	fr := m.pushFrame(th, f, args, nil, nil)
	fr.tolerant = tolerant
	for !th.done {
		if th.blocked {
			panic(unsupported("synchronous engine call blocked in " + m.funcName(f)))
		}
		if len(th.frames) > 0 {
			th.frames[len(th.frames)-1].tolerant = tolerant
		}
		m.step(th)
	}
	return th.result
}

// init calls to other packages from within an initializer are no-ops: every package is initialised lazily on first use.
func isInitFn(fn *ssa.Function) bool {
	return fn.Name() == "init" && fn.Synthetic != "" && fn.Signature.Recv() == nil
}

// isGhostFn: allocations made by harness/stub/model code are ghost state (not race-checked).
func (m *Machine) isGhostFn(fn *ssa.Function) bool {
	return m.ghostDepth > 0 || m.isHarnessFn(fn)
}

// ---------------------------------------------------------------------------------------------------------
// native calls on opaque values

func (m *Machine) opaqueImplements(iv IfaceV, at types.Type) bool {
	op := iv.v.(Opaque)
	it := at.Underlying().(*types.Interface)
	switch op.kind {
	case "error":
		oe := op.data.(*opaqueErr)
		for i := 0; i < it.NumMethods(); i++ {
			mt := it.Method(i)
			switch mt.Name() {
			case "Error":
			case "Unwrap":
				res := mt.Type().(*types.Signature).Results()
				if res.Len() != 1 {
					return false
				}
				_, isSlice := res.At(0).Type().Underlying().(*types.Slice)
				if isSlice != (len(oe.wraps) > 1) || len(oe.wraps) == 0 {
					return false
				}
			default:
				return false
			}
		}
		return true
	case "nop":
		return true
	}
	return false
}

func (m *Machine) nativeCall(th *Thread, fr *Frame, f FuncV, args []Value) (Value, invStatus) {
	switch {
	case strings.HasPrefix(f.native, "opaque."):
		op := f.data.(Opaque)
		meth := f.native[len("opaque."):]
		switch op.kind {
		case "error":
			oe := op.data.(*opaqueErr)
			switch meth {
			case "Error":
				return done(m.mkStr(oe.msg))
			case "Unwrap":
				if len(oe.wraps) == 1 {
					return done(oe.wraps[0])
				}
				n := m.tt.BV(uint64(len(oe.wraps)), 64)
				c := m.mkArrayCell(types.Universe.Lookup("error").Type(), n, m.curSite)
				for i, w := range oe.wraps {
					c.elems[i].v = w
				}
				return done(SliceV{c: c, off: m.tt.BV(0, 64), len: n, cap: n})
			}
		case "nop":
			// any method: zero results
			if sig, ok := op.data.(map[string]*types.Signature); ok {
				if s := sig[meth]; s != nil {
					switch s.Results().Len() {
					case 0:
						return done(nil)
					case 1:
						return done(m.zeroValue(s.Results().At(0).Type()))
					default:
						return done(m.zeroValue(s.Results()))
					}
				}
			}
			return done(nil)
		}
	case f.native == "closure":
		fn := f.data.(func(m *Machine, th *Thread, args []Value) (Value, invStatus))
		return fn(m, th, args)
	}
	panic(unsupported("native call " + f.native))
}

func (m *Machine) mkOpaqueErr(msg string, wraps ...Value) Value {
	m.nextObj++
	return IfaceV{t: opaqueErrT, v: Opaque{kind: "error", id: m.nextObj, data: &opaqueErr{msg: msg, wraps: wraps}}}
}

// ---------------------------------------------------------------------------------------------------------
// vector clocks / race detection

func (m *Machine) vcJoin(a, b []int) []int {
	if len(b) > len(a) {
		na := make([]int, len(b))
		copy(na, a)
		a = na
	} else {
		a = append([]int(nil), a...)
	}
	for i, v := range b {
		if v > a[i] {
			a[i] = v
		}
	}
	return a
}

func (m *Machine) vcTick(th *Thread) {
	if th.id < 0 {
		return
	}
	for len(th.vc) <= th.id {
		th.vc = append(th.vc, 0)
	}
	th.vc = append([]int(nil), th.vc...)
	th.vc[th.id]++
}

func vcLeq(a *access, vc []int) bool {
	// access a happened-before the point with clock vc iff a.vc[a.tid] <= vc[a.tid]
	if a.tid < 0 {
		return true
	}
	if a.tid >= len(vc) {
		return false
	}
	return a.vc[a.tid] <= vc[a.tid]
}

func (m *Machine) onAccess(c *Cell, write bool, site string) {
	if !m.multi || m.cur == nil || !m.raceCheck {
		return
	}
	root := c.root
	if root == nil || root.ghost || c.ghost || m.ghostDepth > 0 {
		return
	}
	th := m.cur
	if th.syncDepth > 0 {
		return
	}
	cur := &access{tid: th.id, vc: th.vc, site: site}
	if c.lastW != nil && c.lastW.tid != th.id && !vcLeq(c.lastW, th.vc) {
		m.raceFound(c, c.lastW, cur, write)
	}
	if write {
		for _, r := range c.lastR {
			if r.tid != th.id && !vcLeq(r, th.vc) {
				m.raceFound(c, r, cur, write)
			}
		}
		c.lastW = cur
		c.lastR = nil
	} else {
		if c.lastR == nil {
			c.lastR = map[int]*access{}
		}
		c.lastR[th.id] = cur
	}
}

func (m *Machine) onMapAccess(mo *MapObj, write bool) {
	if !m.multi || m.cur == nil || !m.raceCheck || mo.ghost || m.ghostDepth > 0 {
		return
	}
	th := m.cur
	if th.syncDepth > 0 {
		return
	}
	cur := &access{tid: th.id, vc: th.vc, site: m.curSite}
	if mo.lastW != nil && mo.lastW.tid != th.id && !vcLeq(mo.lastW, th.vc) {
		m.raceFoundMsg(fmt.Sprintf("map#%d", mo.id), mo.lastW, cur)
	}
	if write {
		for _, r := range mo.lastR {
			if r.tid != th.id && !vcLeq(r, th.vc) {
				m.raceFoundMsg(fmt.Sprintf("map#%d", mo.id), r, cur)
			}
		}
		mo.lastW = cur
		mo.lastR = nil
	} else {
		if mo.lastR == nil {
			mo.lastR = map[int]*access{}
		}
		mo.lastR[th.id] = cur
	}
}

func (m *Machine) raceFound(c *Cell, a, b *access, write bool) {
	m.raceFoundMsg(fmt.Sprintf("obj#%d(%s %s)", c.root.id, typeStr(c.root.typ), c.root.site), a, b)
}

func (m *Machine) raceFoundMsg(what string, a, b *access) {
	msg := fmt.Sprintf("data race on %s: %s (thread %d) / %s (thread %d)", what, a.site, a.tid, b.site, b.tid)
	if m.H.Opts["race"] == "violation" {
		m.report("race", "no_data_race", b.site, msg, nil)
	} else {
		m.inconclusive("RACE " + msg)
	}
}

var _ = ssa.NaiveForm

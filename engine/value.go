package main

import (
	"fmt"
	"go/types"

	"golang.org/x/tools/go/ssa"
)

type Value interface{}

type CellKind uint8

const (
	cScalar CellKind = iota
	cStruct
	cArray
	cBytes // array of fixed-width scalars kept as a functional array
)

// Cell is a memory location (or an aggregate of locations). Execution is never cloned (paths are re-executed from
// the start), so cells are ordinary mutable Go objects and pointers are Go pointers to them.
type Cell struct {
	kind   CellKind
	v      Value
	fields []*Cell
	elems  []*Cell
	arr    Arr
	n      *Term // cBytes: number of elements (bv64)
	ew     int   // cBytes: element width in bits
	signed bool
	typ    types.Type
	id     int
	site   string
	root   *Cell // enclosing allocation (for pool release / race reports)
	// allocation-level metadata (valid on root)
	released bool
	isGlobal bool // package-level variable of a kit package
	ghost    bool // allocated by harness code: not race-checked
	// race detection (per location)
	lastW *access
	lastR map[int]*access
}

type access struct {
	tid  int
	vc   []int
	site string
}

type Ptr struct {
	c   *Cell
	idx *Term  // element index when c.kind == cBytes and the pointer designates one element
	fn  *FuncV // pointer-to-function cell unused
}

type SliceV struct {
	c             *Cell // backing array cell (cBytes or cArray); nil for the nil slice
	off, len, cap *Term
}

type StrV struct {
	arr Arr
	n   *Term
	s   string
	isC bool
}

type MapEntry struct {
	k Value
	v *Cell
}

type MapObj struct {
	entries []*MapEntry
	kt, vt  types.Type
	id      int
	lastW   *access
	lastR   map[int]*access
	ghost   bool
}

type MapV struct{ m *MapObj }

type IfaceV struct {
	t types.Type // dynamic type; nil for the nil interface
	v Value
}

type FuncV struct {
	fn      *ssa.Function
	bind    []Value
	builtin *ssa.Builtin
	native  string // engine-provided closure (e.g. context cancel funcs from intrinsics)
	data    interface{}
}

type StructV struct{ f []Value }

type ArrayV struct {
	elems []Value // composite
	arr   Arr     // scalar
	n     int
	ew    int
	isB   bool
}

type TupleV []Value

// TimeV is the flat model of time.Time: nanoseconds since the Unix epoch; zero is the distinguished zero Time.
// When civ != nil the value is in civil form (cron Next harnesses).
type TimeV struct {
	ns   *Term // bv64
	zero *Term // bool
	civ  *Civil
	loc  Value
}

type Opaque struct {
	kind string
	id   int
	data interface{}
}

type Poison struct{ why string }

type ChanV struct{ c *ChanObj }

type ChanObj struct {
	cap     int
	buf     []chanItem
	closed  bool
	id      int
	et      types.Type
	site    string
	closeVC []int
	freed   [][]int
	// rendezvous bookkeeping lives in the scheduler (blocked senders / receivers are threads)
	sendq []*Thread
	recvq []*Thread
}

type chanItem struct {
	v  Value
	vc []int
}

// ---------------------------------------------------------------------------------------------------------

func isScalarBasic(t types.Type) (w int, signed bool, ok bool) {
	b, isB := t.Underlying().(*types.Basic)
	if !isB {
		return 0, false, false
	}
	switch b.Kind() {
	case types.Bool, types.UntypedBool:
		return 0, false, true
	case types.Int, types.Int64, types.UntypedInt:
		return 64, true, true
	case types.Int8:
		return 8, true, true
	case types.Int16:
		return 16, true, true
	case types.Int32, types.UntypedRune:
		return 32, true, true
	case types.Uint, types.Uint64, types.Uintptr:
		return 64, false, true
	case types.Uint8:
		return 8, false, true
	case types.Uint16:
		return 16, false, true
	case types.Uint32:
		return 32, false, true
	}
	return 0, false, false
}

func isTimeType(t types.Type) bool {
	n, ok := t.(*types.Named)
	if !ok {
		return false
	}
	o := n.Obj()
	return o.Pkg() != nil && o.Pkg().Path() == "time" && o.Name() == "Time"
}

func namedIs(t types.Type, pkg, name string) bool {
	if p, ok := t.(*types.Pointer); ok {
		t = p.Elem()
	}
	n, ok := t.(*types.Named)
	if !ok {
		return false
	}
	o := n.Obj()
	return o.Pkg() != nil && o.Pkg().Path() == pkg && o.Name() == name
}

// bytesElem reports whether an array/slice element type is kept as a functional scalar array.
func bytesElem(t types.Type) (int, bool, bool) {
	w, s, ok := isScalarBasic(t)
	if !ok || w == 0 {
		return 0, false, false
	}
	return w, s, true
}

func (m *Machine) newCell(t types.Type, site string) *Cell {
	c := m.mkCell(t)
	m.nextObj++
	c.id = m.nextObj
	c.site = site
	m.setRoot(c, c)
	if m.curFn != nil && m.isGhostFn(m.curFn) {
		c.ghost = true
	}
	return c
}

func (m *Machine) setRoot(c, root *Cell) {
	c.root = root
	for _, f := range c.fields {
		m.setRoot(f, root)
	}
	for _, e := range c.elems {
		m.setRoot(e, root)
	}
}

func (m *Machine) mkCell(t types.Type) *Cell {
	if isTimeType(t) {
		return &Cell{kind: cScalar, typ: t, v: m.zeroValue(t)}
	}
	switch u := t.Underlying().(type) {
	case *types.Struct:
		c := &Cell{kind: cStruct, typ: t}
		for i := 0; i < u.NumFields(); i++ {
			c.fields = append(c.fields, m.mkCell(u.Field(i).Type()))
		}
		return c
	case *types.Array:
		if w, s, ok := bytesElem(u.Elem()); ok {
			return &Cell{kind: cBytes, typ: t, arr: ArrZero{w}, n: m.tt.BV(uint64(u.Len()), 64), ew: w, signed: s}
		}
		c := &Cell{kind: cArray, typ: t}
		for i := int64(0); i < u.Len(); i++ {
			c.elems = append(c.elems, m.mkCell(u.Elem()))
		}
		return c
	}
	return &Cell{kind: cScalar, typ: t, v: m.zeroValue(t)}
}

// mkArrayCell makes a backing array for a slice with element type et and n elements (concrete for composite).
func (m *Machine) mkArrayCell(et types.Type, n *Term, site string) *Cell {
	var c *Cell
	if w, s, ok := bytesElem(et); ok {
		c = &Cell{kind: cBytes, arr: ArrZero{w}, n: n, ew: w, signed: s, typ: types.NewSlice(et)}
	} else {
		if !n.IsConst() {
			panic(unsupported("symbolic length for array of " + et.String()))
		}
		c = &Cell{kind: cArray, typ: types.NewSlice(et)}
		for i := uint64(0); i < n.val; i++ {
			c.elems = append(c.elems, m.mkCell(et))
		}
	}
	m.nextObj++
	c.id = m.nextObj
	c.site = site
	m.setRoot(c, c)
	if m.curFn != nil && m.isGhostFn(m.curFn) {
		c.ghost = true
	}
	return c
}

func (m *Machine) zeroValue(t types.Type) Value {
	if isTimeType(t) {
		return TimeV{ns: m.tt.BV(0, 64), zero: m.tt.tt}
	}
	switch u := t.Underlying().(type) {
	case *types.Basic:
		if w, _, ok := isScalarBasic(t); ok {
			if w == 0 {
				return m.tt.ff
			}
			return m.tt.BV(0, w)
		}
		switch u.Kind() {
		case types.String, types.UntypedString:
			return StrV{isC: true, s: "", n: m.tt.BV(0, 64)}
		case types.UnsafePointer:
			return Ptr{}
		case types.Float64, types.Float32, types.UntypedFloat:
			return FloatV{f: 0, isC: true}
		case types.UntypedNil:
			return Ptr{}
		}
	case *types.Pointer:
		return Ptr{}
	case *types.Slice:
		z := m.tt.BV(0, 64)
		return SliceV{off: z, len: z, cap: z}
	case *types.Map:
		return MapV{}
	case *types.Chan:
		return ChanV{}
	case *types.Interface:
		return IfaceV{}
	case *types.Signature:
		return FuncV{}
	case *types.Struct:
		s := StructV{}
		for i := 0; i < u.NumFields(); i++ {
			s.f = append(s.f, m.zeroValue(u.Field(i).Type()))
		}
		return s
	case *types.Array:
		if w, _, ok := bytesElem(u.Elem()); ok {
			return ArrayV{arr: ArrZero{w}, n: int(u.Len()), ew: w, isB: true}
		}
		a := ArrayV{n: int(u.Len())}
		for i := int64(0); i < u.Len(); i++ {
			a.elems = append(a.elems, m.zeroValue(u.Elem()))
		}
		return a
	case *types.Tuple:
		var tv TupleV
		for i := 0; i < u.Len(); i++ {
			tv = append(tv, m.zeroValue(u.At(i).Type()))
		}
		return tv
	}
	panic(unsupported("zero value of " + t.String()))
}

// FloatV: only concrete floats plus a narrow symbolic form (int64 converted to float, scaled by a constant),
// enough for coalescing's backoff arithmetic. See floatMul / floatToInt in interp.
type FloatV struct {
	f   float64
	isC bool
	t   *Term // symbolic: FP term is not modelled; kept as opaque marker
	fp  string
}

func (m *Machine) load(p Ptr, site string) Value {
	if p.c == nil {
		panic(&goPanic{kind: "nil dereference", site: site})
	}
	m.onAccess(p.c, false, site)
	return m.loadCell(p.c, p.idx)
}

func (m *Machine) loadCell(c *Cell, idx *Term) Value {
	switch c.kind {
	case cScalar:
		return c.v
	case cStruct:
		s := StructV{f: make([]Value, len(c.fields))}
		for i, f := range c.fields {
			s.f[i] = m.loadCell(f, nil)
		}
		return s
	case cArray:
		a := ArrayV{n: len(c.elems), elems: make([]Value, len(c.elems))}
		for i, e := range c.elems {
			a.elems[i] = m.loadCell(e, nil)
		}
		return a
	case cBytes:
		if idx != nil {
			return c.arr.Select(m.tt, idx)
		}
		if !c.n.IsConst() {
			panic(unsupported("load of whole array with symbolic length"))
		}
		return ArrayV{arr: c.arr, n: int(c.n.val), ew: c.ew, isB: true}
	}
	panic("bad cell")
}

func (m *Machine) store(p Ptr, v Value, site string) {
	if p.c == nil {
		panic(&goPanic{kind: "nil dereference", site: site})
	}
	if p.c.root != nil && p.c.root.isGlobal && m.initDepth == 0 {
		m.globalWrites++
	}
	m.onAccess(p.c, true, site)
	m.storeCell(p.c, p.idx, v)
}

func (m *Machine) storeCell(c *Cell, idx *Term, v Value) {
	if _, bad := v.(Poison); bad && c.kind != cScalar {
		panic(unsupported("store of poison into aggregate: " + v.(Poison).why))
	}
	switch c.kind {
	case cScalar:
		c.v = v
	case cStruct:
		s, ok := v.(StructV)
		if !ok {
			panic(fmt.Sprintf("store of %T into struct cell %v", v, c.typ))
		}
		for i, f := range c.fields {
			m.storeCell(f, nil, s.f[i])
		}
	case cArray:
		a := v.(ArrayV)
		for i, e := range c.elems {
			m.storeCell(e, nil, a.elems[i])
		}
	case cBytes:
		if idx != nil {
			t := v.(*Term)
			if t.w != c.ew {
				panic(fmt.Sprintf("store width %d into array of width %d", t.w, c.ew))
			}
			c.arr = storeArr(m.tt, c.arr, idx, t)
			return
		}
		a := v.(ArrayV)
		c.arr = a.arr
	}
}

type unsupportedErr struct{ what string }

func unsupported(what string) *unsupportedErr { return &unsupportedErr{what} }

// goPanic is a Go-level panic of the program under analysis (explicit or run-time check).
type goPanic struct {
	kind  string
	site  string
	value Value
}

func (m *Machine) mkStr(s string) StrV {
	return StrV{isC: true, s: s, n: m.tt.BV(uint64(len(s)), 64)}
}

func (m *Machine) strArr(s StrV) Arr {
	if s.isC {
		return concreteArr([]byte(s.s))
	}
	return s.arr
}

// strByte returns byte i of the string as a term.
func (m *Machine) strByte(s StrV, i *Term) *Term {
	if s.isC && i.IsConst() {
		if i.val < uint64(len(s.s)) {
			return m.tt.BV(uint64(s.s[i.val]), 8)
		}
		return m.tt.BV(0, 8)
	}
	return m.strArr(s).Select(m.tt, i)
}

// concretize a symbolic string whose length and bytes are all constants.
func (m *Machine) strConcrete(s StrV) (string, bool) {
	if s.isC {
		return s.s, true
	}
	if !s.n.IsConst() {
		return "", false
	}
	b := make([]byte, s.n.val)
	for i := range b {
		t := s.arr.Select(m.tt, m.tt.BV(uint64(i), 64))
		if !t.IsConst() {
			return "", false
		}
		b[i] = byte(t.val)
	}
	return string(b), true
}

package main

import (
	"time"
	"fmt"
	"go/types"
	"path/filepath"
	"strconv"
	"strings"
)

func (m *Machine) isErrorValue(v Value) bool {
	iv, ok := v.(IfaceV)
	if !ok || iv.t == nil {
		return false
	}
	if _, isOp := iv.v.(Opaque); isOp {
		return iv.v.(Opaque).kind == "error"
	}
	errT := types.Universe.Lookup("error").Type().Underlying().(*types.Interface)
	return types.Implements(iv.t, errT)
}

// goValue converts a concrete engine value to a Go value for native formatting; ok=false when symbolic.
func (m *Machine) goValue(v Value) (interface{}, bool) {
	switch x := v.(type) {
	case *Term:
		if !x.IsConst() {
			return nil, false
		}
		if x.w == 0 {
			return x.val == 1, true
		}
		return x.SInt(), true
	case StrV:
		s, ok := m.strConcrete(x)
		return s, ok
	case IfaceV:
		if x.t == nil {
			return nil, true
		}
		if op, ok := x.v.(Opaque); ok && op.kind == "error" {
			return fmt.Errorf("%s", op.data.(*opaqueErr).msg), true
		}
		if _, _, ok := isScalarBasic(x.t); ok {
			return m.goValue(x.v)
		}
		if b, ok := x.t.Underlying().(*types.Basic); ok && b.Info()&types.IsString != 0 {
			return m.goValue(x.v)
		}
		return "<" + typeStr(x.t) + ">", true
	case FloatV:
		if x.isC {
			return x.f, true
		}
	}
	return nil, false
}

func (m *Machine) variadicArgs(v Value) []Value {
	s := v.(SliceV)
	if s.c == nil {
		return nil
	}
	n := m.concretize(s.len)
	off := m.concretize(s.off)
	out := make([]Value, n)
	for i := uint64(0); i < n; i++ {
		out[i] = m.loadCell(s.c.elems[off+i], nil)
	}
	return out
}

func (m *Machine) opaqueString(tag string) StrV {
	m.havocSeq++
	nm := fmt.Sprintf("%s#%d", tag, m.havocSeq)
	n := m.tt.Var(nm+".len", 64)
	m.pc = append(m.pc, m.tt.Cmp(OpULE, n, m.tt.BV(64, 64)))
	return StrV{arr: ArrBase{m.tt.ArrVarT(nm, 8)}, n: n}
}

func (m *Machine) sprintf(format string, args []Value) StrV {
	gv := make([]interface{}, len(args))
	for i, a := range args {
		g, ok := m.goValue(a)
		if !ok {
			return m.opaqueString("fmt")
		}
		gv[i] = g
	}
	return m.mkStr(fmt.Sprintf(strings.ReplaceAll(format, "%w", "%v"), gv...))
}

// nativeConcrete wraps a pure library function: evaluated natively when every argument is concrete, otherwise the
// real SSA body is executed (the intrinsic declines with errDecline).
type declineT struct{}

func nativeStr1(fn func(string) string) intrinsic {
	return func(m *Machine, th *Thread, fr *Frame, f FuncV, a []Value) (Value, invStatus) {
		s, ok := m.strConcrete(a[0].(StrV))
		if !ok {
			panic(declineT{})
		}
		return done(m.mkStr(fn(s)))
	}
}

func addLib(T map[string]intrinsic) {
	T["path/filepath.Dir"] = nativeStr1(filepath.Dir)
	T["path/filepath.Base"] = nativeStr1(filepath.Base)
	T["path/filepath.Clean"] = nativeStr1(filepath.Clean)
	T["path/filepath.Join"] = func(m *Machine, th *Thread, fr *Frame, f FuncV, a []Value) (Value, invStatus) {
		var parts []string
		for _, v := range m.variadicArgs(a[0]) {
			s, ok := m.strConcrete(v.(StrV))
			if !ok {
				panic(declineT{})
			}
			parts = append(parts, s)
		}
		return done(m.mkStr(filepath.Join(parts...)))
	}
	T["strconv.Itoa"] = func(m *Machine, th *Thread, fr *Frame, f FuncV, a []Value) (Value, invStatus) {
		t := a[0].(*Term)
		if !t.IsConst() {
			panic(declineT{})
		}
		return done(m.mkStr(strconv.FormatInt(t.SInt(), 10)))
	}
	T["strconv.FormatInt"] = func(m *Machine, th *Thread, fr *Frame, f FuncV, a []Value) (Value, invStatus) {
		t, b := a[0].(*Term), a[1].(*Term)
		if !t.IsConst() || !b.IsConst() {
			panic(declineT{})
		}
		return done(m.mkStr(strconv.FormatInt(t.SInt(), int(b.SInt()))))
	}
	T["fmt.Errorf"] = func(m *Machine, th *Thread, fr *Frame, f FuncV, a []Value) (Value, invStatus) {
		format, ok := m.strConcrete(a[0].(StrV))
		if !ok {
			format = "<symbolic format>"
		}
		args := m.variadicArgs(a[1])
		var wraps []Value
		if strings.Contains(format, "%w") {
			for _, x := range args {
				if m.isErrorValue(x) {
					wraps = append(wraps, x)
				}
			}
		}
		msg := format
		if s, ok := m.strConcrete(m.sprintf(format, args)); ok {
			msg = s
		}
		return done(m.mkOpaqueErr(msg, wraps...))
	}
	T["fmt.Sprintf"] = func(m *Machine, th *Thread, fr *Frame, f FuncV, a []Value) (Value, invStatus) {
		format, ok := m.strConcrete(a[0].(StrV))
		if !ok {
			return done(m.opaqueString("fmt"))
		}
		return done(m.sprintf(format, m.variadicArgs(a[1])))
	}
	T["fmt.Sprint"] = func(m *Machine, th *Thread, fr *Frame, f FuncV, a []Value) (Value, invStatus) {
		args := m.variadicArgs(a[0])
		gv := make([]interface{}, len(args))
		for i, x := range args {
			g, ok := m.goValue(x)
			if !ok {
				return done(m.opaqueString("fmt"))
			}
			gv[i] = g
		}
		return done(m.mkStr(fmt.Sprint(gv...)))
	}
	nop := func(m *Machine, th *Thread, fr *Frame, f FuncV, a []Value) (Value, invStatus) {
		sig := f.fn.Signature
		switch sig.Results().Len() {
		case 0:
			return done(nil)
		case 1:
			return done(m.zeroValue(sig.Results().At(0).Type()))
		}
		return done(m.zeroValue(sig.Results()))
	}
	for _, n := range []string{"fmt.Println", "fmt.Printf", "fmt.Print", "fmt.Fprintf", "fmt.Fprintln", "fmt.Fprint", "runtime.Gosched",
		"runtime.KeepAlive", "log.Printf", "log.Println", "log.Print", "(*strings.Builder).copyCheck", "runtime.SetFinalizer",
		"internal/race.Enable", "internal/race.Disable", "internal/race.Acquire", "internal/race.Release", "internal/race.ReleaseMerge",
		"internal/race.Read", "internal/race.Write", "internal/race.ReadRange", "internal/race.WriteRange"} {
		T[n] = nop
	}
	T["(*strings.Builder).String"] = func(m *Machine, th *Thread, fr *Frame, f FuncV, a []Value) (Value, invStatus) {
		buf := fieldByName(ptrCell(a[0], "Builder"), "buf").v.(SliceV)
		if buf.c == nil {
			return done(m.mkStr(""))
		}
		arr := copyArr(m.tt, ArrZero{8}, m.tt.BV(0, 64), buf.c.arr, buf.off, buf.len)
		st := StrV{arr: arr, n: buf.len}
		if cs, ok := m.strConcrete(st); ok {
			return done(m.mkStr(cs))
		}
		return done(st)
	}
	ident := func(m *Machine, th *Thread, fr *Frame, f FuncV, a []Value) (Value, invStatus) { return done(a[0]) }
	T["internal/stringslite.Clone"] = ident
	T["strings.Clone"] = ident
	T["internal/abi.NoEscape"] = ident
	T["internal/abi.Escape"] = ident
	T["errors.As"] = func(m *Machine, th *Thread, fr *Frame, f FuncV, a []Value) (Value, invStatus) {
		target := a[1].(IfaceV)
		if target.t == nil {
			panic(&goPanic{kind: "errors: target cannot be nil"})
		}
		tp, ok := target.v.(Ptr)
		pt, ok2 := target.t.(*types.Pointer)
		if !ok || !ok2 || tp.c == nil {
			panic(&goPanic{kind: "errors: target must be a non-nil pointer"})
		}
		T := pt.Elem()
		var walk func(e Value, depth int) bool
		walk = func(e Value, depth int) bool {
			iv, ok := e.(IfaceV)
			if !ok || iv.t == nil || depth > 16 {
				return false
			}
			op, isOp := iv.v.(Opaque)
			if types.IsInterface(T) {
				if (isOp && m.opaqueImplements(iv, T)) || (!isOp && types.Implements(iv.t, T.Underlying().(*types.Interface))) {
					m.storeCell(tp.c, nil, iv)
					return true
				}
			} else if !isOp && types.Identical(iv.t, T) {
				m.storeCell(tp.c, nil, iv.v)
				return true
			}
			if isOp && op.kind == "error" {
				for _, w := range op.data.(*opaqueErr).wraps {
					if walk(w, depth+1) {
						return true
					}
				}
				return false
			}
			if !isOp {
				if fn := m.L.Prog.LookupMethod(iv.t, nil, "Unwrap"); fn != nil && fn.Signature.Results().Len() == 1 {
					res := m.runSync(FuncV{fn: fn}, []Value{iv.v}, false, false)
					if sl, ok := res.(SliceV); ok {
						for _, w := range m.variadicArgs(sl) {
							if walk(w, depth+1) {
								return true
							}
						}
						return false
					}
					return walk(res, depth+1)
				}
			}
			return false
		}
		return done(m.tt.Bool(walk(a[0], 0)))
	}
	T[kitMod+"/logger.NewLogger"] = func(m *Machine, th *Thread, fr *Frame, f FuncV, a []Value) (Value, invStatus) {
		return done(m.nopIface(f.fn.Signature.Results().At(0).Type()))
	}
	T[zz+"Nop"] = func(m *Machine, th *Thread, fr *Frame, f FuncV, a []Value) (Value, invStatus) {
		// Nop(ptrToInterfaceVar): stores an object whose every method returns zero values
		p := a[0].(IfaceV).v.(Ptr)
		it := a[0].(IfaceV).t.(*types.Pointer).Elem()
		m.storeCell(p.c, nil, m.nopIface(it))
		return done(nil)
	}
}

func (m *Machine) nopIface(it types.Type) Value {
	sigs := map[string]*types.Signature{}
	if in, ok := it.Underlying().(*types.Interface); ok {
		for i := 0; i < in.NumMethods(); i++ {
			sigs[in.Method(i).Name()] = in.Method(i).Type().(*types.Signature)
		}
	}
	m.nextObj++
	return IfaceV{t: opaqueNopT, v: Opaque{kind: "nop", id: m.nextObj, data: sigs}}
}

// ---------------------------------------------------------------------------------------------------------
// time (flat model)

func addTime(T map[string]intrinsic) {
	tm := func(v Value) TimeV {
		t, ok := v.(TimeV)
		if !ok {
			panic(fmt.Sprintf("time intrinsic on %T", v))
		}
		if t.civ != nil {
			panic(unsupported("flat time intrinsic on civil time"))
		}
		return t
	}
	nonZero := func(m *Machine, t TimeV, what string) {
		m.assumeSupported(m.tt.Not(t.zero), what+" on the zero time.Time (flat model)")
	}
	T["(time.Time).Add"] = func(m *Machine, th *Thread, fr *Frame, f FuncV, a []Value) (Value, invStatus) {
		if a[0].(TimeV).civ != nil {
			return done(m.civilAdd(a[0].(TimeV), a[1].(*Term)))
		}
		t := tm(a[0])
		nonZero(m, t, "Add")
		return done(TimeV{ns: m.tt.Bin(OpAdd, t.ns, a[1].(*Term)), zero: m.tt.ff, loc: t.loc})
	}
	T["(time.Time).Sub"] = func(m *Machine, th *Thread, fr *Frame, f FuncV, a []Value) (Value, invStatus) {
		if a[0].(TimeV).civ != nil {
			return done(m.civilSub(a[0].(TimeV), a[1].(TimeV)))
		}
		t, u := tm(a[0]), tm(a[1])
		nonZero(m, t, "Sub")
		nonZero(m, u, "Sub")
		return done(m.tt.Bin(OpSub, t.ns, u.ns))
	}
	cmp := func(kind string) intrinsic {
		return func(m *Machine, th *Thread, fr *Frame, f FuncV, a []Value) (Value, invStatus) {
			if a[0].(TimeV).civ != nil || a[1].(TimeV).civ != nil {
				return done(m.civilCmp(kind, a[0].(TimeV), a[1].(TimeV)))
			}
			t, u := tm(a[0]), tm(a[1])
			tt := m.tt
			lt := tt.Or(tt.And(t.zero, tt.Not(u.zero)), tt.And(tt.Not(t.zero), tt.Not(u.zero), tt.Cmp(OpSLT, t.ns, u.ns)))
			gt := tt.Or(tt.And(u.zero, tt.Not(t.zero)), tt.And(tt.Not(t.zero), tt.Not(u.zero), tt.Cmp(OpSLT, u.ns, t.ns)))
			switch kind {
			case "Before":
				return done(lt)
			case "After":
				return done(gt)
			case "Equal":
				return done(tt.And(tt.Not(lt), tt.Not(gt)))
			}
			return done(tt.Ite(lt, tt.BV(^uint64(0), 64), tt.Ite(gt, tt.BV(1, 64), tt.BV(0, 64))))
		}
	}
	T["(time.Time).Before"] = cmp("Before")
	T["(time.Time).After"] = cmp("After")
	// Unix / UnixMilli / UnixMicro: floor division of the nanosecond count by a constant
	for name, div := range map[string]uint64{"Unix": 1000000000, "UnixMilli": 1000000, "UnixMicro": 1000} {
		div := div
		name := name
		T["(time.Time)."+name] = func(m *Machine, th *Thread, fr *Frame, f FuncV, a []Value) (Value, invStatus) {
			t := tm(a[0])
			nonZero(m, t, name)
			tt := m.tt
			d := tt.BV(div, 64)
			q := tt.Bin(OpSDiv, t.ns, d)
			r := tt.Bin(OpSRem, t.ns, d)
			neg := tt.Cmp(OpSLT, r, tt.BV(0, 64))
			return done(tt.Ite(neg, tt.Bin(OpSub, q, tt.BV(1, 64)), q))
		}
	}
	T["(time.Time).Equal"] = cmp("Equal")
	T["(time.Time).Compare"] = cmp("Compare")
	T["(time.Time).ZoneBounds"] = func(m *Machine, th *Thread, fr *Frame, f FuncV, a []Value) (Value, invStatus) {
		t := a[0].(TimeV)
		zeroT := TimeV{ns: m.tt.BV(0, 64), zero: m.tt.tt}
		if z := m.realZoneOf(t.loc); z != nil {
			// a concrete instant in a zone of the real tz database: the real time package
			if rt, ok := m.concreteFlat(t); ok {
				lo, hi := rt.ZoneBounds()
				mk := func(x time.Time) Value {
					if x.IsZero() {
						return zeroT
					}
					return TimeV{ns: m.tt.BV(uint64(x.UnixNano()), 64), zero: m.tt.ff, loc: t.loc}
				}
				return done(TupleV{mk(lo), mk(hi)})
			}
			panic(unsupported("ZoneBounds on a symbolic instant in a real zone"))
		}
		// every other location of the models is a fixed one (UTC): its only zone has no bounds
		return done(TupleV{zeroT, zeroT})
	}
	T["(time.Time).IsZero"] = func(m *Machine, th *Thread, fr *Frame, f FuncV, a []Value) (Value, invStatus) {
		return done(a[0].(TimeV).zero)
	}
	T["(time.Time).UnixNano"] = func(m *Machine, th *Thread, fr *Frame, f FuncV, a []Value) (Value, invStatus) {
		t := tm(a[0])
		nonZero(m, t, "UnixNano")
		return done(t.ns)
	}
	ident := func(m *Machine, th *Thread, fr *Frame, f FuncV, a []Value) (Value, invStatus) { return done(a[0]) }
	T["(time.Time).UTC"] = ident
	T["(time.Time).Local"] = ident
	T["(time.Time).Round"] = func(m *Machine, th *Thread, fr *Frame, f FuncV, a []Value) (Value, invStatus) {
		d := a[1].(*Term)
		if d.IsConst() && d.SInt() <= 0 {
			return done(a[0])
		}
		panic(unsupported("time.Round with positive duration"))
	}
	T["(time.Time).In"] = func(m *Machine, th *Thread, fr *Frame, f FuncV, a []Value) (Value, invStatus) {
		t := a[0].(TimeV)
		if t.civ != nil {
			return done(m.civilIn(t, a[1]))
		}
		t.loc = a[1]
		return done(t)
	}
	T["(time.Time).Location"] = func(m *Machine, th *Thread, fr *Frame, f FuncV, a []Value) (Value, invStatus) {
		t := a[0].(TimeV)
		if t.loc == nil {
			return done(Ptr{})
		}
		return done(t.loc)
	}
	T["(time.Time).String"] = func(m *Machine, th *Thread, fr *Frame, f FuncV, a []Value) (Value, invStatus) {
		return done(m.opaqueString("time"))
	}
	T["(time.Time).Format"] = func(m *Machine, th *Thread, fr *Frame, f FuncV, a []Value) (Value, invStatus) {
		// a concrete instant (UTC wall clock) and a concrete layout: the real time package
		if rt, ok := m.concreteFlat(a[0].(TimeV)); ok {
			if layout, ok := m.strConcrete(a[1].(StrV)); ok {
				return done(m.mkStr(rt.Format(layout)))
			}
		}
		return done(m.opaqueString("time"))
	}
	T["time.Unix"] = func(m *Machine, th *Thread, fr *Frame, f FuncV, a []Value) (Value, invStatus) {
		sec, nsec := a[0].(*Term), a[1].(*Term)
		ns := m.tt.Bin(OpAdd, m.tt.Bin(OpMul, sec, m.tt.BV(1000000000, 64)), nsec)
		return done(TimeV{ns: ns, zero: m.tt.ff})
	}
	T["time.UnixMilli"] = func(m *Machine, th *Thread, fr *Frame, f FuncV, a []Value) (Value, invStatus) {
		return done(TimeV{ns: m.tt.Bin(OpMul, a[0].(*Term), m.tt.BV(1000000, 64)), zero: m.tt.ff})
	}
	// civil accessors
	for _, n := range []string{"Year", "Month", "Day", "Hour", "Minute", "Second", "Nanosecond", "Weekday", "YearDay"} {
		n := n
		T["(time.Time)."+n] = func(m *Machine, th *Thread, fr *Frame, f FuncV, a []Value) (Value, invStatus) {
			t := a[0].(TimeV)
			if t.civ == nil {
				// a concrete instant (UTC wall clock): evaluated with the real time package
				if rt, ok := m.concreteFlat(t); ok {
					var v int
					switch n {
					case "Year":
						v = rt.Year()
					case "Month":
						v = int(rt.Month())
					case "Day":
						v = rt.Day()
					case "Hour":
						v = rt.Hour()
					case "Minute":
						v = rt.Minute()
					case "Second":
						v = rt.Second()
					case "Nanosecond":
						v = rt.Nanosecond()
					case "Weekday":
						v = int(rt.Weekday())
					case "YearDay":
						v = rt.YearDay()
					}
					return done(m.tt.BV(uint64(int64(v)), 64))
				}
				panic(unsupported("calendar accessor " + n + " on flat time"))
			}
			m.noteCivil(t)
			return done(m.civilField(t, n))
		}
	}
	T["(time.Time).Truncate"] = func(m *Machine, th *Thread, fr *Frame, f FuncV, a []Value) (Value, invStatus) {
		t := a[0].(TimeV)
		d := a[1].(*Term)
		if d.IsConst() && d.SInt() <= 0 {
			return done(t)
		}
		if t.civ != nil {
			return done(m.civilTruncate(t, d))
		}
		if rt, ok := m.concreteFlat(t); ok && d.IsConst() {
			return done(TimeV{ns: m.tt.BV(uint64(rt.Truncate(time.Duration(d.SInt())).UnixNano()), 64), zero: m.tt.ff, loc: t.loc})
		}
		panic(unsupported("time.Truncate on flat time"))
	}
	T["(time.Time).AddDate"] = func(m *Machine, th *Thread, fr *Frame, f FuncV, a []Value) (Value, invStatus) {
		t := a[0].(TimeV)
		if t.civ == nil {
			y, mo, d := a[1].(*Term), a[2].(*Term), a[3].(*Term)
			if rt, ok := m.concreteFlat(t); ok && y.IsConst() && mo.IsConst() && d.IsConst() {
				r := rt.AddDate(int(y.SInt()), int(mo.SInt()), int(d.SInt()))
				return done(TimeV{ns: m.tt.BV(uint64(r.UnixNano()), 64), zero: m.tt.ff, loc: t.loc})
			}
			panic(unsupported("AddDate on flat time"))
		}
		return done(m.civilAddDate(t, a[1].(*Term), a[2].(*Term), a[3].(*Term)))
	}
	T["time.Date"] = func(m *Machine, th *Thread, fr *Frame, f FuncV, a []Value) (Value, invStatus) {
		if m.H.TimeMode != "civil" {
			allConst := true
			var v [7]int
			for i := 0; i < 7; i++ {
				t, ok := a[i].(*Term)
				if !ok || !t.IsConst() {
					allConst = false
					break
				}
				v[i] = int(t.SInt())
			}
			if allConst {
				// concrete calendar fields, UTC wall clock (the flat model has one zone): the real time package
				zone := time.UTC
				if z := m.realZoneOf(a[7]); z != nil {
					zone = z
				}
				r := time.Date(v[0], time.Month(v[1]), v[2], v[3], v[4], v[5], v[6], zone)
				return done(TimeV{ns: m.tt.BV(uint64(r.UnixNano()), 64), zero: m.tt.ff, loc: a[7]})
			}
		}
		return done(m.civilDate(a))
	}
}

func (m *Machine) noteCivil(t TimeV) {
	if t.civ == nil {
		return
	}
	for _, c := range m.civSeen {
		if c == t.civ {
			return
		}
	}
	m.civSeen = append(m.civSeen, t.civ)
}

// concreteFlat: the instant of a flat time value whose nanosecond count is a constant (and which is not the zero time)
func (m *Machine) concreteFlat(t TimeV) (time.Time, bool) {
	if t.civ != nil || t.ns == nil || !t.ns.IsConst() || t.zero == nil || !t.zero.IsFalse() {
		return time.Time{}, false
	}
	rt := time.Unix(0, t.ns.SInt()).UTC()
	if z := m.realZoneOf(t.loc); z != nil {
		rt = rt.In(z) // a zone of the real tz database (zzverif.RealZone): wall clock of that zone
	}
	return rt, true
}

// realZoneOf: the tz-database zone registered (zzverif.RealZone) for a *time.Location value of the program, or nil
func (m *Machine) realZoneOf(loc Value) *time.Location {
	if p, ok := loc.(Ptr); ok && p.c != nil {
		return m.realZones[p.c]
	}
	return nil
}

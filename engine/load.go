package main

// Loading: harness files under /verif/harness/<prop>/<pkgdir>/zz_verif_*.go are overlaid into /repo/<pkgdir>/,
// the nondet runtime into /repo/zzverif/, model files (verif/models) into /repo/zzverifmodels/. The whole thing is
// type-checked from /repo's current working tree and turned into SSA on every run.

import (
	"fmt"
	"go/ast"
	"go/token"
	"os"
	"path/filepath"
	"sort"
	"strconv"
	"strings"
	"sync"

	"golang.org/x/tools/go/packages"
	"golang.org/x/tools/go/ssa"
	"golang.org/x/tools/go/ssa/ssautil"
)

const kitMod = "github.com/dapr/kit"

type Harness struct {
	Prop     string
	Name     string
	Tiers    map[string]bool
	Unwind   int
	Threads  int
	Preempt  int
	Depth    int
	Solver   string
	PanicOK  bool              // panics are expected outcomes, not violations (only explicit Assert decides)
	Opts     map[string]string // raw key=value
	Fn       *ssa.Function
	File     string // real path of the harness file
	PkgDir   string // package dir relative to repo
	PkgPath  string
	Stubs    map[string]string // callee full name -> harness function name
	ChanCap  map[string][2]int // function -> (from, to)
	Inits    []string
	TimeMode string
	MaxPaths int
	Split    int
}

type Loaded struct {
	Prog            *ssa.Program
	Fset            *token.FileSet
	Pkgs            map[string]*ssa.Package
	Harnesses       []*Harness
	Overlay         map[string][]byte
	OverlayRealPath map[string]string // virtual -> real
	buildMu         sync.Mutex
	AllPkgs         map[string]*packages.Package
	NativeImports   map[string][2]string // file -> (import path, replacement) applied in native replay builds only
	instrOnce       sync.Once
	builtPkgs       sync.Map
	instr           *Instrumented
	repo            string
}

func parseKV(fields []string) map[string]string {
	m := map[string]string{}
	for _, f := range fields {
		if i := strings.Index(f, "="); i > 0 {
			m[f[:i]] = f[i+1:]
		} else {
			m[f] = "true"
		}
	}
	return m
}

func atoiDef(s string, d int) int {
	if s == "" {
		return d
	}
	n, err := strconv.Atoi(s)
	if err != nil {
		return d
	}
	return n
}

// Load loads the harness packages for a property (or all harness dirs given).
func Load(repo, verif string, prop string) (*Loaded, error) {
	overlay := map[string][]byte{}
	real := map[string]string{}
	addOverlay := func(virtual, realPath string) error {
		b, err := os.ReadFile(realPath)
		if err != nil {
			return err
		}
		overlay[virtual] = b
		real[virtual] = realPath
		return nil
	}
	if err := addOverlay(filepath.Join(repo, "zzverif", "zzverif.go"), filepath.Join(verif, "rt", "zzverif.go")); err != nil {
		return nil, err
	}
	models, _ := filepath.Glob(filepath.Join(verif, "models", "*.go"))
	for _, m := range models {
		if err := addOverlay(filepath.Join(repo, "zzverifmodels", filepath.Base(m)), m); err != nil {
			return nil, err
		}
	}
	stubFiles, _ := filepath.Glob(filepath.Join(verif, "stubs", "*.go"))
	for _, m := range stubFiles {
		if err := addOverlay(filepath.Join(repo, "zzverifstubs", filepath.Base(m)), m); err != nil {
			return nil, err
		}
	}
	if err := addOverlay(filepath.Join(repo, "zzverifos", "zzverifos.go"), filepath.Join(verif, "rt", "os", "zzverifos.go")); err != nil {
		return nil, err
	}
	hroot := filepath.Join(verif, "harness", prop)
	pkgDirs := map[string]bool{}
	var hfiles []string
	err := filepath.Walk(hroot, func(p string, info os.FileInfo, err error) error {
		if err != nil {
			return err
		}
		if info.IsDir() || !strings.HasSuffix(p, ".go") {
			return nil
		}
		rel, _ := filepath.Rel(hroot, p)
		dir := filepath.Dir(rel)
		pkgDirs[dir] = true
		hfiles = append(hfiles, p)
		return addOverlay(filepath.Join(repo, dir, filepath.Base(p)), p)
	})
	if err != nil {
		return nil, fmt.Errorf("harness dir %s: %w", hroot, err)
	}
	var patterns []string
	for d := range pkgDirs {
		patterns = append(patterns, "./"+d)
	}
	sort.Strings(patterns)
	patterns = append(patterns, "./zzverif")
	if len(models) > 0 {
		patterns = append(patterns, "./zzverifmodels")
	}
	if len(stubFiles) > 0 {
		patterns = append(patterns, "./zzverifstubs")
	}
	fset := token.NewFileSet()
	cfg := &packages.Config{
		Mode:       packages.LoadAllSyntax,
		Dir:        repo,
		Fset:       fset,
		Overlay:    overlay,
		BuildFlags: []string{"-tags=verif,unit", "-mod=mod"},
		Env:        append(os.Environ(), "GOFLAGS=-mod=mod", "GOPROXY=off", "GOSUMDB=off", "GOTOOLCHAIN=local"),
	}
	initial, err := packages.Load(cfg, patterns...)
	if err != nil {
		return nil, err
	}
	var errs []string
	packages.Visit(initial, nil, func(p *packages.Package) {
		for _, e := range p.Errors {
			errs = append(errs, e.Error())
		}
	})
	if len(errs) > 0 {
		if len(errs) > 12 {
			errs = errs[:12]
		}
		return nil, fmt.Errorf("load errors (harness does not compile against the current source?):\n  %s", strings.Join(errs, "\n  "))
	}
	prog, pkgs := ssautil.AllPackages(initial, ssa.InstantiateGenerics|ssa.SanityCheckFunctions*0)
	L := &Loaded{Prog: prog, Fset: fset, Pkgs: map[string]*ssa.Package{}, Overlay: overlay, OverlayRealPath: real, repo: repo}
	for _, p := range prog.AllPackages() {
		L.Pkgs[p.Pkg.Path()] = p
	}
	L.AllPkgs = map[string]*packages.Package{}
	packages.Visit(initial, nil, func(p *packages.Package) { L.AllPkgs[p.PkgPath] = p })
	// harness discovery from directives
	for i, ip := range initial {
		sp := pkgs[i]
		if sp == nil {
			continue
		}
		sp.Build()
		for _, f := range ip.Syntax {
			fname := fset.Position(f.Pos()).Filename
			if !strings.HasPrefix(filepath.Base(fname), "zz_verif") {
				continue
			}
			fileStubs := map[string]string{}
			fileCaps := map[string][2]int{}
			var fileInits []string
			timeMode := "flat"
			for _, cg := range f.Comments {
				for _, c := range cg.List {
					t := strings.TrimSpace(strings.TrimPrefix(c.Text, "//"))
					fs := strings.Fields(t)
					if len(fs) == 0 {
						continue
					}
					switch fs[0] {
					case "verif:stub":
						if len(fs) >= 3 {
							fileStubs[fs[1]] = fs[2]
						}
					case "verif:chancap":
						if len(fs) >= 4 {
							fileCaps[fs[1]] = [2]int{atoiDef(fs[2], 0), atoiDef(fs[3], 0)}
						}
					case "verif:init":
						fileInits = append(fileInits, fs[1:]...)
					case "verif:nativeimport":
						if len(fs) >= 4 {
							if L.NativeImports == nil {
								L.NativeImports = map[string][2]string{}
							}
							L.NativeImports[filepath.Join(repo, fs[1])] = [2]string{fs[2], fs[3]}
						}
					case "verif:time":
						if len(fs) >= 2 {
							timeMode = fs[1]
						}
					}
				}
			}
			for _, d := range f.Decls {
				fd, ok := d.(*ast.FuncDecl)
				if !ok || fd.Doc == nil || fd.Recv != nil {
					continue
				}
				for _, c := range fd.Doc.List {
					t := strings.TrimSpace(strings.TrimPrefix(c.Text, "//"))
					if !strings.HasPrefix(t, "verif:harness") {
						continue
					}
					kv := parseKV(strings.Fields(t)[1:])
					if kv["prop"] != "" && kv["prop"] != prop {
						continue // a file shared between properties (symlink): only this property's harnesses
					}
					h := &Harness{Prop: kv["prop"], Name: kv["name"], Tiers: map[string]bool{}, Opts: kv,
						Unwind: atoiDef(kv["unwind"], 16), Threads: atoiDef(kv["threads"], 1), Preempt: atoiDef(kv["preempt"], 2),
						Depth: atoiDef(kv["depth"], 400), Solver: kv["solver"], File: real[fname], PkgPath: ip.PkgPath,
						Stubs: fileStubs, ChanCap: fileCaps, Inits: fileInits, TimeMode: timeMode,
						MaxPaths: atoiDef(kv["maxpaths"], 2000000), PanicOK: kv["panic"] == "ok"}
					if kv["qtimeout"] == "" {
						kv["qtimeout"] = "20"
					}
					if h.Solver == "" {
						h.Solver = "z3"
					}
					if h.Prop == "" {
						h.Prop = prop
					}
					if h.Name == "" {
						h.Name = fd.Name.Name
					}
					tiers := kv["tier"]
					if tiers == "" {
						tiers = "quick,thorough"
					}
					for _, x := range strings.Split(tiers, ",") {
						h.Tiers[x] = true
					}
					rel, _ := filepath.Rel(repo, filepath.Dir(fname))
					h.PkgDir = rel
					h.Fn = sp.Func(fd.Name.Name)
					if h.Fn == nil {
						return nil, fmt.Errorf("harness function %s not found in SSA package %s", fd.Name.Name, ip.PkgPath)
					}
					L.Harnesses = append(L.Harnesses, h)
				}
			}
		}
	}
	sort.Slice(L.Harnesses, func(i, j int) bool { return L.Harnesses[i].Name < L.Harnesses[j].Name })
	return L, nil
}

// ensureBuilt makes sure the function's package has been built completely. Package.Build is idempotent and blocks
// until a build started by another worker has finished (a function whose Blocks are already non-nil may still be
// under construction there), so it is always called until the package is known to be done.
func (L *Loaded) ensureBuilt(fn *ssa.Function) {
	p := fn.Package()
	if p == nil {
		if o := fn.Origin(); o != nil {
			p = o.Package()
		}
	}
	if p == nil {
		if par := fn.Parent(); par != nil {
			L.ensureBuilt(par)
		}
		return
	}
	if _, ok := L.builtPkgs.Load(p); ok {
		return
	}
	p.Build()
	L.builtPkgs.Store(p, true)
}

func (L *Loaded) posStr(p token.Pos) string {
	if !p.IsValid() {
		return "?"
	}
	ps := L.Fset.Position(p)
	f := ps.Filename
	if r, ok := L.OverlayRealPath[f]; ok {
		f = r
	} else if rel, err := filepath.Rel(L.repo, f); err == nil && !strings.HasPrefix(rel, "..") {
		f = rel
	}
	return fmt.Sprintf("%s:%d", f, ps.Line)
}

// Instr returns the (lazily computed, read-only) instrumentation analysis.
func (L *Loaded) Instr() *Instrumented {
	L.instrOnce.Do(func() { L.instr = Instrument(L) })
	return L.instr
}

var fileCache sync.Map

func readFileCached(name string) ([]byte, error) {
	if b, ok := fileCache.Load(name); ok {
		return b.([]byte), nil
	}
	b, err := os.ReadFile(name)
	if err != nil {
		return nil, err
	}
	fileCache.Store(name, b)
	return b, nil
}

package main

func (m *Machine) civilAdd(t TimeV, d *Term) Value            { panic(unsupported("civil Add")) }
func (m *Machine) civilSub(t, u TimeV) Value                  { panic(unsupported("civil Sub")) }
func (m *Machine) civilCmp(kind string, t, u TimeV) Value     { panic(unsupported("civil cmp")) }
func (m *Machine) civilIn(t TimeV, loc Value) Value           { panic(unsupported("civil In")) }
func (m *Machine) civilField(t TimeV, n string) Value         { panic(unsupported("civil field")) }
func (m *Machine) civilTruncate(t TimeV, d *Term) Value       { panic(unsupported("civil Truncate")) }
func (m *Machine) civilAddDate(t TimeV, y, mo, d *Term) Value { panic(unsupported("civil AddDate")) }
func (m *Machine) civilDate(a []Value) Value                  { panic(unsupported("time.Date")) }

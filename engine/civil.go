package main

// Civil-form model of time.Time for the cron Next harnesses: the instant is kept as calendar fields so that
// Minute(), Hour() ... are field reads and Add/AddDate/Date/Truncate are carry chains (ite terms) - no division of a
// 64-bit instant by 60/3600/86400 ever reaches the solver (see DESIGN.md section 7). One fixed location per value.

import (
	"fmt"
	"time"
)

type Civil struct {
	y, mo, d, h, mi, s *Term // bv64 each (Go int)
	ns                 *Term // bv64, 0..999999999
	w                  *Term // weekday 0..6 (Sunday = 0); nil = unknown (reading it is UNSUPPORTED)
}

func (m *Machine) c64(v uint64) *Term { return m.tt.BV(v, 64) }

// calendar fields are 16-bit terms internally (cheap for the solver); accessors zero-extend to Go's int
const cw = 16

func (m *Machine) cf(v uint64) *Term { return m.tt.BV(v, cw) }

// daysIn gives the number of days of month mo in year y (Gregorian), as an ite chain.
func (m *Machine) daysIn(y, mo *Term) *Term {
	tt := m.tt
	// leap: y%4==0 && (y%100!=0 || y%400==0); inside 1901..2099 this is y%4==0, i.e. the two low bits are zero
	leap := tt.Eq(tt.Extract(y, 1, 0), tt.BV(0, 2))
	feb := tt.Ite(leap, m.cf(29), m.cf(28))
	is := func(k uint64) *Term { return tt.Eq(mo, m.cf(k)) }
	thirty := tt.Or(is(4), is(6), is(9), is(11))
	return tt.Ite(is(2), feb, tt.Ite(thirty, m.cf(30), m.cf(31)))
}

func (m *Machine) newCivilInput(name string, loc Value) TimeV {
	tt := m.tt
	mk := func(f string) *Term { return m.newScalarInput(name+"."+f, cw, "int") }
	c := &Civil{y: mk("year"), mo: mk("month"), d: mk("day"), h: mk("hour"), mi: mk("minute"), s: mk("second"), w: mk("weekday")}
	c.ns = m.newScalarInput(name+".nanosecond", 32, "int")
	rng := func(t *Term, lo, hi uint64) *Term {
		return tt.And(tt.Cmp(OpULE, tt.BV(lo, t.w), t), tt.Cmp(OpULE, t, tt.BV(hi, t.w)))
	}
	valid := tt.And(rng(c.y, 1971, 2090), rng(c.mo, 1, 12), rng(c.d, 1, 31), tt.Cmp(OpULE, c.d, m.daysIn(c.y, c.mo)),
		rng(c.h, 0, 23), rng(c.mi, 0, 59), rng(c.s, 0, 59), rng(c.ns, 0, 999999999), rng(c.w, 0, 6))
	m.decide(1, func(int) *Term { return valid })
	return TimeV{civ: c, zero: tt.ff, ns: m.c64(0), loc: loc}
}

func (m *Machine) civilOf(t TimeV, what string) *Civil {
	if t.civ == nil {
		panic(unsupported(what + ": civil-form operation on a flat time value"))
	}
	m.assumeSupported(m.tt.Not(t.zero), what+" on the zero time (civil model)")
	return t.civ
}

// carry chains ---------------------------------------------------------------------------------------------------

func (m *Machine) civAddDay(c *Civil) *Civil {
	tt := m.tt
	one := m.cf(1)
	last := tt.Eq(c.d, m.daysIn(c.y, c.mo))
	dec := tt.Eq(c.mo, m.cf(12))
	n := *c
	n.d = tt.Ite(last, one, tt.Bin(OpAdd, c.d, one))
	n.mo = tt.Ite(last, tt.Ite(dec, one, tt.Bin(OpAdd, c.mo, one)), c.mo)
	n.y = tt.Ite(tt.And(last, dec), tt.Bin(OpAdd, c.y, one), c.y)
	if c.w != nil {
		n.w = tt.Ite(tt.Eq(c.w, m.cf(6)), m.cf(0), tt.Bin(OpAdd, c.w, one))
	}
	return &n
}

func (m *Machine) civSel(cond *Term, a, b *Civil) *Civil {
	tt := m.tt
	r := &Civil{y: tt.Ite(cond, a.y, b.y), mo: tt.Ite(cond, a.mo, b.mo), d: tt.Ite(cond, a.d, b.d), h: tt.Ite(cond, a.h, b.h),
		mi: tt.Ite(cond, a.mi, b.mi), s: tt.Ite(cond, a.s, b.s), ns: tt.Ite(cond, a.ns, b.ns)}
	if a.w != nil && b.w != nil {
		r.w = tt.Ite(cond, a.w, b.w)
	}
	return r
}

func (m *Machine) civAddHour(c *Civil) *Civil {
	tt := m.tt
	wrap := tt.Eq(c.h, m.cf(23))
	next := m.civAddDay(c)
	next.h = m.cf(0)
	same := *c
	same.h = tt.Bin(OpAdd, c.h, m.cf(1))
	return m.civSel(wrap, next, &same)
}

func (m *Machine) civAddMinute(c *Civil) *Civil {
	tt := m.tt
	wrap := tt.Eq(c.mi, m.cf(59))
	z := *c
	z.mi = m.cf(0)
	next := m.civAddHour(&z)
	same := *c
	same.mi = tt.Bin(OpAdd, c.mi, m.cf(1))
	return m.civSel(wrap, next, &same)
}

func (m *Machine) civAddSecond(c *Civil) *Civil {
	tt := m.tt
	wrap := tt.Eq(c.s, m.cf(59))
	z := *c
	z.s = m.cf(0)
	next := m.civAddMinute(&z)
	same := *c
	same.s = tt.Bin(OpAdd, c.s, m.cf(1))
	return m.civSel(wrap, next, &same)
}

// intrinsics ---------------------------------------------------------------------------------------------------------

func (m *Machine) civilAdd(t TimeV, d *Term) Value {
	c := m.civilOf(t, "Add")
	mk := func(n *Civil) Value { return TimeV{civ: n, zero: m.tt.ff, ns: m.c64(0), loc: t.loc} }
	if d.IsConst() {
		switch d.SInt() {
		case 0:
			return t
		case 1_000_000_000:
			return mk(m.civAddSecond(c))
		case 60_000_000_000:
			return mk(m.civAddMinute(c))
		case 3_600_000_000_000:
			return mk(m.civAddHour(c))
		}
		panic(unsupported(fmt.Sprintf("civil Add of constant %d ns", d.SInt())))
	}
	// 1s - t.Nanosecond(): start of the next whole second
	if d.op == OpSub && d.args[0].IsConst() && d.args[0].val == 1_000_000_000 && d.args[1] == m.tt.ZExt(c.ns, 64) {
		z := *c
		z.ns = m.tt.BV(0, 32)
		return mk(m.civAddSecond(&z))
	}
	if d.op == OpAdd && d.args[1].IsConst() && d.args[1].val == 1_000_000_000 && d.args[0].op == OpNeg && d.args[0].args[0] == m.tt.ZExt(c.ns, 64) {
		z := *c
		z.ns = m.tt.BV(0, 32)
		return mk(m.civAddSecond(&z))
	}
	// (60 - t.Minute()) * time.Minute: start of the next hour on the wall clock (seconds and nanoseconds kept)
	if d.op == OpMul && len(d.args) == 2 {
		for i := 0; i < 2; i++ {
			k, e := d.args[i], d.args[1-i]
			if k.IsConst() && k.val == 60_000_000_000 && e.op == OpSub && e.args[0].IsConst() && e.args[0].val == 60 && e.args[1] == m.tt.ZExt(c.mi, 64) {
				z := *c
				z.mi = m.cf(0)
				return mk(m.civAddHour(&z))
			}
		}
	}
	panic(unsupported("civil Add of a symbolic duration " + d.String()))
}

func (m *Machine) civilSub(t, u TimeV) Value { panic(unsupported("civil Sub")) }

func (m *Machine) civilCmp(kind string, t, u TimeV) Value {
	tt := m.tt
	// the zero Time (year 1) is before every modelled instant
	if t.civ == nil || u.civ == nil {
		tz, uz := t.zero, u.zero
		if (t.civ == nil && !tz.IsTrue()) || (u.civ == nil && !uz.IsTrue()) {
			panic(unsupported("comparison of civil and flat time values"))
		}
		lt := tt.And(tz, tt.Not(uz))
		gt := tt.And(uz, tt.Not(tz))
		switch kind {
		case "Before":
			return lt
		case "After":
			return gt
		case "Equal":
			return tt.And(tz, uz)
		}
		return tt.Ite(lt, m.c64(^uint64(0)), tt.Ite(gt, m.c64(1), m.c64(0)))
	}
	a, b := t.civ, u.civ
	fa := []*Term{a.y, a.mo, a.d, a.h, a.mi, a.s, a.ns}
	fb := []*Term{b.y, b.mo, b.d, b.h, b.mi, b.s, b.ns}
	lt, eq := tt.ff, tt.tt
	for i := len(fa) - 1; i >= 0; i-- {
		e := tt.Eq(fa[i], fb[i])
		lt = tt.Ite(e, lt, tt.Cmp(OpSLT, fa[i], fb[i]))
		eq = tt.And(e, eq)
	}
	switch kind {
	case "Before":
		return lt
	case "After":
		return tt.And(tt.Not(lt), tt.Not(eq))
	case "Equal":
		return eq
	}
	return tt.Ite(lt, m.c64(^uint64(0)), tt.Ite(eq, m.c64(0), m.c64(1)))
}

func (m *Machine) civilIn(t TimeV, loc Value) Value {
	if t.loc != nil && m.equal(t.loc, loc).IsTrue() {
		return t
	}
	panic(unsupported("civil In with a different location"))
}

func (m *Machine) civilField(t TimeV, n string) Value {
	c := m.civilOf(t, n)
	z := func(t *Term) Value { return m.tt.ZExt(t, 64) }
	switch n {
	case "Year":
		return z(c.y)
	case "Month":
		return z(c.mo)
	case "Day":
		return z(c.d)
	case "Hour":
		return z(c.h)
	case "Minute":
		return z(c.mi)
	case "Second":
		return z(c.s)
	case "Nanosecond":
		return z(c.ns)
	case "Weekday":
		if c.w == nil {
			panic(unsupported("weekday of a civil time built by time.Date from unrelated fields"))
		}
		return z(c.w)
	}
	panic(unsupported("civil field " + n))
}

func (m *Machine) civilTruncate(t TimeV, d *Term) Value {
	c := m.civilOf(t, "Truncate")
	if !d.IsConst() {
		panic(unsupported("civil Truncate with symbolic duration"))
	}
	n := *c
	switch d.SInt() {
	case 1_000_000_000:
		n.ns = m.tt.BV(0, 32)
	case 60_000_000_000:
		n.ns, n.s = m.tt.BV(0, 32), m.cf(0)
	case 3_600_000_000_000:
		n.ns, n.s, n.mi = m.tt.BV(0, 32), m.cf(0), m.cf(0)
	default:
		panic(unsupported("civil Truncate to this unit"))
	}
	return TimeV{civ: &n, zero: m.tt.ff, ns: m.c64(0), loc: t.loc}
}

func (m *Machine) civilAddDate(t TimeV, y, mo, d *Term) Value {
	c := m.civilOf(t, "AddDate")
	if !y.IsConst() || !mo.IsConst() || !d.IsConst() {
		panic(unsupported("civil AddDate with symbolic amounts"))
	}
	mk := func(n *Civil) Value { return TimeV{civ: n, zero: m.tt.ff, ns: m.c64(0), loc: t.loc} }
	tt := m.tt
	switch {
	case y.val == 0 && mo.val == 0 && d.val == 1:
		return mk(m.civAddDay(c))
	case y.val == 0 && mo.val == 1 && d.val == 0:
		// Go normalises an overflowing day into the following month (Jan 31 + 1 month = "Feb 31" = Mar 2/3); the
		// overflow is at most 3 days, so one step is enough
		dec := tt.Eq(c.mo, m.cf(12))
		n := *c
		mo1 := tt.Ite(dec, m.cf(1), tt.Bin(OpAdd, c.mo, m.cf(1)))
		y1 := tt.Ite(dec, tt.Bin(OpAdd, c.y, m.cf(1)), c.y)
		dim1 := m.daysIn(y1, mo1)
		over := tt.Cmp(OpULT, dim1, c.d)
		dec2 := tt.Eq(mo1, m.cf(12))
		n.mo = tt.Ite(over, tt.Ite(dec2, m.cf(1), tt.Bin(OpAdd, mo1, m.cf(1))), mo1)
		n.y = tt.Ite(tt.And(over, dec2), tt.Bin(OpAdd, y1, m.cf(1)), y1)
		n.d = tt.Ite(over, tt.Bin(OpSub, c.d, dim1), c.d)
		if c.w != nil {
			// weekday advances by days-in-month mod 7
			dim := m.daysIn(c.y, c.mo)
			adv := tt.Bin(OpSub, dim, m.cf(28)) // 0..3
			s := tt.Bin(OpAdd, c.w, adv)
			n.w = tt.Ite(tt.Cmp(OpULE, m.cf(7), s), tt.Bin(OpSub, s, m.cf(7)), s)
		}
		return mk(&n)
	}
	panic(unsupported("civil AddDate with these amounts"))
}

// civilDate: time.Date(y, mo, d, h, mi, s, ns, loc). Supported when (y, mo) are the fields of a civil value seen
// before and d is that value's day or the constant 1 (what SpecSchedule.Next does); the weekday is derived from it.
func (m *Machine) civilDate(a []Value) Value {
	tt := m.tt
	nar := func(v Value, w int) *Term { return tt.Extract(v.(*Term), w-1, 0) }
	y, mo, d := nar(a[0], cw), nar(a[1], cw), nar(a[2], cw)
	h, mi, s, ns := nar(a[3], cw), nar(a[4], cw), nar(a[5], cw), nar(a[6], 32)
	n := &Civil{y: y, mo: mo, d: d, h: h, mi: mi, s: s, ns: ns}
	for i := len(m.civSeen) - 1; i >= 0; i-- {
		b := m.civSeen[i]
		if b.y == y && b.mo == mo && b.w != nil {
			if b.d == d {
				n.w = b.w
				break
			}
			if d.IsConst() && d.val == 1 {
				// weekday of the first = w - (day-1) mod 7
				off := tt.Bin(OpURem, tt.Bin(OpSub, b.d, m.cf(1)), m.cf(7)) // day <= 31: cheap remainder by ite chain below
				if !off.IsConst() {
					off = m.smallMod7(tt.Bin(OpSub, b.d, m.cf(1)))
				}
				s := tt.Bin(OpAdd, tt.Bin(OpSub, b.w, off), m.cf(7))
				n.w = tt.Ite(tt.Cmp(OpULE, m.cf(7), s), tt.Bin(OpSub, s, m.cf(7)), s)
				break
			}
		}
	}
	// the fields must already be normalised (true for what Next passes)
	return TimeV{civ: n, zero: tt.ff, ns: m.c64(0), loc: a[7]}
}

// smallMod7: x mod 7 for 0 <= x <= 34 as an ite chain (no division).
func (m *Machine) smallMod7(x *Term) *Term {
	tt := m.tt
	r := x
	for _, k := range []uint64{28, 21, 14, 7} {
		r = tt.Ite(tt.Cmp(OpULE, m.cf(k), x), tt.Bin(OpSub, x, m.cf(k)), r)
		_ = k
	}
	// the chain above picks the largest multiple not exceeding x only if evaluated from large to small with guards
	res := x
	for _, k := range []uint64{7, 14, 21, 28} {
		res = tt.Ite(tt.Cmp(OpULE, m.cf(k), x), tt.Bin(OpSub, x, m.cf(k)), res)
	}
	return res
}

// weekdayOf: the weekday (Sunday = 0) of the date (y, mo, d) for ylo <= y <= yhi, as table look-ups (ite chains over
// constants computed with the real time package at encoding time) and one small remainder: no division.
func (m *Machine) weekdayOf(y, mo, d *Term, ylo, yhi uint64) *Term {
	tt := m.tt
	leap := tt.Eq(tt.Extract(y, 1, 0), tt.BV(0, 2)) // 1901..2099
	yoff := m.cf(0)
	for yy := yhi; yy >= ylo; yy-- {
		wd := uint64(time.Date(int(yy), 1, 1, 0, 0, 0, 0, time.UTC).Weekday())
		yoff = tt.Ite(tt.Eq(y, m.cf(yy)), m.cf(wd), yoff)
	}
	moff := m.cf(0)
	for mm := uint64(12); mm >= 2; mm-- {
		// days before month mm in a common year / leap year, mod 7 (2023 common, 2024 leap)
		cmn := uint64(time.Date(2023, time.Month(mm), 1, 0, 0, 0, 0, time.UTC).YearDay()-1) % 7
		lp := uint64(time.Date(2024, time.Month(mm), 1, 0, 0, 0, 0, time.UTC).YearDay()-1) % 7
		moff = tt.Ite(tt.Eq(mo, m.cf(mm)), tt.Ite(leap, m.cf(lp), m.cf(cmn)), moff)
	}
	sum := tt.Bin(OpAdd, tt.Bin(OpAdd, yoff, moff), tt.Bin(OpSub, d, m.cf(1))) // 0..6+6+30 = 42
	res := sum
	for _, k := range []uint64{7, 14, 21, 28, 35, 42} {
		res = tt.Ite(tt.Cmp(OpULE, m.cf(k), sum), tt.Bin(OpSub, sum, m.cf(k)), res)
	}
	return res
}

package main

// Civil-form time model (cron Next harnesses). Filled in by civil_impl.go; until then every entry point is UNSUPPORTED.

type Civil struct {
	y, mo, d, h, mi, s *Term // bv16 each
	ns                 *Term // bv32
	off                *Term // bv32 seconds east of UTC
}

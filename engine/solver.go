package main

// One long-lived solver process per worker. Every query is (push) cone-of-definitions asserts (check-sat)
// [(get-value ...)] (pop). Any "(error" line, "unknown" or a timeout makes the query inconclusive.

import (
	"syscall"
	"bufio"
	"os"
	"fmt"
	"io"
	"os/exec"
	"strconv"
	"strings"
	"time"
)

type Verdict int

const (
	Unsat Verdict = iota
	Sat
	Unknown
)

func (v Verdict) String() string { return [...]string{"unsat", "sat", "unknown"}[v] }

type Solver struct {
	MaxWall time.Duration // longest single query
	kind    string // z3 | z3-new | cvc5
	cmd     *exec.Cmd
	in      io.WriteCloser
	out     *bufio.Reader
	lines   chan string
	timeout time.Duration
	// statistics
	Queries, NSat, NUnsat, NUnknown int
	Wall                            time.Duration
	dead                            bool
	stack                           []*slevel
	defined                         map[int]bool
	ufDecl                          map[string]bool
	Bytes                           int
	OneShot                         bool
	LastErr                         string
}

func solverArgs(kind string, timeoutMs int) (string, []string) {
	switch kind {
	case "z3-new":
		return "z3-new", []string{"-in", fmt.Sprintf("-t:%d", timeoutMs)}
	case "cvc5":
		return "cvc5", []string{"--incremental", "--produce-models", "--solve-bv-as-int=sum", fmt.Sprintf("--tlimit-per=%d", timeoutMs)}
	case "cvc5-bv":
		return "cvc5", []string{"--incremental", "--produce-models", fmt.Sprintf("--tlimit-per=%d", timeoutMs)}
	}
	return "z3", []string{"-in", fmt.Sprintf("-t:%d", timeoutMs)}
}

func NewSolver(kind string, timeout time.Duration) (*Solver, error) {
	s := &Solver{kind: kind, timeout: timeout}
	if err := s.start(); err != nil {
		return nil, err
	}
	return s, nil
}

func (s *Solver) start() error {
	bin, args := solverArgs(s.kind, int(s.timeout/time.Millisecond))
	s.cmd = exec.Command(bin, args...)
	// the solver must not outlive the engine (a killed or timed-out run would otherwise leave solvers grinding on
	// their last query)
	s.cmd.SysProcAttr = &syscall.SysProcAttr{Pdeathsig: syscall.SIGKILL}
	in, err := s.cmd.StdinPipe()
	if err != nil {
		return err
	}
	out, err := s.cmd.StdoutPipe()
	if err != nil {
		return err
	}
	s.cmd.Stderr = s.cmd.Stdout
	if err := s.cmd.Start(); err != nil {
		return err
	}
	s.in = in
	s.out = bufio.NewReaderSize(out, 1<<20)
	s.lines = make(chan string, 1024)
	go func(r *bufio.Reader, ch chan string) {
		for {
			l, err := r.ReadString('\n')
			if l != "" {
				ch <- strings.TrimRight(l, "\r\n")
			}
			if err != nil {
				close(ch)
				return
			}
		}
	}(s.out, s.lines)
	s.dead = false
	s.stack = nil
	s.defined = map[int]bool{}
	s.ufDecl = map[string]bool{}
	if strings.HasPrefix(s.kind, "cvc5") {
		io.WriteString(s.in, "(set-logic ALL)\n")
	} else {
		io.WriteString(s.in, "(set-option :produce-models true)\n")
	}
	return nil
}

func (s *Solver) Close() {
	if s.cmd != nil && s.cmd.Process != nil {
		s.in.Close()
		s.cmd.Process.Kill()
		s.cmd.Wait()
	}
}

func (s *Solver) restart() {
	s.Close()
	s.start()
}

// readUntil reads lines until the sentinel echo; returns lines before it.
func (s *Solver) readUntil(sentinel string, deadline time.Duration) ([]string, bool) {
	var got []string
	timer := time.NewTimer(deadline)
	defer timer.Stop()
	for {
		select {
		case l, ok := <-s.lines:
			if !ok {
				s.dead = true
				return got, false
			}
			if strings.Trim(l, "\"") == sentinel {
				return got, true
			}
			got = append(got, l)
		case <-timer.C:
			return got, false
		}
	}
}

var slowSeq int

type Model map[string]uint64

type slevel struct {
	assert  *Term
	defined []int
	ufs     []string
}

// defsFor renders declarations/definitions for the not-yet-defined part of the cone of roots, recording them in lv.
func (s *Solver) defsFor(sb *strings.Builder, roots []*Term, lv *slevel) {
	var visit func(t *Term)
	visit = func(t *Term) {
		if t.op == OpConst {
			return
		}
		if s.defined[t.id] {
			return
		}
		s.defined[t.id] = true
		lv.defined = append(lv.defined, t.id)
		for _, a := range t.args {
			visit(a)
		}
		switch t.op {
		case OpVar:
			fmt.Fprintf(sb, "(declare-const %s %s)\n", smtName(t.name), sortStr(t.w))
		case OpArrVar:
			fmt.Fprintf(sb, "(declare-const %s (Array (_ BitVec 64) (_ BitVec %d)))\n", smtName(t.name), t.hi)
		case OpUF:
			if !s.ufDecl[t.name] {
				s.ufDecl[t.name] = true
				lv.ufs = append(lv.ufs, t.name)
				var as []string
				for _, a := range t.args {
					as = append(as, sortStr(a.w))
				}
				fmt.Fprintf(sb, "(declare-fun %s (%s) %s)\n", smtName(t.name), strings.Join(as, " "), sortStr(t.w))
			}
			fmt.Fprintf(sb, "(define-fun t%d () %s %s)\n", t.id, sortStr(t.w), t.body())
		default:
			fmt.Fprintf(sb, "(define-fun t%d () %s %s)\n", t.id, sortStr(t.w), t.body())
		}
	}
	for _, r := range roots {
		visit(r)
	}
}

func (s *Solver) undefine(lv *slevel) {
	for _, id := range lv.defined {
		delete(s.defined, id)
	}
	for _, u := range lv.ufs {
		delete(s.ufDecl, u)
	}
}

// Check decides pc ∧ extra. The solver's assertion stack mirrors pc (one push level per conjunct) and is reused
// between queries: only the part of pc that differs from the previous query is re-sent.
func (s *Solver) Check(pc []*Term, extra []*Term, wantModel bool, values map[string]*Term) (Verdict, Model) {
	t0 := time.Now()
	defer func() {
		d := time.Since(t0)
		s.Wall += d
		if d > s.MaxWall {
			s.MaxWall = d
		}
	}()
	s.Queries++
	if s.dead {
		s.restart()
	}
	if s.OneShot {
		return s.checkOneShot(pc, extra, wantModel, values)
	}
	var sb strings.Builder
	// common prefix
	i := 0
	for i < len(s.stack) && i < len(pc) && s.stack[i].assert == pc[i] {
		i++
	}
	if n := len(s.stack) - i; n > 0 {
		for j := len(s.stack) - 1; j >= i; j-- {
			s.undefine(s.stack[j])
		}
		s.stack = s.stack[:i]
		fmt.Fprintf(&sb, "(pop %d)\n", n)
	}
	for j := i; j < len(pc); j++ {
		lv := &slevel{assert: pc[j]}
		sb.WriteString("(push 1)\n")
		s.defsFor(&sb, []*Term{pc[j]}, lv)
		fmt.Fprintf(&sb, "(assert %s)\n", pc[j].ref())
		s.stack = append(s.stack, lv)
	}
	q := &slevel{}
	sb.WriteString("(push 1)\n")
	roots := append([]*Term(nil), extra...)
	var names []string
	for n, t := range values {
		roots = append(roots, t)
		names = append(names, n)
	}
	s.defsFor(&sb, roots, q)
	for _, a := range extra {
		fmt.Fprintf(&sb, "(assert %s)\n", a.ref())
	}
	sb.WriteString("(check-sat)\n(echo \"@@cs\")\n")
	popQ := func() {
		s.undefine(q)
		io.WriteString(s.in, "(pop 1)\n")
	}
	s.Bytes += sb.Len()
	if _, err := io.WriteString(s.in, sb.String()); err != nil {
		s.dead = true
		s.NUnknown++
		s.LastErr = "write: " + err.Error()
		return Unknown, nil
	}
	lines, ok := s.readUntil("@@cs", s.timeout+5*time.Second)
	verdict := Unknown
	if ok {
		for _, l := range lines {
			if strings.Contains(l, "(error") || strings.HasPrefix(l, "Error") {
				verdict = Unknown
				s.LastErr = l
				// a broken context must not be reused
				s.NUnknown++
				s.restart()
				return Unknown, nil
			}
			switch strings.TrimSpace(l) {
			case "sat":
				verdict = Sat
			case "unsat":
				verdict = Unsat
			case "unknown", "timeout":
				verdict = Unknown
				s.LastErr = "solver answered " + strings.TrimSpace(l)
			}
		}
	} else {
		s.LastErr = "timeout/no answer"
		s.NUnknown++
		s.restart()
		return Unknown, nil
	}
	var model Model
	if verdict == Sat && wantModel && len(names) > 0 {
		var gb strings.Builder
		for _, n := range names {
			fmt.Fprintf(&gb, "(get-value (%s))\n", values[n].ref())
		}
		gb.WriteString("(echo \"@@gv\")\n")
		io.WriteString(s.in, gb.String())
		vl, ok2 := s.readUntil("@@gv", s.timeout+5*time.Second)
		if ok2 {
			model = Model{}
			joined := strings.Join(vl, " ")
			vals := parseGetValues(joined)
			if len(vals) == len(names) {
				for i, n := range names {
					model[n] = vals[i]
				}
			} else {
				s.LastErr = fmt.Sprintf("get-value parse: %d values for %d names: %.200s", len(vals), len(names), joined)
				verdict = Unknown
			}
		} else {
			s.NUnknown++
			s.restart()
			return Unknown, nil
		}
	}
	popQ()
	if dir := os.Getenv("VERIF_SLOWLOG"); dir != "" && time.Since(t0) > 2*time.Second {
		slowSeq++
		var all []*Term
		all = append(all, pc...)
		all = append(all, extra...)
		var fb strings.Builder
		fb.WriteString(Script(all))
		for _, a := range all {
			fmt.Fprintf(&fb, "(assert %s)\n", a.ref())
		}
		fb.WriteString("(check-sat)\n")
		os.WriteFile(fmt.Sprintf("%s/slow_%d_%d_%s.smt2", dir, os.Getpid(), slowSeq, verdict), []byte(fb.String()), 0o644)
	}
	switch verdict {
	case Sat:
		s.NSat++
	case Unsat:
		s.NUnsat++
	default:
		s.NUnknown++
	}
	return verdict, model
}

// parseGetValues extracts the value of each "((term value))" group in order.
func parseGetValues(s string) []uint64 {
	var out []uint64
	i := 0
	for i < len(s) {
		j := strings.Index(s[i:], "((")
		if j < 0 {
			break
		}
		i += j + 2
		// find the end of this group: matching parens from the "((" start (depth 2)
		depth := 2
		k := i
		for k < len(s) && depth > 0 {
			switch s[k] {
			case '(':
				depth++
			case ')':
				depth--
			case '|':
				k++
				for k < len(s) && s[k] != '|' {
					k++
				}
			}
			k++
		}
		grp := s[i : k-2] // "term value"
		grp = strings.TrimSpace(grp)
		// value is the last token, or a "(_ bvN w)" form
		var v uint64
		if strings.HasSuffix(grp, ")") && strings.Contains(grp, "(_ bv") {
			p := strings.LastIndex(grp, "(_ bv")
			f := strings.Fields(grp[p+5:])
			v, _ = strconv.ParseUint(f[0], 10, 64)
		} else {
			p := strings.LastIndexAny(grp, " \t")
			tok := grp[p+1:]
			switch {
			case tok == "true":
				v = 1
			case tok == "false":
				v = 0
			case strings.HasPrefix(tok, "#x"):
				h := tok[2:]
				if len(h) > 16 {
					h = h[len(h)-16:]
				}
				v, _ = strconv.ParseUint(h, 16, 64)
			case strings.HasPrefix(tok, "#b"):
				b := tok[2:]
				if len(b) > 64 {
					b = b[len(b)-64:]
				}
				v, _ = strconv.ParseUint(b, 2, 64)
			}
		}
		out = append(out, v)
		i = k
	}
	return out
}

func (s *Solver) checkOneShot(pc []*Term, extra []*Term, wantModel bool, values map[string]*Term) (Verdict, Model) {
	var all []*Term
	all = append(all, pc...)
	all = append(all, extra...)
	roots := append([]*Term(nil), all...)
	var names []string
	for n, t := range values {
		roots = append(roots, t)
		names = append(names, n)
	}
	var sb strings.Builder
	sb.WriteString("(reset)\n")
	if strings.HasPrefix(s.kind, "cvc5") {
		sb.WriteString("(set-logic ALL)\n")
	} else {
		sb.WriteString("(set-option :produce-models true)\n")
	}
	sb.WriteString(Script(roots))
	for _, a := range all {
		fmt.Fprintf(&sb, "(assert %s)\n", a.ref())
	}
	sb.WriteString("(check-sat)\n(echo \"@@cs\")\n")
	s.Bytes += sb.Len()
	s.stack = nil
	s.defined = map[int]bool{}
	s.ufDecl = map[string]bool{}
	if _, err := io.WriteString(s.in, sb.String()); err != nil {
		s.dead = true
		s.NUnknown++
		s.LastErr = "write: " + err.Error()
		return Unknown, nil
	}
	lines, ok := s.readUntil("@@cs", s.timeout+5*time.Second)
	if !ok {
		s.LastErr = "timeout/no answer"
		s.NUnknown++
		s.restart()
		return Unknown, nil
	}
	verdict := Unknown
	for _, l := range lines {
		if strings.Contains(l, "(error") {
			s.LastErr = l
			s.NUnknown++
			s.restart()
			return Unknown, nil
		}
		switch strings.TrimSpace(l) {
		case "sat":
			verdict = Sat
		case "unsat":
			verdict = Unsat
		case "unknown", "timeout":
			s.LastErr = "solver answered " + strings.TrimSpace(l)
		}
	}
	var model Model
	if verdict == Sat && wantModel && len(names) > 0 {
		var gb strings.Builder
		for _, n := range names {
			fmt.Fprintf(&gb, "(get-value (%s))\n", values[n].ref())
		}
		gb.WriteString("(echo \"@@gv\")\n")
		io.WriteString(s.in, gb.String())
		vl, ok2 := s.readUntil("@@gv", s.timeout+5*time.Second)
		if !ok2 {
			s.NUnknown++
			s.restart()
			return Unknown, nil
		}
		model = Model{}
		vals := parseGetValues(strings.Join(vl, " "))
		if len(vals) != len(names) {
			s.LastErr = "get-value parse"
			s.NUnknown++
			return Unknown, nil
		}
		for i, n := range names {
			model[n] = vals[i]
		}
	}
	switch verdict {
	case Sat:
		s.NSat++
	case Unsat:
		s.NUnsat++
	default:
		s.NUnknown++
	}
	return verdict, model
}

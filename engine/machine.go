package main

// Machine: one symbolic execution engine instance (one worker). Paths are explored by re-execution: a run follows
// the decision tree from the root, taking at every decision the first alternative that is feasible and not yet
// completely explored. Feasibility of the alternatives of a decision is computed (by the solver) the first time
// the decision is reached and cached in the tree.

import (
	"fmt"
	"go/token"
	"go/types"
	"path/filepath"
	"sort"
	"strings"
	"time"

	"golang.org/x/tools/go/ssa"
)

type Node struct {
	n       int
	feas    []int8 // 0 unknown, 1 feasible, 2 infeasible
	done    []bool
	child   []*Node
	aux     uint64 // cached model value (concretize) / flags
	auxSet  bool
	checked bool // assertion at this node already decided
}

type Thread struct {
	id          int
	frames      []*Frame
	done        bool
	blocked     bool
	blockOn     string
	wake        *wakeInfo
	granted     bool // the pending sync op has been scheduled
	quiesceOK   bool
	wasWaitingW bool
	retry    bool
	nid      int
	panicking   *goPanic
	resumePanic bool
	mustFinish  bool
	env         bool
	vc          []int
	name        string
	result      Value
	syncDepth   int
	steps       int
}

type wakeInfo struct {
	caseIdx int
	val     Value
	ok      bool
	vc      []int
}

type Frame struct {
	jumps int
	fn         *ssa.Function
	block      *ssa.BasicBlock
	prev       *ssa.BasicBlock
	pc         int
	env        map[ssa.Value]Value
	defers     []*deferred
	dst        ssa.Value // where the caller wants the result (in caller frame)
	caller     *Frame
	loops      map[int]int
	unwinding  bool
	onReturn   func(res Value) // engine continuation (runSync / intrinsics)
	tolerant   bool
	results    Value
	isDefer    bool // frame was started by the defer mechanism
	deferOwner *Frame
}

type deferred struct {
	fn   FuncV
	args []Value
	site string
	pos  token.Pos
}

type InputRec struct {
	Name string
	Kind string // int, bool, bytes, choose
	W    int
	T    *Term  // scalar
	Arr  *Term  // base array var
	N    int    // bytes length
	Val  uint64 // for choose
}

type Finding struct {
	Harness    string
	Assertion  string
	Site       string
	Msg        string
	Inputs     map[string]interface{}
	Schedule   []SchedStep
	Kind       string // assert | panic | deadlock | race | unwind
	Confirmed  string // "", confirmed, unconfirmed
	ReplayFile string
	Known      bool
	Trace      []string
}

type SchedStep struct {
	Thread int    `json:"thread"`
	Site   string `json:"site"`
	Op     string `json:"op"`
}

type Stats struct {
	Paths, Steps, Decisions, SchedPoints, Truncated int
	Unsupported                                     map[string]int
	Inconclusive                                    []string
	Covers                                          map[string]int
	Asserts                                         map[string]int // assertion id -> times checked (unsat)
	MaxDepth                                        int
	States                                          int
	Funcs                                           map[string]int // repository function -> times entered (the code that was encoded)
}

type Machine struct {
	repoFn map[*ssa.Function]string
	L      *Loaded
	H      *Harness
	tt     *TermTable
	solver *Solver
	// exploration
	root   *Node
	forced []PStep // forced prefix for delegated tasks
	trace  []int
	auxes  []PStep
	nodes  []*Node
	depth  int
	pool   *WorkPool
	// per-run state
	pc             []*Term
	threads        []*Thread
	cur            *Thread
	globals        map[*ssa.Global]*Cell
	nextObj        int
	inputs         []*InputRec
	inputCnt       map[string]int
	preempts       int
	schedLog       []SchedStep
	observed       map[string]interface{}
	ufApps         map[string][]*Term
	ufInv          map[string]string
	pathDead       bool
	steps          int
	multi          bool
	quiesceWaiters int
	// persistent across runs (per worker)
	pglobals map[*ssa.Global]*Cell
	pinited  map[*ssa.Package]bool
	rinited  map[*ssa.Package]bool
	pnext    int
	// results
	stats            Stats
	findings         []*Finding
	coverModels      map[string]*Finding
	stubFns          map[string]*ssa.Function
	intr             map[string]intrinsic
	fnNames          map[*ssa.Function]string
	onceDone         map[*Cell]bool
	syncSt           map[*Cell]*syncState
	poolSt           map[*Cell]*poolState
	curSite          string
	debug            bool
	ghostDepth       int
	timeNow          *Term
	chanWaits        map[*ChanObj]*chanWait
	inPersistentInit bool
	raceCheck        bool
	havocSeq         int
	pendAux          uint64
	pendAuxSet       bool
	ufLastNonEmpty   map[int]bool
	ufCF             map[string]bool
	realZones        map[*Cell]*time.Location
	ufSigOf          map[int]string
	siteCache        map[token.Pos]string
	lastIntrRes      Value
	curFn            *ssa.Function
	curPos           token.Pos
	civSeen          []*Civil
	globalWrites     int
	initDepth        int
	deferPos         token.Pos
	nextNid          int
	lastIntrSt       invStatus
	harnessFn        map[*ssa.Function]bool
}

type pathEnd struct{ why string }

// PStep is one step of a decision prefix: the alternative taken and the cached candidate value (concretize).
type PStep struct {
	Alt    int
	Aux    uint64
	AuxSet bool
}

func NewMachine(L *Loaded, H *Harness, pool *WorkPool) (*Machine, error) {
	s, err := NewSolver(H.Solver, time.Duration(atoiDef(H.Opts["qtimeout"], 10))*time.Second)
	if err != nil {
		return nil, err
	}
	s.OneShot = H.Opts["incr"] == "off"
	m := &Machine{L: L, H: H, tt: NewTermTable(), solver: s, pool: pool,
		pglobals: map[*ssa.Global]*Cell{}, pinited: map[*ssa.Package]bool{}, fnNames: map[*ssa.Function]string{},
		coverModels: map[string]*Finding{}}
	m.siteCache = map[token.Pos]string{}
	m.harnessFn = map[*ssa.Function]bool{}
	m.stats.Unsupported = map[string]int{}
	m.stats.Covers = map[string]int{}
	m.stats.Asserts = map[string]int{}
	m.stats.Funcs = map[string]int{}
	m.stubFns = map[string]*ssa.Function{}
	for callee, hf := range H.Stubs {
		pkg := H.Fn.Pkg
		if i := strings.Index(hf, "."); i > 0 {
			pkg = L.Pkgs[kitMod+"/"+hf[:i]]
			hf = hf[i+1:]
			if pkg == nil {
				return nil, fmt.Errorf("stub package for %s not loaded", callee)
			}
		}
		f := pkg.Func(hf)
		if f == nil {
			return nil, fmt.Errorf("stub function %s not found in %s", hf, pkg.Pkg.Path())
		}
		m.stubFns[callee] = f
	}
	m.intr = intrinsicTable()
	return m, nil
}

func (m *Machine) fnName(fn *ssa.Function) string {
	if n, ok := m.fnNames[fn]; ok {
		return n
	}
	f := fn
	if o := fn.Origin(); o != nil {
		f = o
	}
	n := strings.ReplaceAll(f.String(), " ", "")
	m.fnNames[fn] = n
	return n
}

// ---------------------------------------------------------------------------------------------------------
// decisions

// decide takes a decision among k alternatives. cond(i) gives the condition under which alternative i is taken (nil
// = unconditional). Returns the alternative chosen on this run.
func (m *Machine) decide(k int, cond func(i int) *Term) int {
	m.stats.Decisions++
	d := m.depth
	m.depth++
	if d < len(m.forced) {
		alt := m.forced[d].Alt
		if cond != nil {
			if c := cond(alt); c != nil {
				m.pc = append(m.pc, c)
			}
		}
		m.trace = append(m.trace, alt)
		m.auxes = append(m.auxes, m.forced[d])
		m.nodes = append(m.nodes, nil)
		return alt
	}
	var node *Node
	if d == len(m.forced) {
		if m.root == nil {
			m.root = &Node{}
		}
		node = m.root
	} else {
		parent := m.nodes[d-1]
		pa := m.trace[d-1]
		if parent.child[pa] == nil {
			parent.child[pa] = &Node{}
		}
		node = parent.child[pa]
	}
	if node.feas == nil {
		node.aux, node.auxSet = m.pendAux, m.pendAuxSet
		node.n = k
		node.feas = make([]int8, k)
		node.done = make([]bool, k)
		node.child = make([]*Node, k)
		// feasibility of all alternatives now
		nfeas := 0
		for i := 0; i < k; i++ {
			var c *Term
			if cond != nil {
				c = cond(i)
			}
			if c == nil || c.IsTrue() {
				node.feas[i] = 1
				nfeas++
				continue
			}
			if c.IsFalse() {
				node.feas[i] = 2
				continue
			}
			if i == k-1 && nfeas == 0 && k > 1 {
				// path condition is satisfiable and alternatives are exhaustive: last one must be feasible
				node.feas[i] = 1
				nfeas++
				continue
			}
			v, _ := m.solver.Check(m.pc, []*Term{c}, false, nil)
			switch v {
			case Sat:
				node.feas[i] = 1
				nfeas++
			case Unsat:
				node.feas[i] = 2
			default:
				node.feas[i] = 1
				nfeas++
				m.inconclusive(fmt.Sprintf("solver unknown on branch feasibility at %s (%s)", m.curSite, m.solver.LastErr))
				m.solverUnknown()
			}
		}
		// delegate extra alternatives to idle workers
		if nfeas > 1 && m.pool != nil && m.pool.hungry() {
			first := true
			for i := 0; i < k; i++ {
				if node.feas[i] != 1 {
					continue
				}
				if first {
					first = false
					continue
				}
				pre := append([]PStep{}, m.auxes...)
				pre = append(pre, PStep{Alt: i, Aux: m.pendAux, AuxSet: m.pendAuxSet})
				m.pool.push(pre)
				node.done[i] = true
			}
		}
	} else if node.n != k {
		panic(fmt.Sprintf("nondeterministic re-execution: decision arity %d vs %d at depth %d (%s)", node.n, k, d, m.curSite))
	}
	alt := -1
	for i := 0; i < k; i++ {
		if node.feas[i] == 1 && !node.done[i] {
			alt = i
			break
		}
	}
	if alt < 0 {
		// nothing left below (all alternatives infeasible or delegated)
		m.trace = append(m.trace, -1)
		m.auxes = append(m.auxes, PStep{Alt: -1})
		m.nodes = append(m.nodes, node)
		panic(&pathEnd{"no feasible alternative"})
	}
	if cond != nil {
		if c := cond(alt); c != nil && !c.IsTrue() {
			m.pc = append(m.pc, c)
		}
	}
	m.trace = append(m.trace, alt)
	m.auxes = append(m.auxes, PStep{Alt: alt, Aux: node.aux, AuxSet: node.auxSet})
	m.nodes = append(m.nodes, node)
	return alt
}

// finishRun marks the leaf explored and propagates completion upwards.
func (m *Machine) finishRun() {
	for d := len(m.trace) - 1; d >= len(m.forced); d-- {
		node := m.nodes[d]
		if node == nil {
			continue
		}
		alt := m.trace[d]
		if alt >= 0 {
			if d == len(m.trace)-1 {
				node.done[alt] = true
			} else {
				ch := node.child[alt]
				if ch == nil || ch.allDone() {
					node.done[alt] = true
					node.child[alt] = nil // free memory
				}
			}
		}
		if !node.allDone() {
			break
		}
	}
}

func (n *Node) allDone() bool {
	if n.feas == nil {
		return false
	}
	for i := range n.feas {
		if n.feas[i] == 1 && !n.done[i] {
			return false
		}
	}
	return true
}

func (m *Machine) truth(c *Term) bool {
	if c.IsConst() {
		return c.val == 1
	}
	alt := m.decide(2, func(i int) *Term {
		if i == 0 {
			return c
		}
		return m.tt.Not(c)
	})
	return alt == 0
}

// concretize forks over the feasible values of t.
func (m *Machine) concretize(t *Term) uint64 {
	for iter := 0; ; iter++ {
		if t.IsConst() {
			return t.val
		}
		if iter > 4096 {
			panic(unsupported("concretize: too many values"))
		}
		// peek at the node that the coming decision will use to fetch the cached candidate
		v, ok := m.cachedAux()
		if !ok {
			verdict, model := m.solver.Check(m.pc, nil, true, map[string]*Term{"v": t})
			if verdict != Sat {
				m.inconclusive(fmt.Sprintf("concretize: solver did not return a model (%v) for %s at %s: %s", verdict, t, m.curSite, m.solver.LastErr))
				panic(&pathEnd{"concretize failed"})
			}
			v = model["v"]
		}
		c := m.tt.Eq(t, m.tt.BV(v, t.w))
		m.pendAux, m.pendAuxSet = v, true
		alt := m.decide(2, func(i int) *Term {
			if i == 0 {
				return c
			}
			return m.tt.Not(c)
		})
		m.pendAux, m.pendAuxSet = 0, false
		m.auxes[len(m.auxes)-1].Aux, m.auxes[len(m.auxes)-1].AuxSet = v, true
		if alt == 0 {
			return v
		}
	}
}

// cachedAux looks up the aux value stored on the node the next decision will visit.
func (m *Machine) cachedAux() (uint64, bool) {
	d := m.depth
	if d < len(m.forced) {
		return m.forced[d].Aux, m.forced[d].AuxSet
	}
	var node *Node
	if d == len(m.forced) {
		node = m.root
	} else {
		parent := m.nodes[d-1]
		if parent == nil {
			return 0, false
		}
		node = parent.child[m.trace[d-1]]
	}
	if node != nil && node.auxSet {
		return node.aux, true
	}
	return 0, false
}

func (m *Machine) solverUnknown() {
	if m.pool != nil && m.pool.noteUnknown() {
		panic(&pathEnd{"aborted"})
	}
}

func (m *Machine) inconclusive(why string) {
	for _, w := range m.stats.Inconclusive {
		if w == why {
			return
		}
	}
	if len(m.stats.Inconclusive) < 50 {
		m.stats.Inconclusive = append(m.stats.Inconclusive, why)
	}
}

// ---------------------------------------------------------------------------------------------------------
// run loop

func (m *Machine) resetRun() {
	m.pc = m.pc[:0]
	m.threads = nil
	m.cur = nil
	m.globals = map[*ssa.Global]*Cell{}
	m.rinited = map[*ssa.Package]bool{}
	m.nextObj = 0
	m.inputs = nil
	m.inputCnt = map[string]int{}
	m.preempts = 0
	m.schedLog = nil
	m.observed = map[string]interface{}{}
	m.ufApps = map[string][]*Term{}
	m.ufInv = map[string]string{}
	m.ufCF = map[string]bool{}
	m.realZones = map[*Cell]*time.Location{}
	m.trace = m.trace[:0]
	m.auxes = m.auxes[:0]
	m.nodes = m.nodes[:0]
	m.depth = 0
	m.pathDead = false
	m.steps = 0
	m.multi = false
	m.onceDone = map[*Cell]bool{}
	m.syncSt = map[*Cell]*syncState{}
	m.poolSt = map[*Cell]*poolState{}
	m.ghostDepth = 0
	m.timeNow = nil
	m.chanWaits = nil
	m.globalWrites = 0
	m.initDepth = 0
	m.civSeen = nil
	m.nextNid = 1
	m.deferPos = token.NoPos
	m.pendAux, m.pendAuxSet = 0, false
	m.havocSeq = 0
	m.raceCheck = m.H.Opts["race"] != "off"
}

// RunOne executes one path. Returns false when the tree below this machine's task is exhausted.
func (m *Machine) RunOne() (more bool) {
	m.resetRun()
	m.stats.Paths++
	defer func() {
		if r := recover(); r != nil {
			switch e := r.(type) {
			case *pathEnd:
				_ = e
			case *unsupportedErr:
				m.stats.Unsupported[e.what+" @ "+m.curSite]++
				m.inconclusive("UNSUPPORTED: " + e.what + " @ " + m.curSite)
			default:
				panic(r)
			}
		}
		m.stats.Steps += m.steps
		if m.depth > m.stats.MaxDepth {
			m.stats.MaxDepth = m.depth
		}
		m.finishRun()
		more = !(m.root != nil && m.root.allDone()) && !(m.root == nil)
		if m.root == nil {
			more = false
		}
	}()
	main := m.newThread("main")
	main.mustFinish = true
	main.nid = 0
	m.pushFrame(main, FuncV{fn: m.H.Fn}, nil, nil, nil)
	m.schedule()
	return
}

func (m *Machine) newThread(name string) *Thread {
	t := &Thread{id: len(m.threads), name: name, nid: -1}
	t.vc = make([]int, t.id+1)
	t.vc[t.id] = 1
	m.threads = append(m.threads, t)
	if len(m.threads) > 1 {
		m.multi = true
	}
	return t
}

func (m *Machine) runnable() []*Thread {
	var r []*Thread
	for _, t := range m.threads {
		if !t.done && !t.blocked {
			r = append(r, t)
		}
	}
	return r
}

// schedule runs threads until all are done or nothing can run.
func (m *Machine) schedule() {
	maxSteps := atoiDef(m.H.Opts["maxsteps"], 2000000)
	for {
		run := m.runnable()
		// quiescence waiters are only runnable when every other non-environment thread is blocked or done
		var normal, quiet []*Thread
		for _, t := range run {
			if t.blockOn == "quiescent" {
				quiet = append(quiet, t)
			} else {
				normal = append(normal, t)
			}
		}
		if len(normal) == 0 && len(quiet) > 0 {
			normal = quiet[:1]
			quiet[0].blockOn = ""
			quiet[0].quiesceOK = true
		}
		if len(normal) == 0 {
			m.endOfPath()
			return
		}
		var next *Thread
		if len(normal) == 1 {
			next = normal[0]
		} else if m.H.Opts["sched"] == "delay" {
			// delay bounding: the default scheduler is deterministic (stay on the current thread while it can run, else
			// round-robin from it); taking the i-th candidate instead costs i delays out of a budget of H.Preempt
			start := 0
			if m.cur != nil {
				start = m.cur.id
			}
			var cands []*Thread
			for k := 0; k < len(m.threads); k++ {
				t := m.threads[(start+k)%len(m.threads)]
				for _, r := range normal {
					if r == t {
						cands = append(cands, t)
					}
				}
			}
			room := m.H.Preempt - m.preempts
			if room < 0 {
				room = 0
			}
			if len(cands) > room+1 {
				cands = cands[:room+1]
			}
			if len(cands) == 1 {
				next = cands[0]
			} else {
				m.stats.SchedPoints++
				alt := m.decide(len(cands), nil)
				next = cands[alt]
				m.preempts += alt
			}
		} else {
			// current thread first (no preemption), then others in id order
			cands := normal
			curRunnable := false
			for _, t := range cands {
				if t == m.cur {
					curRunnable = true
				}
			}
			if curRunnable {
				ordered := []*Thread{m.cur}
				for _, t := range cands {
					if t != m.cur {
						ordered = append(ordered, t)
					}
				}
				cands = ordered
				if m.preempts >= m.H.Preempt {
					cands = cands[:1]
				}
			}
			if len(cands) == 1 {
				next = cands[0]
			} else {
				m.stats.SchedPoints++
				alt := m.decide(len(cands), nil)
				next = cands[alt]
				if curRunnable && next != m.cur {
					m.preempts++
				}
			}
		}
		if m.depth > m.H.Depth*50 {
			m.stats.Truncated++
			m.inconclusive(fmt.Sprintf("depth limit %d reached", m.H.Depth*50))
			panic(&pathEnd{"depth"})
		}
		m.cur = next
		next.granted = true
		// run until the thread yields (next scheduling point), blocks or finishes
		for !next.done && !next.blocked {
			yielded := m.step(next)
			m.steps++
			if m.steps > maxSteps {
				m.inconclusive("step limit reached")
				panic(&pathEnd{"steps"})
			}
			if yielded {
				break
			}
		}
	}
}

func (m *Machine) threadSite(t *Thread) string {
	if len(t.frames) == 0 {
		return "-"
	}
	fr := t.frames[len(t.frames)-1]
	if fr.pc < len(fr.block.Instrs) {
		return m.instrSite(fr.block.Instrs[fr.pc])
	}
	return fr.fn.String()
}

func (m *Machine) instrSite(in ssa.Instruction) string {
	p := in.Pos()
	if !p.IsValid() {
		// fall back to function position + block
		if fn := in.Parent(); fn != nil {
			return fmt.Sprintf("%s#b%d", m.fnName(fn), in.Block().Index)
		}
		return "?"
	}
	return m.L.posStr(p)
}

// endOfPath is reached when no thread can run.
func (m *Machine) endOfPath() {
	var stuck []string
	for _, t := range m.threads {
		if !t.done && t.mustFinish {
			stuck = append(stuck, fmt.Sprintf("thread %d (%s) blocked on %s at %s", t.id, t.name, t.blockOn, m.threadSite(t)))
		}
	}
	if len(stuck) > 0 {
		m.report("deadlock", "deadlock", m.threadSite(m.threads[0]), strings.Join(stuck, "; "), nil)
	}
}

// ---------------------------------------------------------------------------------------------------------
// findings

func (m *Machine) modelInputs(extra *Term) (map[string]interface{}, bool) {
	var ex []*Term
	if extra != nil {
		ex = []*Term{extra}
	}
	vals := map[string]*Term{}
	for _, in := range m.inputs {
		switch in.Kind {
		case "bytes":
			for i := 0; i < in.N; i++ {
				vals[fmt.Sprintf("%s[%d]", in.Name, i)] = m.tt.SelectBase(in.Arr, m.tt.BV(uint64(i), 64))
			}
		case "choose":
		default:
			vals[in.Name] = in.T
		}
	}
	v, model := m.solver.Check(m.pc, ex, true, vals)
	if v != Sat {
		return nil, false
	}
	out := map[string]interface{}{}
	for _, in := range m.inputs {
		switch in.Kind {
		case "bytes":
			b := make([]int, in.N)
			for i := 0; i < in.N; i++ {
				b[i] = int(model[fmt.Sprintf("%s[%d]", in.Name, i)])
			}
			out[in.Name] = b
		case "choose":
			out[in.Name] = int64(in.Val)
		case "bool":
			out[in.Name] = model[in.Name] == 1
		default:
			out[in.Name] = sext64(model[in.Name], in.W)
		}
	}
	return out, true
}

func (m *Machine) report(kind, id, site, msg string, extra *Term) {
	for _, f := range m.findings {
		if f.Assertion == id && f.Site == site && f.Kind == kind {
			return // one counterexample per (assertion, site) is enough
		}
	}
	inputs, ok := m.modelInputs(extra)
	if !ok {
		m.inconclusive(fmt.Sprintf("no model for %s %s at %s: %s", kind, id, site, m.solver.LastErr))
		return
	}
	f := &Finding{Harness: m.H.Name, Assertion: id, Site: site, Msg: msg, Inputs: inputs, Kind: kind,
		Schedule: append([]SchedStep(nil), m.schedLog...)}
	m.findings = append(m.findings, f)
}

func (m *Machine) stackTrace(t *Thread) []string {
	var out []string
	for i := len(t.frames) - 1; i >= 0 && len(out) < 12; i-- {
		fr := t.frames[i]
		site := fr.fn.String()
		if fr.pc < len(fr.block.Instrs) {
			site += " " + m.instrSite(fr.block.Instrs[fr.pc])
		}
		out = append(out, site)
	}
	return out
}

// helpers used by several files

func sortedKeys(m map[string]int) []string {
	var ks []string
	for k := range m {
		ks = append(ks, k)
	}
	sort.Strings(ks)
	return ks
}

func typeStr(t types.Type) string {
	if t == nil {
		return "<nil>"
	}
	return types.TypeString(t, nil)
}

// isHarnessFn: the function is harness / stub / model code (its source file is not part of /repo).
func (m *Machine) isHarnessFn(fn *ssa.Function) bool {
	if v, ok := m.harnessFn[fn]; ok {
		return v
	}
	f := fn
	for f.Parent() != nil {
		f = f.Parent()
	}
	res := false
	if p := f.Pos(); p.IsValid() {
		name := m.L.Fset.Position(p).Filename
		if _, ok := m.L.OverlayRealPath[name]; ok || strings.HasPrefix(filepath.Base(name), "zz_verif") {
			res = true
		}
	}
	m.harnessFn[fn] = res
	return res
}

package main

// Hash-consed SMT terms (Bool and fixed-width bit-vectors) with local simplification and an SMT-LIB2 printer.
// Arrays are not SMT terms here: see arr.go (select push-down over store/copy overlays down to base array
// variables, which are the only array-sorted things the solver sees).

import (
	"fmt"
	"math/bits"
	"sort"
	"strings"
)

type Op uint8

const (
	OpConst Op = iota
	OpVar
	OpNot
	OpAnd
	OpOr
	OpIte
	OpEq
	OpAdd
	OpSub
	OpMul
	OpUDiv
	OpURem
	OpSDiv
	OpSRem
	OpBAnd
	OpBOr
	OpBXor
	OpShl
	OpLShr
	OpAShr
	OpNeg
	OpBNot
	OpULT
	OpULE
	OpSLT
	OpSLE
	OpConcat
	OpExtract
	OpZExt
	OpSExt
	OpSelect // args[0] = array variable (OpArrVar), args[1] = index (bv64)
	OpArrVar // base array variable: name, element width in hi
	OpUF     // uninterpreted function application: name, args
)

var opNames = map[Op]string{OpNot: "not", OpAnd: "and", OpOr: "or", OpIte: "ite", OpEq: "=", OpAdd: "bvadd", OpSub: "bvsub",
	OpMul: "bvmul", OpUDiv: "bvudiv", OpURem: "bvurem", OpSDiv: "bvsdiv", OpSRem: "bvsrem", OpBAnd: "bvand", OpBOr: "bvor",
	OpBXor: "bvxor", OpShl: "bvshl", OpLShr: "bvlshr", OpAShr: "bvashr", OpNeg: "bvneg", OpBNot: "bvnot", OpULT: "bvult",
	OpULE: "bvule", OpSLT: "bvslt", OpSLE: "bvsle", OpConcat: "concat", OpSelect: "select"}

// Term: w == 0 means Bool, otherwise a bit-vector of width w. OpArrVar has w = -1.
type Term struct {
	op     Op
	w      int
	args   []*Term
	val    uint64 // OpConst (w <= 64); for Bool 0/1
	name   string // OpVar, OpArrVar, OpUF
	hi, lo int    // OpExtract; OpArrVar: hi = element width
	id     int
	rngSt  int8 // 0 not computed, 1 known bound, 2 no bound
	rngHi  uint64
}

type memoKey struct {
	op   int
	a, b int
}

type TermTable struct {
	memo map[memoKey]*Term
	tab  map[string]*Term
	next int
	tt   *Term
	ff   *Term
}

func NewTermTable() *TermTable {
	t := &TermTable{tab: map[string]*Term{}, memo: map[memoKey]*Term{}}
	t.tt = t.mk(&Term{op: OpConst, w: 0, val: 1})
	t.ff = t.mk(&Term{op: OpConst, w: 0, val: 0})
	return t
}

func (tt *TermTable) key(t *Term) string {
	var sb strings.Builder
	fmt.Fprintf(&sb, "%d:%d:%d:%s:%d:%d", t.op, t.w, t.val, t.name, t.hi, t.lo)
	for _, a := range t.args {
		fmt.Fprintf(&sb, ",%d", a.id)
	}
	return sb.String()
}

func (tt *TermTable) mk(t *Term) *Term {
	k := tt.key(t)
	if e, ok := tt.tab[k]; ok {
		return e
	}
	tt.next++
	t.id = tt.next
	tt.tab[k] = t
	return t
}

func mask(w int) uint64 {
	if w >= 64 {
		return ^uint64(0)
	}
	return (uint64(1) << uint(w)) - 1
}

func (t *Term) IsConst() bool { return t.op == OpConst }
func (t *Term) IsBool() bool  { return t.w == 0 }
func (t *Term) IsTrue() bool  { return t.op == OpConst && t.w == 0 && t.val == 1 }
func (t *Term) IsFalse() bool { return t.op == OpConst && t.w == 0 && t.val == 0 }

// SInt returns the constant as a signed integer of its width.
func (t *Term) SInt() int64 {
	if t.w >= 64 {
		return int64(t.val)
	}
	if t.val&(1<<uint(t.w-1)) != 0 {
		return int64(t.val | ^mask(t.w))
	}
	return int64(t.val)
}

func (tt *TermTable) Bool(b bool) *Term {
	if b {
		return tt.tt
	}
	return tt.ff
}

func (tt *TermTable) BV(v uint64, w int) *Term {
	if w > 64 {
		// wide constant: build by concat of zero high part
		hi := tt.mk(&Term{op: OpConst, w: w - 64, val: 0})
		if w-64 > 64 {
			hi = tt.BV(0, w-64)
		}
		return tt.Concat(hi, tt.BV(v, 64))
	}
	return tt.mk(&Term{op: OpConst, w: w, val: v & mask(w)})
}

func (tt *TermTable) Var(name string, w int) *Term {
	return tt.mk(&Term{op: OpVar, w: w, name: name})
}

func (tt *TermTable) ArrVarT(name string, ew int) *Term {
	return tt.mk(&Term{op: OpArrVar, w: -1, name: name, hi: ew})
}

func (tt *TermTable) Not(a *Term) *Term {
	if a.IsConst() {
		return tt.Bool(a.val == 0)
	}
	if a.op == OpNot {
		return a.args[0]
	}
	return tt.mk(&Term{op: OpNot, args: []*Term{a}})
}

func (tt *TermTable) And(as ...*Term) *Term {
	var out []*Term
	seen := map[int]bool{}
	for _, a := range as {
		if a.IsFalse() {
			return tt.ff
		}
		if a.IsTrue() || seen[a.id] {
			continue
		}
		if a.op == OpAnd {
			for _, b := range a.args {
				if !seen[b.id] {
					seen[b.id] = true
					out = append(out, b)
				}
			}
			continue
		}
		seen[a.id] = true
		out = append(out, a)
	}
	for _, a := range out {
		if a.op == OpNot && seen[a.args[0].id] {
			return tt.ff
		}
	}
	if len(out) == 0 {
		return tt.tt
	}
	if len(out) == 1 {
		return out[0]
	}
	return tt.mk(&Term{op: OpAnd, args: out})
}

func (tt *TermTable) Or(as ...*Term) *Term {
	var out []*Term
	seen := map[int]bool{}
	for _, a := range as {
		if a.IsTrue() {
			return tt.tt
		}
		if a.IsFalse() || seen[a.id] {
			continue
		}
		if a.op == OpOr {
			for _, b := range a.args {
				if !seen[b.id] {
					seen[b.id] = true
					out = append(out, b)
				}
			}
			continue
		}
		seen[a.id] = true
		out = append(out, a)
	}
	for _, a := range out {
		if a.op == OpNot && seen[a.args[0].id] {
			return tt.tt
		}
	}
	if len(out) == 0 {
		return tt.ff
	}
	if len(out) == 1 {
		return out[0]
	}
	return tt.mk(&Term{op: OpOr, args: out})
}

func (tt *TermTable) Implies(a, b *Term) *Term { return tt.Or(tt.Not(a), b) }

func (tt *TermTable) Ite(c, a, b *Term) *Term {
	if c.IsConst() {
		if c.val == 1 {
			return a
		}
		return b
	}
	if a == b {
		return a
	}
	if a.w == 0 {
		if a.IsTrue() && b.IsFalse() {
			return c
		}
		if a.IsFalse() && b.IsTrue() {
			return tt.Not(c)
		}
		if a.IsTrue() {
			return tt.Or(c, b)
		}
		if a.IsFalse() {
			return tt.And(tt.Not(c), b)
		}
		if b.IsTrue() {
			return tt.Or(tt.Not(c), a)
		}
		if b.IsFalse() {
			return tt.And(c, a)
		}
	}
	if c.op == OpNot {
		return tt.Ite(c.args[0], b, a)
	}
	return tt.mk(&Term{op: OpIte, w: a.w, args: []*Term{c, a, b}})
}

func (tt *TermTable) Eq(a, b *Term) *Term {
	if a == b {
		return tt.tt
	}
	k := memoKey{1, a.id, b.id}
	if r, ok := tt.memo[k]; ok {
		return r
	}
	r := tt.eq(a, b)
	tt.memo[k] = r
	return r
}

func (tt *TermTable) eq(a, b *Term) *Term {
	if a.w != b.w {
		panic(fmt.Sprintf("Eq width mismatch %d vs %d: %s / %s", a.w, b.w, a, b))
	}
	if a.IsConst() && b.IsConst() {
		return tt.Bool(a.val == b.val)
	}
	if a.w == 0 {
		if a.IsConst() {
			a, b = b, a
		}
		if b.IsTrue() {
			return a
		}
		if b.IsFalse() {
			return tt.Not(a)
		}
	}
	// ite(c, k1, k2) == k  with constants
	if b.IsConst() && a.op == OpIte && (a.args[1].IsConst() || a.args[2].IsConst()) {
		return tt.Ite(a.args[0], tt.Eq(a.args[1], b), tt.Eq(a.args[2], b))
	}
	if a.IsConst() && b.op == OpIte && (b.args[1].IsConst() || b.args[2].IsConst()) {
		return tt.Ite(b.args[0], tt.Eq(b.args[1], a), tt.Eq(b.args[2], a))
	}
	// zext(x) == const
	if b.IsConst() && a.op == OpZExt {
		x := a.args[0]
		if b.val&^mask(x.w) != 0 {
			return tt.ff
		}
		return tt.Eq(x, tt.BV(b.val, x.w))
	}
	if a.IsConst() && b.op == OpZExt {
		return tt.Eq(b, a)
	}
	// x + c1 == c2  → x == c2-c1
	if b.IsConst() && a.op == OpAdd && a.args[1].IsConst() && a.w <= 64 {
		return tt.Eq(a.args[0], tt.BV(b.val-a.args[1].val, a.w))
	}
	if a.id > b.id {
		a, b = b, a
	}
	return tt.mk(&Term{op: OpEq, args: []*Term{a, b}})
}

func (tt *TermTable) Ne(a, b *Term) *Term { return tt.Not(tt.Eq(a, b)) }

func sext64(v uint64, w int) int64 {
	if w >= 64 {
		return int64(v)
	}
	if v&(1<<uint(w-1)) != 0 {
		return int64(v | ^mask(w))
	}
	return int64(v)
}

func (tt *TermTable) Bin(op Op, a, b *Term) *Term {
	if a.w != b.w {
		panic(fmt.Sprintf("Bin %s width mismatch %d vs %d: %s / %s", opNames[op], a.w, b.w, a, b))
	}
	w := a.w
	if a.IsConst() && b.IsConst() && w <= 64 {
		x, y := a.val, b.val
		m := mask(w)
		switch op {
		case OpAdd:
			return tt.BV(x+y, w)
		case OpSub:
			return tt.BV(x-y, w)
		case OpMul:
			return tt.BV(x*y, w)
		case OpUDiv:
			if y == 0 {
				return tt.BV(m, w)
			}
			return tt.BV(x/y, w)
		case OpURem:
			if y == 0 {
				return tt.BV(x, w)
			}
			return tt.BV(x%y, w)
		case OpSDiv:
			sx, sy := sext64(x, w), sext64(y, w)
			if sy == 0 {
				if sx < 0 {
					return tt.BV(1, w)
				}
				return tt.BV(m, w)
			}
			if sy == -1 {
				return tt.BV(uint64(-sx), w)
			}
			return tt.BV(uint64(sx/sy), w)
		case OpSRem:
			sx, sy := sext64(x, w), sext64(y, w)
			if sy == 0 {
				return tt.BV(x, w)
			}
			if sy == -1 {
				return tt.BV(0, w)
			}
			return tt.BV(uint64(sx%sy), w)
		case OpBAnd:
			return tt.BV(x&y, w)
		case OpBOr:
			return tt.BV(x|y, w)
		case OpBXor:
			return tt.BV(x^y, w)
		case OpShl:
			if y >= uint64(w) {
				return tt.BV(0, w)
			}
			return tt.BV(x<<y, w)
		case OpLShr:
			if y >= uint64(w) {
				return tt.BV(0, w)
			}
			return tt.BV(x>>y, w)
		case OpAShr:
			sx := sext64(x, w)
			if y >= uint64(w) {
				y = uint64(w - 1)
			}
			return tt.BV(uint64(sx>>y), w)
		}
	}
	// identities
	switch op {
	case OpAdd:
		if a.IsConst() {
			a, b = b, a
		}
		if b.IsConst() && b.val == 0 {
			return a
		}
		// (x + c1) + c2
		if b.IsConst() && a.op == OpAdd && a.args[1].IsConst() && w <= 64 {
			return tt.Bin(OpAdd, a.args[0], tt.BV(a.args[1].val+b.val, w))
		}
		if b.IsConst() && a.op == OpSub && a.args[1].IsConst() && w <= 64 {
			return tt.Bin(OpAdd, a.args[0], tt.BV(b.val-a.args[1].val, w))
		}
	case OpSub:
		if b.IsConst() && b.val == 0 {
			return a
		}
		if a == b {
			return tt.BV(0, w)
		}
		if b.IsConst() && w <= 64 {
			return tt.Bin(OpAdd, a, tt.BV(-b.val, w))
		}
		// (x + y) - x = y ; (x + y) - y = x
		if a.op == OpAdd {
			if a.args[0] == b {
				return a.args[1]
			}
			if a.args[1] == b {
				return a.args[0]
			}
		}
	case OpMul:
		if a.IsConst() {
			a, b = b, a
		}
		if b.IsConst() {
			if b.val == 0 {
				return b
			}
			if b.val == 1 {
				return a
			}
		}
	case OpBAnd:
		if a.IsConst() {
			a, b = b, a
		}
		if b.IsConst() {
			if b.val == 0 {
				return b
			}
			if b.val == mask(w) && w <= 64 {
				return a
			}
		}
		if a == b {
			return a
		}
	case OpBOr, OpBXor:
		if a.IsConst() {
			a, b = b, a
		}
		if b.IsConst() && b.val == 0 && w <= 64 {
			return a
		}
		if a == b {
			if op == OpBOr {
				return a
			}
			return tt.BV(0, w)
		}
	case OpShl, OpLShr, OpAShr:
		if b.IsConst() && b.val == 0 {
			return a
		}
	case OpUDiv, OpSDiv:
		if b.IsConst() && b.val == 1 {
			return a
		}
	}
	return tt.mk(&Term{op: op, w: w, args: []*Term{a, b}})
}

func (tt *TermTable) Neg(a *Term) *Term {
	if a.IsConst() && a.w <= 64 {
		return tt.BV(-a.val, a.w)
	}
	return tt.mk(&Term{op: OpNeg, w: a.w, args: []*Term{a}})
}

func (tt *TermTable) BNot(a *Term) *Term {
	if a.IsConst() && a.w <= 64 {
		return tt.BV(^a.val, a.w)
	}
	if a.op == OpBNot {
		return a.args[0]
	}
	return tt.mk(&Term{op: OpBNot, w: a.w, args: []*Term{a}})
}

// rangeOf gives a cheap unsigned upper bound (inclusive) for a term, or ok=false.
func rangeOf(t *Term) (uint64, bool) {
	switch t.rngSt {
	case 1:
		return t.rngHi, true
	case 2:
		return 0, false
	}
	hi, ok := rangeOf1(t)
	if ok {
		t.rngSt, t.rngHi = 1, hi
	} else {
		t.rngSt = 2
	}
	return hi, ok
}

func rangeOf1(t *Term) (uint64, bool) {
	switch t.op {
	case OpConst:
		if t.w <= 64 {
			return t.val, true
		}
	case OpZExt:
		if t.args[0].w < 64 {
			if hi, ok := rangeOf(t.args[0]); ok {
				return hi, true
			}
			return mask(t.args[0].w), true
		}
	case OpIte:
		a, ok1 := rangeOf(t.args[1])
		b, ok2 := rangeOf(t.args[2])
		if ok1 && ok2 {
			if a > b {
				return a, true
			}
			return b, true
		}
	case OpBAnd:
		if t.args[1].IsConst() {
			return t.args[1].val, true
		}
	case OpURem:
		if t.args[1].IsConst() && t.args[1].val > 0 {
			return t.args[1].val - 1, true
		}
	}
	return 0, false
}

func (tt *TermTable) Cmp(op Op, a, b *Term) *Term {
	if a.w != b.w {
		panic(fmt.Sprintf("Cmp width mismatch %d vs %d: %s / %s", a.w, b.w, a, b))
	}
	if a.IsConst() && b.IsConst() && a.w <= 64 {
		switch op {
		case OpULT:
			return tt.Bool(a.val < b.val)
		case OpULE:
			return tt.Bool(a.val <= b.val)
		case OpSLT:
			return tt.Bool(sext64(a.val, a.w) < sext64(b.val, a.w))
		case OpSLE:
			return tt.Bool(sext64(a.val, a.w) <= sext64(b.val, a.w))
		}
	}
	if a == b {
		return tt.Bool(op == OpULE || op == OpSLE)
	}
	if a.w <= 64 {
		// cheap range reasoning for values known to be small non-negative
		if ha, ok := rangeOf(a); ok && b.IsConst() && ha < (uint64(1)<<uint(a.w-1)) {
			bs := sext64(b.val, a.w)
			switch op {
			case OpSLT:
				if bs > 0 && ha < uint64(bs) {
					return tt.tt
				}
				if bs <= 0 {
					return tt.ff
				}
			case OpSLE:
				if bs >= 0 && ha <= uint64(bs) {
					return tt.tt
				}
				if bs < 0 {
					return tt.ff
				}
			case OpULT:
				if ha < b.val {
					return tt.tt
				}
			case OpULE:
				if ha <= b.val {
					return tt.tt
				}
			}
		}
		if hb, ok := rangeOf(b); ok && a.IsConst() && hb < (uint64(1)<<uint(a.w-1)) {
			as := sext64(a.val, a.w)
			switch op {
			case OpSLT: // a < b
				if as < 0 {
					return tt.tt
				}
				if uint64(as) >= hb {
					return tt.ff
				}
			case OpSLE:
				if as <= 0 {
					return tt.tt
				}
				if uint64(as) > hb {
					return tt.ff
				}
			}
		}
	}
	return tt.mk(&Term{op: op, args: []*Term{a, b}})
}

func (tt *TermTable) Concat(a, b *Term) *Term {
	if a.IsConst() && b.IsConst() && a.w+b.w <= 64 {
		return tt.BV(a.val<<uint(b.w)|b.val, a.w+b.w)
	}
	return tt.mk(&Term{op: OpConcat, w: a.w + b.w, args: []*Term{a, b}})
}

func (tt *TermTable) Extract(a *Term, hi, lo int) *Term {
	if lo == 0 && hi == a.w-1 {
		return a
	}
	k := memoKey{2, a.id, hi*1024 + lo}
	if r, ok := tt.memo[k]; ok {
		return r
	}
	r := tt.extract(a, hi, lo)
	tt.memo[k] = r
	return r
}

func (tt *TermTable) extract(a *Term, hi, lo int) *Term {
	if hi < lo || hi >= a.w {
		panic(fmt.Sprintf("bad extract [%d:%d] of width %d", hi, lo, a.w))
	}
	if a.IsConst() && a.w <= 64 {
		return tt.BV(a.val>>uint(lo), hi-lo+1)
	}
	switch a.op {
	case OpConcat:
		l := a.args[1]
		if hi < l.w {
			return tt.Extract(l, hi, lo)
		}
		if lo >= l.w {
			return tt.Extract(a.args[0], hi-l.w, lo-l.w)
		}
	case OpZExt:
		x := a.args[0]
		if hi < x.w {
			return tt.Extract(x, hi, lo)
		}
		if lo >= x.w {
			return tt.BV(0, hi-lo+1)
		}
	case OpSExt:
		x := a.args[0]
		if hi < x.w {
			return tt.Extract(x, hi, lo)
		}
	case OpExtract:
		return tt.Extract(a.args[0], hi+a.lo, lo+a.lo)
	case OpIte:
		if a.args[1].IsConst() || a.args[2].IsConst() {
			return tt.Ite(a.args[0], tt.Extract(a.args[1], hi, lo), tt.Extract(a.args[2], hi, lo))
		}
	}
	return tt.mk(&Term{op: OpExtract, w: hi - lo + 1, args: []*Term{a}, hi: hi, lo: lo})
}

func (tt *TermTable) ZExt(a *Term, w int) *Term {
	if w == a.w {
		return a
	}
	k := memoKey{3, a.id, w}
	if r, ok := tt.memo[k]; ok {
		return r
	}
	r := tt.zext(a, w)
	tt.memo[k] = r
	return r
}

func (tt *TermTable) zext(a *Term, w int) *Term {
	if w < a.w {
		return tt.Extract(a, w-1, 0)
	}
	if a.IsConst() && w <= 64 {
		return tt.BV(a.val, w)
	}
	if a.op == OpZExt {
		return tt.ZExt(a.args[0], w)
	}
	if a.op == OpIte && (a.args[1].IsConst() || a.args[2].IsConst()) {
		return tt.Ite(a.args[0], tt.ZExt(a.args[1], w), tt.ZExt(a.args[2], w))
	}
	return tt.mk(&Term{op: OpZExt, w: w, args: []*Term{a}})
}

func (tt *TermTable) SExt(a *Term, w int) *Term {
	if w == a.w {
		return a
	}
	k := memoKey{4, a.id, w}
	if r, ok := tt.memo[k]; ok {
		return r
	}
	r := tt.sext(a, w)
	tt.memo[k] = r
	return r
}

func (tt *TermTable) sext(a *Term, w int) *Term {
	if w < a.w {
		return tt.Extract(a, w-1, 0)
	}
	if a.IsConst() && w <= 64 {
		return tt.BV(uint64(sext64(a.val, a.w)), w)
	}
	if a.op == OpZExt { // sign bit is known zero
		return tt.ZExt(a.args[0], w)
	}
	if a.op == OpIte && (a.args[1].IsConst() || a.args[2].IsConst()) {
		return tt.Ite(a.args[0], tt.SExt(a.args[1], w), tt.SExt(a.args[2], w))
	}
	return tt.mk(&Term{op: OpSExt, w: w, args: []*Term{a}})
}

func (tt *TermTable) SelectBase(arr, idx *Term) *Term {
	return tt.mk(&Term{op: OpSelect, w: arr.hi, args: []*Term{arr, idx}})
}

func (tt *TermTable) UF(name string, w int, args ...*Term) *Term {
	return tt.mk(&Term{op: OpUF, w: w, name: name, args: args})
}

// BoolToBV1 / helpers
func (tt *TermTable) BoolBV(b *Term, w int) *Term { return tt.Ite(b, tt.BV(1, w), tt.BV(0, w)) }

func popcount(v uint64) int { return bits.OnesCount64(v) }

// ---- printing ----

func sortStr(w int) string {
	if w == 0 {
		return "Bool"
	}
	return fmt.Sprintf("(_ BitVec %d)", w)
}

func smtName(s string) string {
	ok := true
	for _, c := range s {
		if !(c >= 'a' && c <= 'z' || c >= 'A' && c <= 'Z' || c >= '0' && c <= '9' || c == '_' || c == '.' || c == '-') {
			ok = false
		}
	}
	if ok && s != "" && !(s[0] >= '0' && s[0] <= '9') {
		return s
	}
	return "|" + strings.ReplaceAll(strings.ReplaceAll(s, "|", "!"), "\\", "!") + "|"
}

func constStr(t *Term) string {
	if t.w == 0 {
		if t.val == 1 {
			return "true"
		}
		return "false"
	}
	if t.w%4 == 0 {
		return fmt.Sprintf("#x%0*x", t.w/4, t.val)
	}
	return fmt.Sprintf("#b%0*b", t.w, t.val)
}

func (t *Term) ref() string {
	switch t.op {
	case OpConst:
		return constStr(t)
	case OpVar, OpArrVar:
		return smtName(t.name)
	}
	return fmt.Sprintf("t%d", t.id)
}

func (t *Term) body() string {
	var sb strings.Builder
	switch t.op {
	case OpExtract:
		fmt.Fprintf(&sb, "((_ extract %d %d) %s)", t.hi, t.lo, t.args[0].ref())
	case OpZExt:
		fmt.Fprintf(&sb, "((_ zero_extend %d) %s)", t.w-t.args[0].w, t.args[0].ref())
	case OpSExt:
		fmt.Fprintf(&sb, "((_ sign_extend %d) %s)", t.w-t.args[0].w, t.args[0].ref())
	case OpUF:
		if len(t.args) == 0 {
			return smtName(t.name)
		}
		fmt.Fprintf(&sb, "(%s", smtName(t.name))
		for _, a := range t.args {
			sb.WriteString(" " + a.ref())
		}
		sb.WriteString(")")
	default:
		fmt.Fprintf(&sb, "(%s", opNames[t.op])
		for _, a := range t.args {
			sb.WriteString(" " + a.ref())
		}
		sb.WriteString(")")
	}
	return sb.String()
}

// String gives a compact human-readable rendering (bounded depth) for diagnostics.
func (t *Term) String() string { return t.str(4) }

func (t *Term) str(d int) string {
	switch t.op {
	case OpConst:
		if t.w == 0 {
			return constStr(t)
		}
		return fmt.Sprintf("%d:%d", t.SInt(), t.w)
	case OpVar, OpArrVar:
		return t.name
	}
	if d == 0 {
		return fmt.Sprintf("t%d", t.id)
	}
	var parts []string
	for _, a := range t.args {
		parts = append(parts, a.str(d-1))
	}
	n := opNames[t.op]
	switch t.op {
	case OpExtract:
		n = fmt.Sprintf("extract[%d:%d]", t.hi, t.lo)
	case OpZExt:
		n = fmt.Sprintf("zext%d", t.w)
	case OpSExt:
		n = fmt.Sprintf("sext%d", t.w)
	case OpUF:
		n = t.name
	}
	return "(" + n + " " + strings.Join(parts, " ") + ")"
}

// Script renders declarations and definitions for the cone of the given roots, in dependency order.
func Script(roots []*Term) string {
	var sb strings.Builder
	seen := map[int]bool{}
	ufs := map[string]bool{}
	var order []*Term
	var visit func(t *Term)
	visit = func(t *Term) {
		if seen[t.id] {
			return
		}
		seen[t.id] = true
		for _, a := range t.args {
			visit(a)
		}
		order = append(order, t)
	}
	for _, r := range roots {
		visit(r)
	}
	// declarations first, sorted for determinism
	var decls []string
	for _, t := range order {
		switch t.op {
		case OpVar:
			decls = append(decls, fmt.Sprintf("(declare-const %s %s)\n", smtName(t.name), sortStr(t.w)))
		case OpArrVar:
			decls = append(decls, fmt.Sprintf("(declare-const %s (Array (_ BitVec 64) (_ BitVec %d)))\n", smtName(t.name), t.hi))
		case OpUF:
			if !ufs[t.name] {
				ufs[t.name] = true
				var as []string
				for _, a := range t.args {
					as = append(as, sortStr(a.w))
				}
				decls = append(decls, fmt.Sprintf("(declare-fun %s (%s) %s)\n", smtName(t.name), strings.Join(as, " "), sortStr(t.w)))
			}
		}
	}
	sort.Strings(decls)
	for _, d := range decls {
		sb.WriteString(d)
	}
	for _, t := range order {
		switch t.op {
		case OpConst, OpVar, OpArrVar:
			continue
		}
		fmt.Fprintf(&sb, "(define-fun t%d () %s %s)\n", t.id, sortStr(t.w), t.body())
	}
	return sb.String()
}

// CollectVars returns the scalar variables in the cone of the roots.
func CollectVars(roots []*Term) []*Term {
	seen := map[int]bool{}
	var out []*Term
	var visit func(t *Term)
	visit = func(t *Term) {
		if seen[t.id] {
			return
		}
		seen[t.id] = true
		if t.op == OpVar {
			out = append(out, t)
		}
		for _, a := range t.args {
			visit(a)
		}
	}
	for _, r := range roots {
		visit(r)
	}
	sort.Slice(out, func(i, j int) bool { return out[i].name < out[j].name })
	return out
}

package main

// Functional arrays with select push-down. Only ArrBase reaches the solver (as an SMT array constant that is
// only ever read with select); stores and range copies are overlays resolved when an element is read.

type Arr interface {
	Select(tt *TermTable, i *Term) *Term
	EW() int
}

type ArrZero struct{ ew int }  // all elements zero
type ArrBase struct{ v *Term } // declared array variable
type ArrStore struct {         // base with one element replaced
	base Arr
	i, v *Term
}
type ArrCopy struct { // base with [dOff, dOff+n) replaced by src[sOff, sOff+n)
	base    Arr
	dOff    *Term
	src     Arr
	sOff, n *Term
}
type ArrConcrete struct { // concrete contents (string literals, tables); out of range reads give 0
	data []uint64
	ew   int
}

func (a ArrZero) EW() int      { return a.ew }
func (a ArrBase) EW() int      { return a.v.hi }
func (a *ArrStore) EW() int    { return a.base.EW() }
func (a *ArrCopy) EW() int     { return a.base.EW() }
func (a *ArrConcrete) EW() int { return a.ew }

func (a ArrZero) Select(tt *TermTable, i *Term) *Term { return tt.BV(0, a.ew) }
func (a ArrBase) Select(tt *TermTable, i *Term) *Term { return tt.SelectBase(a.v, i) }

func (a *ArrConcrete) Select(tt *TermTable, i *Term) *Term {
	if i.IsConst() {
		if i.val < uint64(len(a.data)) {
			return tt.BV(a.data[i.val], a.ew)
		}
		return tt.BV(0, a.ew)
	}
	// ite chain over the concrete contents (tables are small: <= 256)
	res := tt.BV(0, a.ew)
	for k := len(a.data) - 1; k >= 0; k-- {
		v := tt.BV(a.data[k], a.ew)
		if v == res {
			continue
		}
		res = tt.Ite(tt.Eq(i, tt.BV(uint64(k), 64)), v, res)
	}
	return res
}

func (a *ArrStore) Select(tt *TermTable, i *Term) *Term {
	c := tt.Eq(i, a.i)
	if c.IsTrue() {
		return a.v
	}
	if c.IsFalse() {
		return a.base.Select(tt, i)
	}
	return tt.Ite(c, a.v, a.base.Select(tt, i))
}

func (a *ArrCopy) Select(tt *TermTable, i *Term) *Term {
	in := tt.And(tt.Cmp(OpULE, a.dOff, i), tt.Cmp(OpULT, i, tt.Bin(OpAdd, a.dOff, a.n)))
	if i.IsConst() && a.dOff.IsConst() && a.n.IsConst() {
		in = tt.Bool(a.dOff.val <= i.val && i.val < a.dOff.val+a.n.val)
	}
	if in.IsFalse() {
		return a.base.Select(tt, i)
	}
	si := tt.Bin(OpAdd, tt.Bin(OpSub, i, a.dOff), a.sOff)
	if in.IsTrue() {
		return a.src.Select(tt, si)
	}
	return tt.Ite(in, a.src.Select(tt, si), a.base.Select(tt, i))
}

// ArrChunked: an overlay of elements stored at CONCRETE indices, kept in 256-element chunks that are shared between
// versions (a store copies the chunk directory and one chunk). Used for large arrays only (real 64 KiB buffers), where
// a chain of ArrStore nodes makes every read linear in the number of stores and a store into ArrConcrete copies the
// whole array. Semantically identical to the same stores as an ArrStore chain.
type ArrChunked struct {
	base Arr
	top  [][]*Term
}

const arrBig = 1024 // arrays / indices below this keep the simple representations

func (a *ArrChunked) EW() int { return a.base.EW() }

func (a *ArrChunked) Select(tt *TermTable, i *Term) *Term {
	if i.IsConst() {
		c := i.val >> 8
		if c < uint64(len(a.top)) && a.top[c] != nil {
			if v := a.top[c][i.val&255]; v != nil {
				return v
			}
		}
		return a.base.Select(tt, i)
	}
	res := a.base.Select(tt, i)
	for c, ch := range a.top {
		for k, v := range ch {
			if v != nil {
				res = tt.Ite(tt.Eq(i, tt.BV(uint64(c)<<8|uint64(k), 64)), v, res)
			}
		}
	}
	return res
}

func (a *ArrChunked) with(idx uint64, v *Term) *ArrChunked {
	c := idx >> 8
	n := uint64(len(a.top))
	if c >= n {
		n = c + 1
	}
	top := make([][]*Term, n)
	copy(top, a.top)
	ch := make([]*Term, 256)
	if top[c] != nil {
		copy(ch, top[c])
	}
	ch[idx&255] = v
	top[c] = ch
	return &ArrChunked{base: a.base, top: top}
}

func storeArr(tt *TermTable, base Arr, i, v *Term) Arr {
	// overwrite of the same concrete index collapses
	if s, ok := base.(*ArrStore); ok && s.i == i {
		return &ArrStore{base: s.base, i: i, v: v}
	}
	if i.IsConst() && i.val < 1<<24 {
		switch b := base.(type) {
		case *ArrChunked:
			return b.with(i.val, v)
		case *ArrConcrete:
			if len(b.data) > arrBig {
				return (&ArrChunked{base: b}).with(i.val, v)
			}
		default:
			if i.val >= arrBig {
				return (&ArrChunked{base: base}).with(i.val, v)
			}
		}
	}
	if c, ok := base.(*ArrConcrete); ok && i.IsConst() && v.IsConst() && i.val < uint64(len(c.data)) {
		d := append([]uint64(nil), c.data...)
		d[i.val] = v.val
		return &ArrConcrete{data: d, ew: c.ew}
	}
	return &ArrStore{base: base, i: i, v: v}
}

func copyArr(tt *TermTable, base Arr, dOff *Term, src Arr, sOff, n *Term) Arr {
	if n.IsConst() && n.val == 0 {
		return base
	}
	if n.IsConst() && n.val <= 64 {
		// element-wise: keeps later selects at constant indices syntactic
		vals := make([]*Term, n.val)
		for k := uint64(0); k < n.val; k++ {
			vals[k] = src.Select(tt, tt.Bin(OpAdd, sOff, tt.BV(k, 64)))
		}
		res := base
		for k := uint64(0); k < n.val; k++ {
			res = storeArr(tt, res, tt.Bin(OpAdd, dOff, tt.BV(k, 64)), vals[k])
		}
		return res
	}
	return &ArrCopy{base: base, dOff: dOff, src: src, sOff: sOff, n: n}
}

func concreteArr(b []byte) Arr {
	d := make([]uint64, len(b))
	for i, c := range b {
		d[i] = uint64(c)
	}
	return &ArrConcrete{data: d, ew: 8}
}

package main

import (
	"fmt"
	"go/token"
	"go/types"
	"math"
	"unicode/utf8"

	"golang.org/x/tools/go/ssa"
)

func (m *Machine) toInt64(t *Term, typ types.Type) *Term {
	if t.w == 64 {
		return t
	}
	_, signed, _ := isScalarBasic(typ)
	if signed {
		return m.tt.SExt(t, 64)
	}
	return m.tt.ZExt(t, 64)
}

func (m *Machine) binop(op token.Token, a, b Value, ta, tb types.Type) Value {
	tt := m.tt
	switch x := a.(type) {
	case *Term:
		y, ok := b.(*Term)
		if !ok {
			panic(fmt.Sprintf("binop %s on Term and %T", op, b))
		}
		if x.w == 0 { // bool
			switch op {
			case token.EQL:
				return tt.Eq(x, y)
			case token.NEQ:
				return tt.Ne(x, y)
			case token.AND, token.LAND:
				return tt.And(x, y)
			case token.OR, token.LOR:
				return tt.Or(x, y)
			}
			panic(unsupported("bool binop " + op.String()))
		}
		_, signed, _ := isScalarBasic(ta)
		switch op {
		case token.ADD:
			return tt.Bin(OpAdd, x, y)
		case token.SUB:
			return tt.Bin(OpSub, x, y)
		case token.MUL:
			return tt.Bin(OpMul, x, y)
		case token.QUO, token.REM:
			m.check(tt.Ne(y, tt.BV(0, y.w)), "integer divide by zero")
			if signed {
				if op == token.QUO {
					return tt.Bin(OpSDiv, x, y)
				}
				return tt.Bin(OpSRem, x, y)
			}
			if op == token.QUO {
				return tt.Bin(OpUDiv, x, y)
			}
			return tt.Bin(OpURem, x, y)
		case token.AND:
			return tt.Bin(OpBAnd, x, y)
		case token.OR:
			return tt.Bin(OpBOr, x, y)
		case token.XOR:
			return tt.Bin(OpBXor, x, y)
		case token.AND_NOT:
			return tt.Bin(OpBAnd, x, tt.BNot(y))
		case token.SHL, token.SHR:
			// shift count: unsigned or (checked) non-negative; counts >= width give 0 / sign fill
			_, ysigned, _ := isScalarBasic(tb)
			if ysigned {
				m.check(tt.Cmp(OpSLE, tt.BV(0, y.w), y), "negative shift amount")
			}
			var cnt *Term
			big := tt.ff
			if y.w > x.w {
				big = tt.Cmp(OpULE, tt.BV(uint64(x.w), y.w), y)
				cnt = tt.Extract(y, x.w-1, 0)
			} else {
				cnt = tt.ZExt(y, x.w)
				big = tt.Cmp(OpULE, tt.BV(uint64(x.w), x.w), cnt)
			}
			if op == token.SHL {
				if x.IsConst() && x.val == 1 && !cnt.IsConst() {
					// 1 << n with symbolic n: an ite chain over the possible counts (single-bit masks); keeps mask tests
					// such as (1<<n)&m cheap for the solver (DESIGN.md section 7)
					res := tt.BV(0, x.w)
					for k := x.w - 1; k >= 0; k-- {
						res = tt.Ite(tt.Eq(cnt, tt.BV(uint64(k), x.w)), tt.BV(uint64(1)<<uint(k), x.w), res)
					}
					return res
				}
				return tt.Ite(big, tt.BV(0, x.w), tt.Bin(OpShl, x, cnt))
			}
			if signed {
				return tt.Ite(big, tt.Bin(OpAShr, x, tt.BV(uint64(x.w-1), x.w)), tt.Bin(OpAShr, x, cnt))
			}
			return tt.Ite(big, tt.BV(0, x.w), tt.Bin(OpLShr, x, cnt))
		case token.EQL:
			return tt.Eq(x, y)
		case token.NEQ:
			return tt.Ne(x, y)
		case token.LSS:
			if signed {
				return tt.Cmp(OpSLT, x, y)
			}
			return tt.Cmp(OpULT, x, y)
		case token.LEQ:
			if signed {
				return tt.Cmp(OpSLE, x, y)
			}
			return tt.Cmp(OpULE, x, y)
		case token.GTR:
			if signed {
				return tt.Cmp(OpSLT, y, x)
			}
			return tt.Cmp(OpULT, y, x)
		case token.GEQ:
			if signed {
				return tt.Cmp(OpSLE, y, x)
			}
			return tt.Cmp(OpULE, y, x)
		}
	case StrV:
		y := b.(StrV)
		switch op {
		case token.ADD:
			return m.strConcat(x, y)
		case token.EQL:
			return m.strEq(x, y)
		case token.NEQ:
			return tt.Not(m.strEq(x, y))
		case token.LSS, token.LEQ, token.GTR, token.GEQ:
			xs, ok1 := m.strConcrete(x)
			ys, ok2 := m.strConcrete(y)
			if ok1 && ok2 {
				switch op {
				case token.LSS:
					return tt.Bool(xs < ys)
				case token.LEQ:
					return tt.Bool(xs <= ys)
				case token.GTR:
					return tt.Bool(xs > ys)
				default:
					return tt.Bool(xs >= ys)
				}
			}
			return m.strLess(x, y, op)
		}
	case FloatV:
		y := b.(FloatV)
		return m.floatBin(op, x, y)
	}
	switch op {
	case token.EQL:
		return m.equal(a, b)
	case token.NEQ:
		return tt.Not(m.equal(a, b))
	}
	panic(unsupported(fmt.Sprintf("binop %s on %T", op, a)))
}

func (m *Machine) floatBin(op token.Token, x, y FloatV) Value {
	if x.isC && y.isC {
		switch op {
		case token.ADD:
			return FloatV{f: x.f + y.f, isC: true}
		case token.SUB:
			return FloatV{f: x.f - y.f, isC: true}
		case token.MUL:
			return FloatV{f: x.f * y.f, isC: true}
		case token.QUO:
			return FloatV{f: x.f / y.f, isC: true}
		case token.EQL:
			return m.tt.Bool(x.f == y.f)
		case token.NEQ:
			return m.tt.Bool(x.f != y.f)
		case token.LSS:
			return m.tt.Bool(x.f < y.f)
		case token.LEQ:
			return m.tt.Bool(x.f <= y.f)
		case token.GTR:
			return m.tt.Bool(x.f > y.f)
		case token.GEQ:
			return m.tt.Bool(x.f >= y.f)
		}
	}
	panic(unsupported("symbolic floating point " + op.String()))
}

// strLess: lexicographic comparison for symbolic strings with concrete lengths.
func (m *Machine) strLess(x, y StrV, op token.Token) *Term {
	tt := m.tt
	if !x.n.IsConst() || !y.n.IsConst() {
		panic(unsupported("ordering of strings with symbolic length"))
	}
	nx, ny := int(x.n.val), int(y.n.val)
	// lt / eq computed from the end
	n := nx
	if ny < n {
		n = ny
	}
	lt := tt.Bool(nx < ny) // when common prefix equal
	eq := tt.Bool(nx == ny)
	for i := n - 1; i >= 0; i-- {
		a := m.strByte(x, tt.BV(uint64(i), 64))
		b := m.strByte(y, tt.BV(uint64(i), 64))
		e := tt.Eq(a, b)
		lt = tt.Ite(e, lt, tt.Cmp(OpULT, a, b))
		eq = tt.And(e, eq)
	}
	switch op {
	case token.LSS:
		return lt
	case token.LEQ:
		return tt.Or(lt, eq)
	case token.GTR:
		return tt.Not(tt.Or(lt, eq))
	}
	return tt.Not(lt)
}

func (m *Machine) strEq(x, y StrV) *Term {
	tt := m.tt
	if x.isC && y.isC {
		return tt.Bool(x.s == y.s)
	}
	lenEq := tt.Eq(x.n, y.n)
	if lenEq.IsFalse() {
		return lenEq
	}
	// pick a concrete bound
	var n uint64
	switch {
	case x.n.IsConst():
		n = x.n.val
	case y.n.IsConst():
		n = y.n.val
	default:
		n = m.concretize(x.n)
		lenEq = tt.Eq(tt.BV(n, 64), y.n)
	}
	conj := []*Term{lenEq}
	for i := uint64(0); i < n; i++ {
		it := tt.BV(i, 64)
		conj = append(conj, tt.Eq(m.strByte(x, it), m.strByte(y, it)))
	}
	return tt.And(conj...)
}

func (m *Machine) strConcat(x, y StrV) StrV {
	tt := m.tt
	if x.isC && y.isC {
		return m.mkStr(x.s + y.s)
	}
	if x.n.IsConst() && x.n.val == 0 {
		return y
	}
	if y.n.IsConst() && y.n.val == 0 {
		return x
	}
	arr := copyArr(tt, m.strArr(x), x.n, m.strArr(y), tt.BV(0, 64), y.n)
	return StrV{arr: arr, n: tt.Bin(OpAdd, x.n, y.n)}
}

// equal compares two values of the same static type.
func (m *Machine) equal(a, b Value) *Term {
	tt := m.tt
	switch x := a.(type) {
	case *Term:
		return tt.Eq(x, b.(*Term))
	case StrV:
		return m.strEq(x, b.(StrV))
	case Ptr:
		y, ok := b.(Ptr)
		if !ok {
			return tt.ff
		}
		if x.c != y.c {
			return tt.ff
		}
		if x.idx != nil && y.idx != nil {
			return tt.Eq(x.idx, y.idx)
		}
		return tt.Bool(x.idx == nil && y.idx == nil)
	case IfaceV:
		y := b.(IfaceV)
		if x.t == nil || y.t == nil {
			return tt.Bool(x.t == nil && y.t == nil)
		}
		if !types.Identical(x.t, y.t) {
			return tt.ff
		}
		if !types.Comparable(x.t) {
			panic(&goPanic{kind: "comparing uncomparable type " + typeStr(x.t)})
		}
		return m.equal(x.v, y.v)
	case ChanV:
		return tt.Bool(x.c == b.(ChanV).c)
	case MapV:
		return tt.Bool(x.m == b.(MapV).m)
	case FuncV:
		y := b.(FuncV)
		return tt.Bool(x.fn == y.fn && x.builtin == y.builtin && x.native == y.native && len(x.bind) == 0 && len(y.bind) == 0)
	case SliceV:
		y := b.(SliceV)
		return tt.Bool(x.c == nil && y.c == nil)
	case StructV:
		y := b.(StructV)
		conj := []*Term{}
		for i := range x.f {
			conj = append(conj, m.equal(x.f[i], y.f[i]))
		}
		return tt.And(conj...)
	case ArrayV:
		y := b.(ArrayV)
		conj := []*Term{}
		if x.isB {
			for i := 0; i < x.n; i++ {
				it := tt.BV(uint64(i), 64)
				conj = append(conj, tt.Eq(x.arr.Select(tt, it), y.arr.Select(tt, it)))
			}
		} else {
			for i := range x.elems {
				conj = append(conj, m.equal(x.elems[i], y.elems[i]))
			}
		}
		return tt.And(conj...)
	case TimeV:
		y := b.(TimeV)
		return tt.And(tt.Eq(x.zero, y.zero), tt.Or(x.zero, tt.Eq(x.ns, y.ns)))
	case Opaque:
		y, ok := b.(Opaque)
		return tt.Bool(ok && x.kind == y.kind && x.id == y.id)
	case FloatV:
		y := b.(FloatV)
		if x.isC && y.isC {
			return tt.Bool(x.f == y.f)
		}
	}
	panic(unsupported(fmt.Sprintf("equality on %T", a)))
}

func (m *Machine) unop(x *ssa.UnOp, v Value) Value {
	tt := m.tt
	switch x.Op {
	case token.MUL:
		p, ok := v.(Ptr)
		if !ok {
			panic(fmt.Sprintf("load through %T", v))
		}
		return m.load(p, m.curSite)
	case token.NOT:
		return tt.Not(v.(*Term))
	case token.SUB:
		if f, ok := v.(FloatV); ok && f.isC {
			return FloatV{f: -f.f, isC: true}
		}
		return tt.Neg(v.(*Term))
	case token.XOR:
		return tt.BNot(v.(*Term))
	}
	panic(unsupported("unop " + x.Op.String()))
}

func (m *Machine) convert(v Value, from, to types.Type) Value {
	tt := m.tt
	fw, fsigned, fok := isScalarBasic(from)
	tw, _, tok := isScalarBasic(to)
	if fok && tok && fw > 0 && tw > 0 {
		t := v.(*Term)
		if tw <= fw {
			return tt.Extract(t, tw-1, 0)
		}
		if fsigned {
			return tt.SExt(t, tw)
		}
		return tt.ZExt(t, tw)
	}
	fb, _ := from.Underlying().(*types.Basic)
	tb, _ := to.Underlying().(*types.Basic)
	isStr := func(b *types.Basic) bool { return b != nil && b.Info()&types.IsString != 0 }
	isFloat := func(b *types.Basic) bool { return b != nil && b.Info()&types.IsFloat != 0 }
	switch {
	case isStr(fb) && isStr(tb):
		return v
	case isStr(tb) && fok: // string(rune)
		t := v.(*Term)
		if t.IsConst() {
			return m.mkStr(string(rune(t.SInt())))
		}
		// ASCII only
		t64 := m.toInt64(t, from)
		m.assumeSupported(tt.Cmp(OpULT, t64, tt.BV(0x80, 64)), "string(rune) for non-ASCII symbolic rune")
		arr := storeArr(tt, ArrZero{8}, tt.BV(0, 64), tt.Extract(t64, 7, 0))
		return StrV{arr: arr, n: tt.BV(1, 64)}
	case isStr(tb):
		if s, ok := from.Underlying().(*types.Slice); ok {
			sv := v.(SliceV)
			if w, _, ok := bytesElem(s.Elem()); ok && w == 8 {
				if sv.c == nil {
					return m.mkStr("")
				}
				m.onAccess(sv.c, false, m.curSite)
				// snapshot: strings are immutable
				arr := copyArr(tt, ArrZero{8}, tt.BV(0, 64), sv.c.arr, sv.off, sv.len)
				st := StrV{arr: arr, n: sv.len}
				if cs, ok := m.strConcrete(st); ok {
					return m.mkStr(cs)
				}
				return st
			}
			if w, _, ok := bytesElem(s.Elem()); ok && w == 32 { // []rune -> string
				n := m.concretize(sv.len)
				rs := make([]rune, n)
				allConst := true
				for i := range rs {
					t := sv.c.arr.Select(tt, tt.Bin(OpAdd, sv.off, tt.BV(uint64(i), 64)))
					if !t.IsConst() {
						allConst = false
						break
					}
					rs[i] = rune(t.SInt())
				}
				if allConst {
					return m.mkStr(string(rs))
				}
				// symbolic runes: UTF-8 encoding with the length class of each rune forked
				var arr Arr = ArrZero{8}
				pos := uint64(0)
				for i := uint64(0); i < n; i++ {
					t := sv.c.arr.Select(tt, tt.Bin(OpAdd, sv.off, tt.BV(i, 64)))
					for _, b := range m.encodeRune(t) {
						arr = storeArr(tt, arr, tt.BV(pos, 64), b)
						pos++
					}
				}
				return StrV{arr: arr, n: tt.BV(pos, 64)}
			}
		}
	case isStr(fb):
		if s, ok := to.Underlying().(*types.Slice); ok {
			sv := v.(StrV)
			if w, _, ok := bytesElem(s.Elem()); ok && w == 8 {
				c := m.mkArrayCell(s.Elem(), sv.n, m.curSite)
				c.arr = copyArr(tt, c.arr, tt.BV(0, 64), m.strArr(sv), tt.BV(0, 64), sv.n)
				if sv.isC {
					c.arr = concreteArr([]byte(sv.s))
				}
				return SliceV{c: c, off: tt.BV(0, 64), len: sv.n, cap: sv.n}
			}
			if w, _, ok := bytesElem(s.Elem()); ok && w == 32 {
				cs, ok := m.strConcrete(sv)
				if !ok {
					panic(unsupported("[]rune(symbolic string)"))
				}
				rs := []rune(cs)
				c := m.mkArrayCell(s.Elem(), tt.BV(uint64(len(rs)), 64), m.curSite)
				for i, r := range rs {
					c.arr = storeArr(tt, c.arr, tt.BV(uint64(i), 64), tt.BV(uint64(r), 32))
				}
				n := tt.BV(uint64(len(rs)), 64)
				return SliceV{c: c, off: tt.BV(0, 64), len: n, cap: n}
			}
		}
	case isFloat(tb) && fok:
		t := v.(*Term)
		if t.IsConst() {
			if fsigned {
				return FloatV{f: float64(t.SInt()), isC: true}
			}
			return FloatV{f: float64(t.val), isC: true}
		}
		return FloatV{t: m.toInt64(t, from), fp: "int"}
	case isFloat(fb) && tok:
		f := v.(FloatV)
		if f.isC {
			if math.IsNaN(f.f) || math.IsInf(f.f, 0) {
				return tt.BV(uint64(1)<<63, tw)
			}
			return tt.BV(uint64(int64(f.f)), tw)
		}
		if f.fp == "int" {
			return tt.Extract(f.t, tw-1, 0)
		}
	case isFloat(fb) && isFloat(tb):
		return v
	}
	if _, ok := to.Underlying().(*types.Pointer); ok {
		return v
	}
	if tb != nil && tb.Kind() == types.UnsafePointer {
		panic(unsupported("conversion to unsafe.Pointer"))
	}
	panic(unsupported("conversion " + typeStr(from) + " -> " + typeStr(to)))
}

// assumeSupported: the engine only supports the case where c holds; if it can fail the path is UNSUPPORTED.
func (m *Machine) assumeSupported(c *Term, what string) {
	if c.IsTrue() {
		return
	}
	if !m.truth(c) {
		panic(unsupported(what))
	}
}

func (m *Machine) indexAddr(base Value, idx *Term, it types.Type) Value {
	tt := m.tt
	i := m.toInt64(idx, it)
	switch b := base.(type) {
	case SliceV:
		m.check(tt.Cmp(OpULT, i, b.len), "index out of range")
		if b.c == nil {
			panic(&goPanic{kind: "index out of range (nil slice)"})
		}
		pos := tt.Bin(OpAdd, b.off, i)
		if b.c.kind == cBytes {
			return Ptr{c: b.c, idx: pos}
		}
		k := m.concretize(pos)
		return Ptr{c: b.c.elems[k]}
	case Ptr: // pointer to array
		if b.c == nil {
			panic(&goPanic{kind: "nil dereference"})
		}
		if b.c.kind == cBytes {
			m.check(tt.Cmp(OpULT, i, b.c.n), "index out of range")
			return Ptr{c: b.c, idx: i}
		}
		m.check(tt.Cmp(OpULT, i, tt.BV(uint64(len(b.c.elems)), 64)), "index out of range")
		k := m.concretize(i)
		return Ptr{c: b.c.elems[k]}
	}
	panic(fmt.Sprintf("IndexAddr on %T", base))
}

func (m *Machine) index(base Value, idx *Term, it types.Type) Value {
	tt := m.tt
	i := m.toInt64(idx, it)
	switch b := base.(type) {
	case StrV:
		m.check(tt.Cmp(OpULT, i, b.n), "index out of range")
		return m.strByte(b, i)
	case ArrayV:
		m.check(tt.Cmp(OpULT, i, tt.BV(uint64(b.n), 64)), "index out of range")
		if b.isB {
			return b.arr.Select(tt, i)
		}
		return b.elems[m.concretize(i)]
	}
	panic(fmt.Sprintf("Index on %T", base))
}

func (m *Machine) sliceOp(fr *Frame, x *ssa.Slice) Value {
	tt := m.tt
	base := m.get(fr, x.X)
	zero := tt.BV(0, 64)
	var lo, hi, max *Term
	if x.Low != nil {
		lo = m.toInt64(m.get(fr, x.Low).(*Term), x.Low.Type())
	}
	if x.High != nil {
		hi = m.toInt64(m.get(fr, x.High).(*Term), x.High.Type())
	}
	if x.Max != nil {
		max = m.toInt64(m.get(fr, x.Max).(*Term), x.Max.Type())
	}
	if lo == nil {
		lo = zero
	}
	switch b := base.(type) {
	case StrV:
		if hi == nil {
			hi = b.n
		}
		m.check(tt.And(tt.Cmp(OpULE, hi, b.n), tt.Cmp(OpULE, lo, hi)), "slice bounds out of range")
		n := tt.Bin(OpSub, hi, lo)
		if b.isC && lo.IsConst() && hi.IsConst() {
			return m.mkStr(b.s[lo.val:hi.val])
		}
		if lo.IsConst() && lo.val == 0 {
			return StrV{arr: m.strArr(b), n: n}
		}
		arr := copyArr(tt, ArrZero{8}, zero, m.strArr(b), lo, n)
		return StrV{arr: arr, n: n}
	case SliceV:
		if hi == nil {
			hi = b.len
		}
		if max == nil {
			max = b.cap
		}
		m.check(tt.And(tt.Cmp(OpULE, max, b.cap), tt.Cmp(OpULE, hi, max), tt.Cmp(OpULE, lo, hi)), "slice bounds out of range")
		if b.c == nil {
			return b
		}
		return SliceV{c: b.c, off: tt.Bin(OpAdd, b.off, lo), len: tt.Bin(OpSub, hi, lo), cap: tt.Bin(OpSub, max, lo)}
	case Ptr: // pointer to array
		if b.c == nil {
			panic(&goPanic{kind: "nil dereference"})
		}
		var n *Term
		if b.c.kind == cBytes {
			n = b.c.n
		} else {
			n = tt.BV(uint64(len(b.c.elems)), 64)
		}
		if hi == nil {
			hi = n
		}
		if max == nil {
			max = n
		}
		m.check(tt.And(tt.Cmp(OpULE, max, n), tt.Cmp(OpULE, hi, max), tt.Cmp(OpULE, lo, hi)), "slice bounds out of range")
		return SliceV{c: b.c, off: lo, len: tt.Bin(OpSub, hi, lo), cap: tt.Bin(OpSub, max, lo)}
	}
	panic(fmt.Sprintf("Slice on %T", base))
}

func (m *Machine) typeAssert(x *ssa.TypeAssert, v Value) Value {
	iv, ok := v.(IfaceV)
	if !ok {
		panic(fmt.Sprintf("TypeAssert on %T", v))
	}
	at := x.AssertedType
	var okk bool
	var res Value
	if iv.t != nil {
		if types.IsInterface(at) {
			if _, isOp := iv.v.(Opaque); isOp {
				okk = m.opaqueImplements(iv, at)
			} else {
				okk = types.Implements(iv.t, at.Underlying().(*types.Interface))
			}
			res = iv
		} else {
			okk = types.Identical(iv.t, at)
			res = iv.v
		}
	}
	if !okk {
		if x.CommaOk {
			return TupleV{m.zeroValue(at), m.tt.ff}
		}
		panic(&goPanic{kind: "interface conversion: " + typeStr(iv.t) + " is not " + typeStr(at)})
	}
	if x.CommaOk {
		return TupleV{res, m.tt.tt}
	}
	return res
}

// ---------------------------------------------------------------------------------------------------------
// maps

func (m *Machine) keyEq(a, b Value) bool {
	return m.truth(m.equal(a, b))
}

func (m *Machine) lookup(base Value, key Value, x *ssa.Lookup) Value {
	switch b := base.(type) {
	case StrV:
		i := m.toInt64(key.(*Term), x.Index.Type())
		m.check(m.tt.Cmp(OpULT, i, b.n), "index out of range")
		return m.strByte(b, i)
	case MapV:
		vt := x.X.Type().Underlying().(*types.Map).Elem()
		if b.m != nil {
			m.onMapAccess(b.m, false)
			for _, e := range b.m.entries {
				if m.keyEq(e.k, key) {
					v := m.loadCell(e.v, nil)
					if x.CommaOk {
						return TupleV{v, m.tt.tt}
					}
					return v
				}
			}
		}
		if x.CommaOk {
			return TupleV{m.zeroValue(vt), m.tt.ff}
		}
		return m.zeroValue(vt)
	}
	panic(fmt.Sprintf("Lookup on %T", base))
}

func (m *Machine) mapUpdate(mv MapV, key, val Value) {
	if mv.m == nil {
		panic(&goPanic{kind: "assignment to entry in nil map"})
	}
	m.onMapAccess(mv.m, true)
	for _, e := range mv.m.entries {
		if m.keyEq(e.k, key) {
			m.storeCell(e.v, nil, val)
			return
		}
	}
	c := m.mkCell(mv.m.vt)
	c.root = c
	m.storeCell(c, nil, val)
	mv.m.entries = append(mv.m.entries, &MapEntry{k: key, v: c})
}

func (m *Machine) mapDelete(mv MapV, key Value) {
	if mv.m == nil {
		return
	}
	m.onMapAccess(mv.m, true)
	for i, e := range mv.m.entries {
		if m.keyEq(e.k, key) {
			mv.m.entries = append(append([]*MapEntry{}, mv.m.entries[:i]...), mv.m.entries[i+1:]...)
			return
		}
	}
}

// ---------------------------------------------------------------------------------------------------------
// range

type RangeIter struct {
	m     *MapObj
	snap  []*MapEntry
	s     StrV
	isStr bool
	pos   int
	tpos  *Term
}

func (m *Machine) mkRange(fr *Frame, v Value) Value {
	switch x := v.(type) {
	case MapV:
		it := &RangeIter{m: x.m}
		if x.m != nil {
			m.onMapAccess(x.m, false)
			it.snap = append([]*MapEntry(nil), x.m.entries...)
			if m.H.Opts["maporder"] == "all" && len(it.snap) > 1 && !m.isHarnessFn(fr.fn) {
				// arbitrary iteration order: choose a permutation by successive choices
				rest := it.snap
				var perm []*MapEntry
				for len(rest) > 1 {
					k := m.decide(len(rest), nil)
					perm = append(perm, rest[k])
					rest = append(append([]*MapEntry{}, rest[:k]...), rest[k+1:]...)
				}
				it.snap = append(perm, rest...)
			}
		}
		return it
	case StrV:
		return &RangeIter{s: x, isStr: true, tpos: m.tt.BV(0, 64)}
	}
	panic(unsupported(fmt.Sprintf("range over %T", v)))
}

func (m *Machine) nextRange(it *RangeIter, x *ssa.Next) Value {
	tt := m.tt
	if it.isStr {
		if !m.truth(tt.Cmp(OpULT, it.tpos, it.s.n)) {
			return TupleV{tt.ff, tt.BV(0, 64), tt.BV(0, 32)}
		}
		b := m.strByte(it.s, it.tpos)
		idx := it.tpos
		if m.truth(tt.Cmp(OpULT, b, tt.BV(0x80, 8))) {
			it.tpos = tt.Bin(OpAdd, it.tpos, tt.BV(1, 64))
			return TupleV{tt.tt, idx, tt.ZExt(b, 32)}
		}
		// multi-byte: need concrete bytes
		p := m.concretize(it.tpos)
		n := m.concretize(it.s.n)
		var buf []byte
		for k := p; k < n && k < p+4; k++ {
			bt := m.strByte(it.s, tt.BV(k, 64))
			buf = append(buf, byte(m.concretize(bt)))
		}
		r, sz := utf8.DecodeRune(buf)
		it.tpos = tt.BV(p+uint64(sz), 64)
		return TupleV{tt.tt, idx, tt.BV(uint64(r), 32)}
	}
	// map: skip entries deleted meanwhile
	for it.pos < len(it.snap) {
		e := it.snap[it.pos]
		it.pos++
		live := false
		if it.m != nil {
			for _, ce := range it.m.entries {
				if ce == e {
					live = true
				}
			}
		}
		if !live {
			continue
		}
		return TupleV{tt.tt, e.k, m.loadCell(e.v, nil)}
	}
	mt := x.Iter.(*ssa.Range).X.Type().Underlying().(*types.Map)
	return TupleV{tt.ff, m.zeroValue(mt.Key()), m.zeroValue(mt.Elem())}
}

// encodeRune: the UTF-8 bytes of a (possibly symbolic) 32-bit rune, as Go's string conversion produces them; the
// length class (1..4 bytes, or an invalid value which becomes U+FFFD) is a forked decision.
func (m *Machine) encodeRune(t *Term) []*Term {
	tt := m.tt
	if t.w != 32 {
		t = tt.Extract(t, 31, 0)
	}
	c := func(v uint64) *Term { return tt.BV(v, 32) }
	in := func(lo, hi uint64) *Term { return tt.And(tt.Cmp(OpULE, c(lo), t), tt.Cmp(OpULE, t, c(hi))) }
	classes := []*Term{in(0, 0x7f), in(0x80, 0x7ff), tt.Or(in(0x800, 0xd7ff), in(0xe000, 0xffff)), in(0x10000, 0x10ffff)}
	invalid := tt.Not(tt.Or(classes...))
	classes = append(classes, invalid)
	k := 0
	if t.IsConst() {
		for i, cl := range classes {
			if cl.IsTrue() {
				k = i
			}
		}
	} else {
		k = m.decide(len(classes), func(i int) *Term { return classes[i] })
	}
	b8 := func(x *Term) *Term { return tt.Extract(x, 7, 0) }
	shr := func(x *Term, n uint64) *Term { return tt.Bin(OpLShr, x, c(n)) }
	cont := func(x *Term) *Term { // 10xxxxxx from the low six bits
		return tt.Bin(OpBOr, tt.BV(0x80, 8), tt.Bin(OpBAnd, b8(x), tt.BV(0x3f, 8)))
	}
	switch k {
	case 0:
		return []*Term{b8(t)}
	case 1:
		return []*Term{tt.Bin(OpBOr, tt.BV(0xc0, 8), b8(shr(t, 6))), cont(t)}
	case 2:
		return []*Term{tt.Bin(OpBOr, tt.BV(0xe0, 8), b8(shr(t, 12))), cont(shr(t, 6)), cont(t)}
	case 3:
		return []*Term{tt.Bin(OpBOr, tt.BV(0xf0, 8), b8(shr(t, 18))), cont(shr(t, 12)), cont(shr(t, 6)), cont(t)}
	}
	return []*Term{tt.BV(0xef, 8), tt.BV(0xbf, 8), tt.BV(0xbd, 8)}
}

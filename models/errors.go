// Package zzverifmodels holds Go models that the symbolic engine executes in place of library functions whose real
// bodies use reflection, unsafe or assembly. A function M_<pkg>_<Name> replaces <pkg>.<Name>.
package zzverifmodels

import "github.com/dapr/kit/zzverif"

// errors.Is without reflectlite.
func M_errors_Is(err, target error) bool {
	if err == nil || target == nil {
		return err == target
	}
	return errIs(err, target, zzverif.Comparable(target))
}

func errIs(err, target error, targetComparable bool) bool {
	for {
		if targetComparable && zzverif.SameDynType(err, target) && err == target {
			return true
		}
		if x, ok := err.(interface{ Is(error) bool }); ok && x.Is(target) {
			return true
		}
		switch x := err.(type) {
		case interface{ Unwrap() error }:
			err = x.Unwrap()
			if err == nil {
				return false
			}
		case interface{ Unwrap() []error }:
			for _, e := range x.Unwrap() {
				if errIs(e, target, targetComparable) {
					return true
				}
			}
			return false
		default:
			return false
		}
	}
}

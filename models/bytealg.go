package zzverifmodels

// Plain-Go versions of the assembly-backed internal/bytealg primitives and of the strings/bytes search functions built
// on them (the real ones switch on CPU features and use Rabin-Karp with unsafe).

func M_internal_bytealg_IndexByte(b []byte, c byte) int {
	for i := 0; i < len(b); i++ {
		if b[i] == c {
			return i
		}
	}
	return -1
}

func M_internal_bytealg_IndexByteString(s string, c byte) int {
	for i := 0; i < len(s); i++ {
		if s[i] == c {
			return i
		}
	}
	return -1
}

func M_internal_bytealg_Count(b []byte, c byte) int {
	n := 0
	for i := 0; i < len(b); i++ {
		if b[i] == c {
			n++
		}
	}
	return n
}

func M_internal_bytealg_CountString(s string, c byte) int {
	n := 0
	for i := 0; i < len(s); i++ {
		if s[i] == c {
			n++
		}
	}
	return n
}

func M_internal_bytealg_Equal(a, b []byte) bool {
	if len(a) != len(b) {
		return false
	}
	for i := 0; i < len(a); i++ {
		if a[i] != b[i] {
			return false
		}
	}
	return true
}

func M_bytes_Equal(a, b []byte) bool { return M_internal_bytealg_Equal(a, b) }

func M_internal_bytealg_Compare(a, b []byte) int {
	n := len(a)
	if len(b) < n {
		n = len(b)
	}
	for i := 0; i < n; i++ {
		if a[i] < b[i] {
			return -1
		}
		if a[i] > b[i] {
			return 1
		}
	}
	if len(a) < len(b) {
		return -1
	}
	if len(a) > len(b) {
		return 1
	}
	return 0
}

func M_strings_Index(s, sub string) int {
	n := len(sub)
	if n == 0 {
		return 0
	}
	for i := 0; i+n <= len(s); i++ {
		if s[i:i+n] == sub {
			return i
		}
	}
	return -1
}

func M_internal_stringslite_Index(s, sub string) int { return M_strings_Index(s, sub) }

func M_strings_IndexByte(s string, c byte) int { return M_internal_bytealg_IndexByteString(s, c) }
func M_internal_stringslite_IndexByte(s string, c byte) int {
	return M_internal_bytealg_IndexByteString(s, c)
}
func M_bytes_IndexByte(b []byte, c byte) int { return M_internal_bytealg_IndexByte(b, c) }

func M_bytes_Index(s, sep []byte) int {
	n := len(sep)
	if n == 0 {
		return 0
	}
	for i := 0; i+n <= len(s); i++ {
		if M_internal_bytealg_Equal(s[i:i+n], sep) {
			return i
		}
	}
	return -1
}

func M_strings_LastIndex(s, sub string) int {
	n := len(sub)
	if n == 0 {
		return len(s)
	}
	for i := len(s) - n; i >= 0; i-- {
		if s[i:i+n] == sub {
			return i
		}
	}
	return -1
}

func M_strings_LastIndexByte(s string, c byte) int {
	for i := len(s) - 1; i >= 0; i-- {
		if s[i] == c {
			return i
		}
	}
	return -1
}

func M_strings_Count(s, sub string) int {
	if len(sub) == 0 {
		return len(s) + 1 // ASCII only in the harnesses
	}
	n := 0
	for {
		i := M_strings_Index(s, sub)
		if i == -1 {
			return n
		}
		n++
		s = s[i+len(sub):]
	}
}

func M_strings_HasPrefix(s, p string) bool  { return len(s) >= len(p) && s[:len(p)] == p }
func M_strings_HasSuffix(s, p string) bool  { return len(s) >= len(p) && s[len(s)-len(p):] == p }
func M_strings_Contains(s, sub string) bool { return M_strings_Index(s, sub) >= 0 }

func M_internal_bytealg_MakeNoZero(n int) []byte { return make([]byte, n) }
